#!/usr/bin/env python3
"""Rewrites the 'as built' sections of DESIGN.md (0, 7, 10, 11) from the texts below + seeded/*/meta.json."""
import glob
import json
import os
import re
import subprocess

VERIF = os.path.dirname(os.path.dirname(os.path.abspath(__file__)))

def _load(name):
    import importlib.util
    spec = importlib.util.spec_from_file_location(name, os.path.join(VERIF, name + '.py'))
    mod = importlib.util.module_from_spec(spec); spec.loader.exec_module(mod)
    return mod


def _cell(t):
    return ' '.join(str(t).replace('|', '/').split())


def section0():
    props = _load('props').PROPS
    na = _load('na').NOT_APPLICABLE
    known = json.load(open(os.path.join(VERIF, 'known_findings.json')))['findings']
    ids = [json.loads(l)['id'] for l in open(os.path.join(VERIF, 'properties.jsonl'))]
    out = ['## 0. Summary table (as built; generated from props.py, na.py and known_findings.json by tools/design_sections.py)', '',
           '| id | deciding units (`/verif/units`) and engines | bounded searches (never counted as proved) | defects exposed: fixed / open | not covered (see MANIFEST level_note) |',
           '|----|------------------------------------------|---------------------------------------------|------------------------------|---------------------------------------|']
    for pid in ids:
        if pid not in props: continue
        pc = props[pid]
        units = ', '.join('`%s`%s' % (u['unit'], ' (pin)' if u.get('role') == 'pin' else '') for u in pc.get('units', []))
        eng = ', '.join(e['kind'] + ('/' + e['crate'] if e.get('crate') else '') for e in pc.get('engines', []))
        reps = ', '.join(sorted({'`%s`%s' % (r['driver'], '' if (r.get('quick') or r.get('thorough') or r.get('on_undecided')) else ' (witness only)') for r in pc.get('replays', [])}))
        fx = [k.get('commit') for k in known if k['property'] == pid and k['status'] == 'fixed']
        op = [k for k in known if k['property'] == pid and k['status'] == 'open']
        out.append('| %s | %s%s | %s | %s | %s |' % (pid, units or '-', ('; ' + eng) if eng else '', reps or '-',
                                                 (('fixed: ' + ', '.join('`%s`' % c for c in fx)) if fx else '-') + (('; OPEN: %d' % len(op)) if op else ''),
                                                 _cell('; '.join(pc.get('not_covered', [])))[:400]))
    out.append('')
    out.append('%d properties are claimed (several at a stated reduced scope, see each check\'s `level_text` / `level_note` in MANIFEST.json), %d are `not_applicable` (section 6).'
               % (len([i for i in ids if i in props]), len([i for i in ids if i in na])))
    return '\n'.join(out) + '\n'


def section6():
    na = _load('na').NOT_APPLICABLE
    ids = [json.loads(l)['id'] for l in open(os.path.join(VERIF, 'properties.jsonl'))]
    out = ['## 6. Not applicable (goes to `MANIFEST.json: not_applicable`; generated from na.py)', '']
    for i in ids:
        if i in na: out.append('* **%s** %s' % (i, na[i]))
    return '\n'.join(out) + '\n'


def section7():
    known = json.load(open(os.path.join(VERIF, 'known_findings.json')))['findings']
    out = ['## 7. Genuine defects found, and what was done (generated from known_findings.json)', '',
           'Every *fixed* entry was first reported by a check as a failed obligation (or, where stated, by a bounded search of the thorough tier)',
           'on the tree as it was, then shown on the real code (Kani counterexample, replay driver or demonstration), then repaired by one minimal',
           '`fix:` commit in `/repo` with the unedited baseline green. A fixed record suppresses nothing: the obligation is required to hold.', '',
           '| property | commit | obligation (regex) | what failed |', '|----------|--------|--------------------|-------------|']
    for k in known:
        if k['status'] != 'fixed': continue
        out.append('| %s | `%s` | `%s` | %s |' % (k['property'], k.get('commit'), _cell(k['obligation'])[:110], _cell(k['what'].split(k.get('commit', '~~'))[-1])[:520]))
    out += ['', '**Open known findings (recorded, not repaired; the check prints `KNOWN-FINDING` for each and still reports every other violation):**', '']
    for k in known:
        if k['status'] != 'open': continue
        out.append('* **%s** %s  \n  *why not repaired:* %s' % (k['property'], _cell(k['what'])[:700], _cell(k.get('why_not_fixed', ''))[:500]))
    out += ['', OBSERVATIONS]
    return '\n'.join(out) + '\n'


OBSERVATIONS = '''**Seen while proving, outside every claimed clause (neither findings nor repaired):** `LuaParser::bump()` called again at end of
input indexes `tokens[len]` (every grammar call site is now PROVED to be guarded: unit c02_grammar); `parse_stats` would loop forever on a
token stream containing `TkContinue` / `TkConst` tokens (the lexer is proved never to produce them); in the doc grammar `complete` of an empty
node does not decrement `mark_level`, so after `---@type fun(a: ...` at the end of a comment the recovery loop of `parse_tag` emits one
`NodeEnd` too many (lossless, no crash, malformed nesting); re-submitting an unchanged file moves it behind other files registered under
the same module name, so `require "a"` can switch from `a.lua` to `a/init.lua` (lemma_resubmission_changes_choice, unit c10_module);
a file without a module entry (remote document, or outside every root) is never marked meta by `---@meta`; `get_document_lsp_range`
ends at `(line_count, 0)`, one line past the last line; a `diagnose_file` panic inside a spawned task of `emmylua_check` is swallowed
(the file is silently missing from the report); facts that other files derived from a removed file stay until those files are
re-analysed (`remove_file_by_uri` re-analyses nothing).'''


S10 = '''## 10. Changes to the machinery (log)

* **Unit description format.** `units/<unit>/unit.py` (a Python dict, can be *generated* from the repository's struct
  definitions — `c09_clear`, `c23_encoding`) + `template.rs` with `//@@ <key>` placeholders and `//@@include`, instead of
  `unit.toml` + `prelude.rs` + `overlay.rs`. The overlay keys are those of §3.3 (`ret`, `requires`, `ensures`,
  `decreases`, `loops` by ordinal, `iter_names`, `proof` anchors, `body_first`, `attrs`).
* **text-size shim** is hand-transcribed (`units/common/textsize.rs`) instead of extracted from the vendored crate;
  it is cross-checked against the real crate by the loop-free Kani harness `kani/shims` (thorough tier of C19 / C22).
* **Statement slices** (`kind: 'slice'`) and **dual extraction** (the same real fn extracted a second time and turned into
  a `spec fn` by a named rule, the exec copy proving `r == sp_f(..)`; used by `c26_semantic_tokens`) were added.
* **Closure contract overlay**: Verus knows nothing about an un-annotated closure; named rules add parameter types and an
  `ensures` to a closure while keeping its body verbatim (Verus checks the ensures against the body).
* **Optional rules** (`{'optional': True}`) and the structural `is-some-and` / `letchain-nest` rules make units tolerant
  to harmless rewrites; a construct no rule covers still yields *undecided*.
* **False alarm corrected (C10, formerly listed as open finding L4).** The dump comparison of `replay/c10_trace` reported
  `Many([x])` where an analysis that never saw the file has `One(x)` (`LuaMemberIndex::remove`, member/mod.rs) as a leak. The two
  are the same answer to every query (`get_member_ids`, `resolve_type` = the union of one type, `resolve_semantic_decl`; `is_one`
  has no caller) and hold no reference to the removed file: the search demanded more than C10 states. The search now reads the two
  as equal (`fn one_of_many`, restricted to `members_index`), and the entry was removed from known_findings.json — a false alarm is
  not a finding.
* **False-alarm probes with harmless edits** (run on a scratch worktree, never committed): renaming the locals of
  `LineIndex::get_offset` and reversing the four independent `remove` statements of `DiagnosticIndex::remove` gives *undecided*
  (a proof anchor quotes a renamed local) resp. OK, never a VIOLATION; the semantically equivalent rewrites `if end < start`
  for `if start > end` in `to_rowan_range`, re-ordered and operand-swapped match arms in `DiagnosticAction::is_match`, and
  `match .. { Some(d) => d.contains(code), None => false }` for the `if let .. else` of `is_file_disabled` all verify
  unchanged (C20, C22, C25 OK) — the contracts speak about the abstraction, the anchors about statement shapes.
* **Undecided is never an alarm, but a replayed refutation is always sound**: when a property's units are undecided the
  check runs the property's bounded witness search on the real code (`replay/c01`, `replay/c22`); a hit is reported as a
  VIOLATION with the concrete input, otherwise the check stays undecided (exit 2). The search decides nothing else.
* **C38** is stricter than planned: instead of only naming the field types (which would still consult `unsafe impl`s on
  inner types), every `unsafe impl Send/Sync` of the two crates is stripped from a workspace copy before rustc is asked.
  This exposed `LuaAstPtr`.
* **C09** got a second unit (`c09_reindex`) after a seeded change showed that `reindex` itself can pick the wrong file
  list; **C19/C20** include `DiagnosticIndex::remove` (from `c10_remove`) after seeded changes showed that stale per-file
  enable/disable sets survive re-indexing otherwise.
* **Cross-unit assumptions were discharged by new units**: `c22_vfs` proves the `LuaDocument` invariant that `c22_lineindex`
  assumed (text paired with the LineIndex parsed from it) and exposed the pathless-uri leak; `c20_inputs` proves that
  `LuaDiagnosticConfig::new` builds exactly the configured sets (previously assumed by `c20_config`) and the code-list
  handling of the suppression comments; `c01_compose` includes the interface predicate files of the three C01 units (the same
  text) and proves `theorem_lossless`, so the implications between the links are machine-checked.
* **Thorough tier** additionally runs every bounded witness search even when all obligations are discharged; results are
  listed under `coverage.bounded`, never counted as discharged. This is how the flatten-collision panic (C31) was found.
* **C23** became a claimed check with *pinned* known findings instead of a second contract set inside the C22 unit.
* **False alarms found and corrected in the machinery:** (1) the first precondition written for `translate_range`
  quantified over *all* documents and was nearly contradictory — replaced by a precondition on the document of that file
  (the vacuity guard is on); (2) committed evidence twice came from a run on a deliberately broken tree (C01 on a reverted tree; C36 with
  `discharged 56 != obligations 57`, left behind by `tools/seed.py detect C36_3` — the check itself was right both
  times, the record was of another tree). Now structural: `tools/seed.py detect` runs the checks with
  `VERIF_EVIDENCE_DIR=build/seeded_evidence` (honoured by `vc/evidence.py`), so `evidence/` is only ever written by runs
  on the tree as it is, and `tools/run_all.sh` regenerates and validates every evidence file (schema, `obligations ==
  discharged`, `violations == 0`) on the clean tree before a commit; (3) vacuity-guard noise and
  compile errors of an assembled unit are classified *undecided*, never as failed obligations.
* **Kani for container code** stays dropped (compiler ICE on hashbrown/serde_json, §2.6). No bounded stand-in is
  counted as proved anywhere; the only bounded artefacts are the witness searches, labelled as such.
* **Second session (units c02_*, c10_module, c10_writers, c13_*, c16_*, c24_*, c25_sites, c26_locations, c32_merge, c35_export,
  c36_channel, c39_*):** the assumed contracts of the first session were discharged one by one - the whole Lua grammar
  (`c02_grammar`: 53 fns, built by `units/c02_grammar/build.py` on top of `c01_parser`'s items with the hand-written `parse_stats`
  shim cut out; `c02_gexpr` / `c02_gstat` are the modular halves with the other side assumed under the identical contract text), the
  whole doc grammar (`c02_gdoc`, subsumes `c01_doc`), the lexer fact the grammar needs (`no_soft_kinds`), the index writers
  (`c10_writers`), the module tree (`c10_module`), the token_at_offset call sites (`c25_sites`: the syntactic scan became 16 proof
  obligations), the task/channel bookkeeping of `emmylua_check` (`c36_channel`, tokio abstracted by the named `async-seq-*` rules).
  Properties C32, C33 (partial), C35 moved from not-applicable to claimed after their deciding layer turned out to be expressible
  (serde_json `Value` as a shimmed data type with a `final(..)` prophecy for the `&mut` cursor; iterator pipelines desugared by
  mechanical rules; hash-order independence as "the result is the canonical listing of the map's contents").
* **Rule tables are per unit** (`vc/assemble.py`): `extra_rules` of a unit no longer enter the global catalogue - two units used the
  name `drop-log` for different rewrites and were assembled concurrently by one check (C31 went undecided; found by `run_all`).
* **C38 dynamic half**: `NoInteriorMut` auto-trait goals (nightly `auto_traits` / `negative_impls`, thorough tier: the cold build of the
  dependency graph on nightly takes ~7 min) + bounded stress search `replay/c38` (both tiers). A failed `NoInteriorMut` goal is
  *undecided* (a transparent cache would keep the property), only a schedule-dependent answer exhibited by the stress search is a violation.
* **`tools/seed.py detect`** works in its own worktree and build directory (`VERIF_REPO`, `VERIF_BUILD`, `VERIF_REPLAYS_DIR`,
  `VERIF_EVIDENCE_DIR`): neither `/repo` nor `evidence/` is touched by a seeded-change run, so proof agents can read `/repo` meanwhile.
* **Bounded searches may pin open findings themselves** (`replay/c10_trace --known <file>` prints `KNOWN ...` and goes on); the driver
  requires every such line to be described by an open entry of `known_findings.json` (`witness_pattern`) and prints `KNOWN-FINDING`
  for it; an unlisted `KNOWN` line is a violation. `replay/c01` has a hang watchdog (a parse running > 20 s is a failing input).
* **Slice anchors are structural where a mutation showed them brittle**: the end anchor of the `analyze_doc_tag_meta` slice was the very
  statement an independent reviewer deleted (check went undecided instead of failing); it is now the end of the enclosing block.
  Where a refactor still detaches an overlay (exit 2), the property's bounded search on the real code is the fallback
  (`replay/c20`, `replay/c26`, `replay/c36`, `replay/c10_trace`), labelled bounded.
* Proof engineering of the larger units (`c22_lineindex`, `c01_*`, `c26_semantic_tokens`) was done by sub-agents
  working in private worktrees under the rules of `units/README.md`; their contracts were reviewed against the property
  statements and every unit is re-run against `/repo` by the checks.
'''


def seeded_table():
    rows = []
    for mp in sorted(glob.glob(os.path.join(VERIF, 'seeded', '*', 'meta.json'))):
        m = json.load(open(mp))
        name = m.get('name', os.path.basename(os.path.dirname(mp)))
        det = m.get('detection', {})
        conf = m.get('confirmation', {})
        verdicts = []
        for p, d in det.items():
            obl = next((l.strip().replace('obligation: ', '') for l in d.get('lines', []) if 'obligation' in l), '')
            verdicts.append('%s: %s%s' % (p, d.get('verdict', '?'), (' — `%s`' % obl[:110]) if obl and d.get('rc') == 1 else ''))
        rows.append('| %s | %s | %s | %s | %s |' % (
            name, (m.get('summary', '') or '')[:230].replace('|', '/').replace('\n', ' '),
            (m.get('needs', '') or '')[:170].replace('|', '/').replace('\n', ' '),
            'yes' if conf.get('confirmed') else ('no: ' + str({k: v for k, v in conf.items() if k in ('applies', 'existing_tests_ok', 'demo_with_patch', 'demo_without_patch')}) if conf else 'pending'),
            '<br>'.join(verdicts) or 'not run'))
    head = '''## 11. Seeded changes: which check catches which change

Changes written by fresh sub-agents that saw only a property's text and a private worktree (`seeded/<name>/`:
`patch.diff`, `demo.rs`, `meta.json`). "confirmed" = re-checked here in a scratch worktree: the patch applies, the touched
crates' existing tests pass, the demonstration fails with the patch and passes without. Detection = `./check <prop>` with the
patch applied to `/repo` (then undone). MISSED entries are in code the property's check declares as not covered.

| seeded | change | needs | confirmed | detection |
|--------|--------|-------|-----------|-----------|
'''
    return head + '\n'.join(rows) + '\n'


def main():
    p = os.path.join(VERIF, 'DESIGN.md')
    s = open(p).read()

    def replace_section(s, num, new):
        m = re.search(r'^## %d\. .*?(?=^## \d+\. |\Z)' % num, s, flags=re.S | re.M)
        sep = '\n---------------------------------------------------------------------------------------------------\n\n'
        if m:
            return s[:m.start()] + new.rstrip() + '\n' + sep + s[m.end():].lstrip('-\n')
        return s.rstrip() + '\n' + sep + new
    s = replace_section(s, 0, section0())
    s = replace_section(s, 6, section6())
    s = replace_section(s, 7, section7())
    s = replace_section(s, 10, S10)
    s = replace_section(s, 11, seeded_table())
    s = re.sub(r'(\n-{90,}\n){2,}', '\n---------------------------------------------------------------------------------------------------\n', s)
    open(p, 'w').write(s)
    print('DESIGN.md sections 0, 6, 7, 10, 11 rewritten')


if __name__ == '__main__':
    main()
