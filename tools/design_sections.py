#!/usr/bin/env python3
"""Rewrites the 'as built' sections of DESIGN.md (0, 7, 10, 11) from the texts below + seeded/*/meta.json."""
import glob
import json
import os
import re
import subprocess

VERIF = os.path.dirname(os.path.dirname(os.path.abspath(__file__)))

S0 = '''## 0. Summary table (as built)

| id  | claimed | deciding step (units under `/verif/units`) | level | genuine defects the contracts exposed on the pinned tree |
|-----|---------|---------------------------------------------|-------|----------------------------------------------------------|
| C01 | yes | Verus: `c01_compose` (machine-checked glue: `theorem_lossless` over the interface predicates of the three units), `c01_reader` (Reader + the whole real lexer: tokens tile the text), `c01_parser` (driver + Marker API + `parse_chunk` loop: every token emitted once, in order), `c01_green` (tree builders hand exactly those ranges to rowan, for every event list); bounded search on the real parser when a unit is undecided | proof (doc-comment re-lexing, grammar frame, rowan assumed) | NUL treated as end of input (fixed `69919c1`); `finish()` kept only the first top-level element (fixed `1343370`) |
| C02 | yes, reduced scope | same three units: panic-freedom + `decreases` of lexer, driver, marker, builders | proof for those stages; recursion depth / grammar panics **not covered** | latent: `LuaParser::bump` at end of input indexes out of bounds (API-level, unreachable through the grammar; recorded, not fixed) |
| C09 | yes | Verus: `c09_clear` (generated from the struct definitions: `new`/`clear` of all 14 indexes + `DbIndex::clear` establish `fresh_*`), `c09_reindex` (`reindex` = clear, then update with **every** Vfs file id), `c22_vfs` (a re-submitted text is always re-parsed under the current configuration) | proof | `LuaMemberIndex::clear` kept `member_current_owner` (fixed `01e21e6`) |
| C10 | yes, partial | Verus: `c10_remove` (`remove` of decl / dependency / diagnostic / flow / signature / property indexes, per-file maps of the reference index, `DbIndex::remove` delegation), `c22_vfs` (`Vfs::remove_file`, withdrawal of a text, a submitted uri stays addressable) | proof for those indexes and the Vfs; module/member/type/operator/metatable/global **not covered** | documents without a file path leaked a copy per edit and could not be removed (fixed `455b3ae`) |
| C19 | yes | Verus `c19_match` (+ Kani on the compiled real crate, thorough tier and for counterexamples), scope slices of `diagnostic_tags.rs` in `c22_lineindex`, code-list handling of the four `analyze_diagnostic_*` functions in `c20_inputs`, `DiagnosticIndex::remove` in `c10_remove`; bounded search `replay/c19` when undecided | proof | touching ranges matched (fixed `65c9cea`) |
| C20 | yes | Verus `c20_config` (precedence chain, `add_diagnostic`, `get_severity`, `diagnose_file`), `c20_inputs` (`LuaDiagnosticConfig::new` builds exactly the configured sets/maps), `DiagnosticIndex::remove` in `c10_remove` | proof | — |
| C21 | yes, partial | labels `C21.*` in `c22_lineindex` (`to_lsp_range`, `translate_range`) and `c20_config` (`add_diagnostic` fields, "enabled ⇒ reported", parse-error loop of `SyntaxErrorChecker::check`) | proof for those clauses | — |
| C22 | yes | Verus `c22_lineindex` (all of `LineIndex`, the `LuaDocument` conversions, `lemma_round_trip`), `c22_vfs` (the Vfs pairs every text with the LineIndex parsed from it), Kani cross-check of the text-size shim (thorough), bounded search on the real code when undecided | proof | `get_offset` did not clamp to the line (fixed `c8fa1d8`) |
| C23 | yes | `c23_encoding` = `c22_lineindex` re-instantiated with UTF-16 column weight and LSP line terminators; known findings **pinned** by `c22_lineindex` | proof of "exactly the two recorded deviations" | columns count scalar values; lone `\\r` is no line break — **open known findings** (§7) |
| C25 | yes, narrow | labels `C25.*` in `c22_lineindex` + unchecked inventory of `token_at_offset` call sites | proof of the offset-in-document lemma | (the unguarded call sites are made safe by the C22 repair) |
| C26 | yes, partial | Verus `c26_semantic_tokens` (legend indices, modifier bits, delta encoding, multi-line split) | proof for the semantic-token sentence | — |
| C31 | yes, narrow | Verus `c31_path` (slice of `pre_process_path`); bounded search `replay/c31` over generated path strings and config files (thorough tier / when undecided) | proof of the path-expansion clause; flatten / Lua loader only by the bounded search | `&path[2..]` after `~` panicked / ate a character (fixed `0e27e3d`); a key that is both a value and a prefix panicked the loader (fixed `05cb49f`) |
| C36 | yes, partial | Verus `c36_exit` (slices of `output_result`, `DiagnosticSeverityFilter::allows`) | proof for the exit-status / filter sentences | — |
| C38 | yes, static half | rustc trait solver on a workspace copy with every `unsafe impl Send/Sync` stripped (`vc/c38.py`) | proof (type level) | `LuaAstPtr<T>` was `Send + Sync` only by `unsafe impl` (fixed `712304c`) |
| C03–C08, C11–C18, C24, C27–C30, C32–C35, C37, C39–C41 | n/a | — | — | see §6 |

14 properties are claimed (several at a stated reduced scope), 27 are `not_applicable` (§6).
'''

S7 = '''## 7. Genuine defects found, and what was done

Every entry below was first reported by a check as a failed obligation on the pinned tree, then shown on the real code
(Kani counterexample replayed, replay driver, or demonstration test), then repaired by one minimal `fix:` commit in
`/repo` with the unedited baseline (2010 tests) green. `known_findings.json` carries a `fixed:` record for each; a fixed
record suppresses nothing.

| property | obligation that failed | witness on the real code | repair |
|----------|------------------------|--------------------------|--------|
| C19 | `DiagnosticAction::is_match … [C19.match.only-inside-scope]` | Kani: region `[u32::MAX,u32::MAX)` / diagnostic `[u32::MAX,u32::MAX)` → `is_match == true` (also `[0,10)` vs `[10,12)`), replayed by `kani/c19` `replay` | `65c9cea` non-empty overlap, or containment for zero-width diagnostics |
| C38 | rustc goals `LuaCompilation / DbIndex / EmmyLuaAnalysis: Send + Sync` with `unsafe impl`s stripped | rustc E0277: `NonNull<rowan::cursor::NodeData>` inside `LuaAstPtr<T>`'s `PhantomData<T>` | `712304c` `PhantomData<fn() -> T>`, both `unsafe impl`s removed |
| C09 | `LuaMemberIndex::clear … [C09.LuaMemberIndex.clear-is-fresh]` | `replay/c09`: after `clear_index()` 3 of 3 old member ids still have a current owner | `01e21e6` clear `member_current_owner` too |
| C22 | `LineIndex::get_offset … [C22.offset.in-line-clamped]` (and the `get_col_offset_at_line` twin) | `"ab\\ncd"`, line 1, col 9 → 12 > 5; non-ASCII path walks over the newline | `c8fa1d8` clamp both paths to the end of the line's content |
| C01 | `Reader::bump/is_eof … [C01.reader.*]` | `replay/c01`: `"a\\0b"` → tree text `"a"` | `69919c1` end of input decided by position |
| C01 | `LuaGreenNodeBuilder::finish … [C01.finish.emits-all-tokens]` | `"x--region\\n;"`, `"{;do"`, `"{,end"` lose their suffix (7746 of 400 000 soup inputs) | `1343370` wrap all top-level elements in the `Chunk` root |
| C31 | slicing precondition of `&path[2..]` in the `~` branch | `replay/c31`: `workspaceRoots ["~"]`, `["~é"]` panic in `Emmyrc::pre_process_emmyrc`; `"~foo"` became `home/oo` | `0e27e3d` skip `~` and separators |
| C31 | `bounded-search:replay/c31` (thorough tier; the flatten code is outside the functions under contract) | `.luarc.json` `{"runtime.version": "Lua5.1", "runtime": 3}` merged after a valid `.emmyrc.json`: `load_configs` panics (`IndexMut` on a non-object / `expect("always an object")`, hash-order dependent) | `05cb49f` the nested form wins, the scalar is dropped |
| C10 | `Vfs::set_file_content / file_id … [C10.vfs.submitted-uri-resolves-to-its-id]` | `replay/c10_vfs`: `untitled:Untitled-1` opened, changed, closed: two analysed copies remain, `remove_file_by_uri` returns `None` | `455b3ae` one id per pathless uri (kept in `remote_file_id_map`), `get_file_id` resolves it, `remove_file` releases it |

**Open known findings (recorded, not repaired)** — C23, both pinned by unit `c22_lineindex` (which proves that the code
does exactly what the finding says, so that any *other* deviation is still reported):

* columns are counted in Unicode scalar values, not UTF-16 code units: `LineIndex::get_line_col("😀x", 4) == (0,1)`,
  the LSP says `(0,2)` (`replay/c23`);
* a lone `\\r` is not a line terminator and the `\\r` of `\\r\\n` counts as a character: `LineIndex::parse("a\\rb")
  .line_count() == 1`.

Why not repaired: the repair changes the meaning of every `LineIndex`/`LuaDocument` column and line number for all
internal consumers (formatter, doc generator, checker output); the right place is the LSP boundary, which is not a small
patch.

Seen while proving, outside every claimed contract, therefore neither findings nor repaired: `LuaParser::bump()` called
again at end of input indexes `tokens[len]` (every grammar call site is guarded); `mark_level` drifts upward on empty
nodes; the module-tree leak of `LuaModuleIndex::remove`; the flat-key collision panic of `.luarc.json` loading;
`Vfs::remove_file` leaves `remote_file_id_map` entries.
'''

S10 = '''## 10. Changes to the machinery (log)

* **Unit description format.** `units/<unit>/unit.py` (a Python dict, can be *generated* from the repository's struct
  definitions — `c09_clear`, `c23_encoding`) + `template.rs` with `//@@ <key>` placeholders and `//@@include`, instead of
  `unit.toml` + `prelude.rs` + `overlay.rs`. The overlay keys are those of §3.3 (`ret`, `requires`, `ensures`,
  `decreases`, `loops` by ordinal, `iter_names`, `proof` anchors, `body_first`, `attrs`).
* **text-size shim** is hand-transcribed (`units/common/textsize.rs`) instead of extracted from the vendored crate;
  it is cross-checked against the real crate by the loop-free Kani harness `kani/shims` (thorough tier of C19 / C22).
* **Statement slices** (`kind: 'slice'`) and **dual extraction** (the same real fn extracted a second time and turned into
  a `spec fn` by a named rule, the exec copy proving `r == sp_f(..)`; used by `c26_semantic_tokens`) were added.
* **Closure contract overlay**: Verus knows nothing about an un-annotated closure; named rules add parameter types and an
  `ensures` to a closure while keeping its body verbatim (Verus checks the ensures against the body).
* **Optional rules** (`{'optional': True}`) and the structural `is-some-and` / `letchain-nest` rules make units tolerant
  to harmless rewrites; a construct no rule covers still yields *undecided*.
* **Undecided is never an alarm, but a replayed refutation is always sound**: when a property's units are undecided the
  check runs the property's bounded witness search on the real code (`replay/c01`, `replay/c22`); a hit is reported as a
  VIOLATION with the concrete input, otherwise the check stays undecided (exit 2). The search decides nothing else.
* **C38** is stricter than planned: instead of only naming the field types (which would still consult `unsafe impl`s on
  inner types), every `unsafe impl Send/Sync` of the two crates is stripped from a workspace copy before rustc is asked.
  This exposed `LuaAstPtr`.
* **C09** got a second unit (`c09_reindex`) after a seeded change showed that `reindex` itself can pick the wrong file
  list; **C19/C20** include `DiagnosticIndex::remove` (from `c10_remove`) after seeded changes showed that stale per-file
  enable/disable sets survive re-indexing otherwise.
* **Cross-unit assumptions were discharged by new units**: `c22_vfs` proves the `LuaDocument` invariant that `c22_lineindex`
  assumed (text paired with the LineIndex parsed from it) and exposed the pathless-uri leak; `c20_inputs` proves that
  `LuaDiagnosticConfig::new` builds exactly the configured sets (previously assumed by `c20_config`) and the code-list
  handling of the suppression comments; `c01_compose` includes the interface predicate files of the three C01 units (the same
  text) and proves `theorem_lossless`, so the implications between the links are machine-checked.
* **Thorough tier** additionally runs every bounded witness search even when all obligations are discharged; results are
  listed under `coverage.bounded`, never counted as discharged. This is how the flatten-collision panic (C31) was found.
* **C23** became a claimed check with *pinned* known findings instead of a second contract set inside the C22 unit.
* **False alarms found and corrected in the machinery:** (1) the first precondition written for `translate_range`
  quantified over *all* documents and was nearly contradictory — replaced by a precondition on the document of that file
  (the vacuity guard is on); (2) committed evidence twice came from a run on a deliberately broken tree (C01 on a reverted tree; C36 with
  `discharged 56 != obligations 57`, left behind by `tools/seed.py detect C36_3` — the check itself was right both
  times, the record was of another tree). Now structural: `tools/seed.py detect` runs the checks with
  `VERIF_EVIDENCE_DIR=build/seeded_evidence` (honoured by `vc/evidence.py`), so `evidence/` is only ever written by runs
  on the tree as it is, and `tools/run_all.sh` regenerates and validates every evidence file (schema, `obligations ==
  discharged`, `violations == 0`) on the clean tree before a commit; (3) vacuity-guard noise and
  compile errors of an assembled unit are classified *undecided*, never as failed obligations.
* **Kani for container code** stays dropped (compiler ICE on hashbrown/serde_json, §2.6). No bounded stand-in is
  counted as proved anywhere; the only bounded artefacts are the witness searches, labelled as such.
* Proof engineering of the larger units (`c22_lineindex`, `c01_*`, `c26_semantic_tokens`) was done by sub-agents
  working in private worktrees under the rules of `units/README.md`; their contracts were reviewed against the property
  statements and every unit is re-run against `/repo` by the checks.
'''


def seeded_table():
    rows = []
    for mp in sorted(glob.glob(os.path.join(VERIF, 'seeded', '*', 'meta.json'))):
        m = json.load(open(mp))
        name = m.get('name', os.path.basename(os.path.dirname(mp)))
        det = m.get('detection', {})
        conf = m.get('confirmation', {})
        verdicts = []
        for p, d in det.items():
            obl = next((l.strip().replace('obligation: ', '') for l in d.get('lines', []) if 'obligation' in l), '')
            verdicts.append('%s: %s%s' % (p, d.get('verdict', '?'), (' — `%s`' % obl[:110]) if obl and d.get('rc') == 1 else ''))
        rows.append('| %s | %s | %s | %s | %s |' % (
            name, (m.get('summary', '') or '')[:230].replace('|', '/').replace('\n', ' '),
            (m.get('needs', '') or '')[:170].replace('|', '/').replace('\n', ' '),
            'yes' if conf.get('confirmed') else ('no: ' + str({k: v for k, v in conf.items() if k in ('applies', 'existing_tests_ok', 'demo_with_patch', 'demo_without_patch')}) if conf else 'pending'),
            '<br>'.join(verdicts) or 'not run'))
    head = '''## 11. Seeded changes: which check catches which change

Changes written by fresh sub-agents that saw only a property's text and a private worktree (`seeded/<name>/`:
`patch.diff`, `demo.rs`, `meta.json`). "confirmed" = re-checked here in a scratch worktree: the patch applies, the touched
crates' existing tests pass, the demonstration fails with the patch and passes without. Detection = `./check <prop>` with the
patch applied to `/repo` (then undone). MISSED entries are in code the property's check declares as not covered.

| seeded | change | needs | confirmed | detection |
|--------|--------|-------|-----------|-----------|
'''
    return head + '\n'.join(rows) + '\n'


def main():
    p = os.path.join(VERIF, 'DESIGN.md')
    s = open(p).read()

    def replace_section(s, num, new):
        m = re.search(r'^## %d\. .*?(?=^## \d+\. |\Z)' % num, s, flags=re.S | re.M)
        sep = '\n---------------------------------------------------------------------------------------------------\n\n'
        if m:
            return s[:m.start()] + new.rstrip() + '\n' + sep + s[m.end():].lstrip('-\n')
        return s.rstrip() + '\n' + sep + new
    s = replace_section(s, 0, S0)
    s = replace_section(s, 7, S7)
    s = replace_section(s, 10, S10)
    s = replace_section(s, 11, seeded_table())
    s = re.sub(r'(\n-{90,}\n){2,}', '\n---------------------------------------------------------------------------------------------------\n', s)
    open(p, 'w').write(s)
    print('DESIGN.md sections 0, 7, 10, 11 rewritten')


if __name__ == '__main__':
    main()
