#!/bin/bash
# run every claimed check (quick tier by default) on /repo as it is, then validate MANIFEST + evidence files
cd "$(dirname "$0")/.."
tier=${1:-quick}
fail=0
for p in $(python3 -c "import props; print(' '.join(sorted(props.PROPS)))"); do
  out=$(./check $p --tier $tier 2>&1); rc=$?
  echo "$p rc=$rc $(echo "$out" | tail -1 | cut -c1-160)"
  [ $rc -ne 0 ] && fail=1
done
python3 tools/gen_manifest.py
python3-vt - <<'PY'
import json, jsonschema, glob
ms = json.load(open('/root/.vp/MANIFEST.schema.json')); es = json.load(open('/root/.vp/EVIDENCE.schema.json'))
m = json.load(open('MANIFEST.json')); jsonschema.validate(m, ms)
bad = 0
for c in m['checks']:
    e = json.load(open(c['evidence_file'])); jsonschema.validate(e, es)
    cov = e['coverage']
    if e['level'] == 'proof' and cov.get('obligations') != cov.get('discharged'):
        print('EVIDENCE MISMATCH', c['property_id'], cov.get('obligations'), cov.get('discharged')); bad = 1
    if e.get('violations'): print('EVIDENCE HAS VIOLATIONS', c['property_id']); bad = 1
print('manifest + %d evidence files valid' % len(m['checks']) if not bad else 'PROBLEMS')
PY
exit $fail
