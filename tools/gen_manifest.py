#!/usr/bin/env python3
"""Regenerate /verif/MANIFEST.json from props.py (claimed checks) and na.py (not_applicable reasons)."""
import importlib.util
import json
import os
import sys

VERIF = os.path.dirname(os.path.dirname(os.path.abspath(__file__)))


def load(name):
    spec = importlib.util.spec_from_file_location(name, os.path.join(VERIF, name + '.py'))
    mod = importlib.util.module_from_spec(spec)
    spec.loader.exec_module(mod)
    return mod


def main():
    props = load('props').PROPS
    na = load('na').NOT_APPLICABLE
    ids = [json.loads(l)['id'] for l in open(os.path.join(VERIF, 'properties.jsonl'))]
    checks = []
    for pid in ids:
        if pid not in props: continue
        p = props[pid]
        note = p['level_note']
        qs = sorted({r['driver'] for r in p.get('replays', []) if r.get('quick')})
        ts = sorted({r['driver'] for r in p.get('replays', []) if (r.get('thorough') or r.get('on_undecided')) and not r.get('quick')})
        if qs and 'BOUNDED search' not in note:
            note += '; BOUNDED stand-in, never counted as proved: both tiers also run the witness search(es) %s on the real code after the proofs (listed under coverage.bounded in the evidence; a hit is reported with the concrete input)' % ', '.join(qs)
        if ts:
            note += '; thorough tier (and either tier when a unit is undecided): bounded search(es) %s' % ', '.join(ts)
        checks.append({
            'property_id': pid,
            'quick_cmd': './check %s --tier quick' % pid,
            'thorough_cmd': './check %s --tier thorough' % pid,
            'evidence_file': 'evidence/%s.json' % pid,
            'replay_cmd_template': './check %s --replay {path}' % pid,
            'engine': 'contracts',
            'level_claimed': {'category': p.get('level', 'proof'), 'text': p['level_text'], 'design_ref': p.get('design_ref', 'DESIGN.md §5.' + pid)},
            'level_note': note,
            'technique': p.get('technique', 'contract-based deductive verification (Verus) of functions extracted from /repo on every run'),
        })
    missing = [i for i in ids if i not in props and i not in na]
    if missing:
        print('properties neither claimed nor not_applicable:', missing); sys.exit(1)
    both = [i for i in ids if i in props and i in na]
    if both:
        print('properties both claimed and not_applicable:', both); sys.exit(1)
    man = {
        'version': 1,
        'setup_cmd': './check --selftest',
        'hooks': {
            'guard': 'emmyluals_emmylua_analyzer_rust_verif',
            'enable': 'RUSTFLAGS="--cfg emmyluals_emmylua_analyzer_rust_verif" (set in replay/c25/.cargo/config.toml and replay/c26/.cargo/config.toml). One hook module, add-only: emmylua_ls::handlers::verif_hooks re-exports handler entry points (position-taking requests; range formatting, color presentation, inlay hints, didOpen/didChange; selection range, document symbols, folding ranges, semantic tokens, server_capabilities; didClose / didSave and a wrapper of the private apply_workspace_reload) and the server context types for the bounded searches replay/c25, replay/c26 and replay/c29; the Verus units read source text and need no hook; the other replay/Kani crates use public API',
            'baseline_off_cmd': 'cd /repo && cargo nextest run --workspace --no-fail-fast --test-threads 8 --offline || cargo test --workspace --no-fail-fast --offline',
            'source_commits': ['16c6446', 'baba425', 'd87e480', 'c1672bc'],
            'add_only': True,
        },
        'engines': [
            {'name': 'contracts', 'path': 'check', 'serves_properties': [c['property_id'] for c in checks],
             'kind_free_text': 'Verus (Z3) on real functions extracted mechanically from /repo on every run + contract overlay; Kani/CBMC on the real crates for loop-free finite-domain functions; rustc trait solver for auto-trait obligations'},
        ],
        'checks': checks,
        'not_applicable': [{'property_id': i, 'reason': na[i]} for i in ids if i in na],
        'notes': 'exit 0 = all obligations discharged; exit 1 = a named obligation failed (VIOLATION line); exit 2 = undecided (lost anchor, unsupported construct, rlimit) and never an alarm. See DESIGN.md.',
    }
    with open(os.path.join(VERIF, 'MANIFEST.json'), 'w') as f:
        json.dump(man, f, indent=1, ensure_ascii=False)
    print('MANIFEST.json: %d checks, %d not_applicable' % (len(checks), len(man['not_applicable'])))


if __name__ == '__main__':
    main()
