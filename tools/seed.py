#!/usr/bin/env python3
"""Seeded-change bookkeeping.

  seed.py import <src_dir> <name>     copy patch.diff / demo.rs / meta.json of a delivered change to seeded/<name>/
  seed.py confirm <name>              in the scratch worktree /tmp/vp_confirm: patch applies and compiles, the touched
                                      crates' existing tests pass, the demo FAILS with the patch and PASSES without it
  seed.py detect <name> [props...]    apply the patch to /repo, run ./check <prop> (default: meta.property), undo;
                                      records rc/stdout in seeded/<name>/meta.json under "detection"
"""
import json
import os
import re
import shutil
import subprocess
import sys

VERIF = os.path.dirname(os.path.dirname(os.path.abspath(__file__)))
REPO = '/repo'
WT = '/tmp/vp_confirm'


def sh(cmd, cwd=None, env=None, timeout=3600):
    e = dict(os.environ); e['CARGO_NET_OFFLINE'] = 'true'
    if env: e.update(env)
    p = subprocess.run(cmd, shell=True, cwd=cwd, env=e, capture_output=True, text=True, timeout=timeout)
    return p.returncode, p.stdout + p.stderr


def meta_path(name): return os.path.join(VERIF, 'seeded', name, 'meta.json')


def load(name): return json.load(open(meta_path(name)))


def save(name, m): json.dump(m, open(meta_path(name), 'w'), indent=1, ensure_ascii=False)


def touched_crates(patch):
    return sorted(set(re.findall(r'^\+\+\+ b/crates/([\w-]+)/', open(patch).read(), flags=re.M)))


def cmd_import(src, name):
    dst = os.path.join(VERIF, 'seeded', name)
    os.makedirs(dst, exist_ok=True)
    for f in ('patch.diff', 'demo.rs', 'meta.json'):
        shutil.copy(os.path.join(src, f), os.path.join(dst, f))
    m = load(name)
    m['name'] = name
    save(name, m)
    print('imported', name)


def cmd_confirm(name):
    d = os.path.join(VERIF, 'seeded', name)
    m = load(name)
    if not os.path.exists(WT):
        rc, out = sh('git -C %s worktree add -q %s HEAD' % (REPO, WT))
        if rc: print(out); return 2
    sh('git checkout -q --detach $(git -C %s rev-parse HEAD) && git checkout -- . && git clean -fdq -e target' % REPO, cwd=WT)
    env = {'CARGO_TARGET_DIR': WT + '/target'}
    res = {}
    rc, out = sh('git apply --check %s/patch.diff && git apply %s/patch.diff' % (d, d), cwd=WT)
    res['applies'] = rc == 0
    if rc: res['apply_output'] = out[-500:]
    crates = touched_crates(os.path.join(d, 'patch.diff'))
    res['crates'] = crates
    demo_loc = m.get('demo_location', '')
    mm = re.search(r'crates/\S+?\.rs', demo_loc)
    demo_loc = mm.group(0) if mm else demo_loc
    demo_crate = re.search(r'crates/([\w-]+)/', demo_loc)
    demo_crate = demo_crate.group(1) if demo_crate else (crates[0] if crates else None)
    # existing tests of the touched crates, mutation applied, demo absent
    ok = True; summ = []
    for c in crates:
        rc, out = sh('cargo test -p %s --offline -- --test-threads=6 2>&1 | grep -E "^test result|^test .* FAILED|^error(\\[|:)" ' % c, cwd=WT, env=env, timeout=7200)
        passed = sum(int(x) for x in re.findall(r'(\d+) passed', out))
        failed_names = re.findall(r'^test (\S+) \.\.\. FAILED', out, flags=re.M)
        build_err = re.findall(r'^error(\[|:)', out, flags=re.M) and not failed_names and 'test result' not in out
        still = []
        for t in failed_names:
            # time-bounded tests (ntest timeouts, micro-benchmarks) flake when the machine is loaded: re-run alone
            rc2, out2 = sh('cargo test -p %s --offline %s -- --exact --test-threads=1 2>&1 | grep -E "^test result"' % (c, t), cwd=WT, env=env, timeout=3600)
            if not re.search(r'test result: ok\. [1-9]\d* passed', out2): still.append(t)
        summ.append('%s: %d passed, %d failed in the parallel run, %d still failing when re-run alone %s' % (c, passed, len(failed_names), len(still), still[:3]))
        if still or build_err: ok = False
    res['existing_tests_with_patch'] = summ
    res['existing_tests_ok'] = ok

    def run_demo():
        is_integration = '/tests/' in demo_loc
        target = os.path.join(WT, demo_loc)
        if is_integration:
            os.makedirs(os.path.dirname(target), exist_ok=True)
            shutil.copy(os.path.join(d, 'demo.rs'), target)
            tname = os.path.splitext(os.path.basename(target))[0]
            rc, out = sh('cargo test -p %s --offline --test %s 2>&1 | tail -40' % (demo_crate, tname), cwd=WT, env=env, timeout=7200)
            os.remove(target)
        else:
            # inline module appended to a source file
            orig = open(target).read()
            open(target, 'w').write(orig + '\n' + open(os.path.join(d, 'demo.rs')).read())
            filt = m.get('demo_filter', 'demo')
            rc, out = sh('cargo test -p %s --offline --lib %s 2>&1 | tail -40' % (demo_crate, filt), cwd=WT, env=env, timeout=7200)
            open(target, 'w').write(orig)
        ran = re.search(r'(\d+) passed; (\d+) failed', out)
        return ran, out
    ran, out = run_demo()
    res['demo_with_patch'] = 'FAILS' if (ran and int(ran.group(2)) > 0) else ('passes' if ran else 'NO TEST RESULT')
    res['demo_with_patch_tail'] = out[-600:]
    sh('git checkout -- . && git clean -fdq -e target', cwd=WT)
    ran, out = run_demo()
    res['demo_without_patch'] = 'passes' if (ran and int(ran.group(2)) == 0 and int(ran.group(1)) > 0) else 'DOES NOT PASS'
    res['demo_without_patch_tail'] = out[-300:]
    sh('git checkout -- . && git clean -fdq -e target', cwd=WT)
    res['confirmed'] = bool(res['applies'] and ok and res['demo_with_patch'] == 'FAILS' and res['demo_without_patch'] == 'passes')
    m['confirmation'] = res
    save(name, m)
    print(name, 'confirmed' if res['confirmed'] else 'NOT CONFIRMED', json.dumps({k: v for k, v in res.items() if 'tail' not in k}))
    return 0 if res['confirmed'] else 1


DET = '/tmp/vp_detect'


def cmd_detect(name, props):
    """runs the checks against a scratch worktree of /repo's HEAD with the patch applied (VERIF_REPO / VERIF_BUILD /
    VERIF_EVIDENCE_DIR point away from /repo, /verif/build and /verif/evidence), so neither /repo nor the committed
    evidence is ever touched by a seeded-change run"""
    d = os.path.join(VERIF, 'seeded', name)
    m = load(name)
    tier = 'quick'
    if props and props[0] in ('quick', 'thorough'):
        tier = props[0]; props = props[1:]
    props = props or [m['property']]
    if not os.path.exists(DET):
        rc, out = sh('git -C %s worktree add -q --detach %s HEAD' % (REPO, DET))
        if rc: print(out); return 2
    sh('git checkout -q --detach $(git -C %s rev-parse HEAD) && git checkout -- . && git clean -fdq' % REPO, cwd=DET)
    rc, out = sh('git apply %s/patch.diff' % d, cwd=DET)
    if rc:
        print('patch does not apply to HEAD of /repo:', out[-300:]); return 2
    det = m.get('detection', {})
    bdir = os.path.join(VERIF, 'build', 'seeded_build')
    try:
        for p in props:
            rc, out = sh('./check %s --tier %s' % (p, tier), cwd=VERIF, timeout=7200,
                         env={'VERIF_EVIDENCE_DIR': os.path.join(VERIF, 'build', 'seeded_evidence'),
                              'VERIF_REPO': DET, 'VERIF_BUILD': bdir, 'VERIF_REPLAYS_DIR': os.path.join(bdir, 'replays')})
            lines = [l for l in out.split('\n') if l.startswith(('VIOLATION', 'UNDECIDED', 'OK', 'KNOWN-FINDING', '  obligation'))]
            key = p if tier == 'quick' else p + ' (thorough)'
            det[key] = {'rc': rc, 'verdict': {0: 'MISSED (exit 0)', 1: 'DETECTED', 2: 'UNDECIDED'}.get(rc, str(rc)), 'lines': lines[:12]}
            print(name, key, det[key]['verdict'])
            for l in lines[:6]: print('   ', l[:220])
    finally:
        sh('git checkout -- . && git clean -fdq', cwd=DET)
    m['detection'] = det
    save(name, m)
    return 0


if __name__ == '__main__':
    a = sys.argv[1:]
    if a[0] == 'import': sys.exit(cmd_import(a[1], a[2]))
    if a[0] == 'confirm': sys.exit(cmd_confirm(a[1]))
    if a[0] == 'detect': sys.exit(cmd_detect(a[1], a[2:]))
