#!/usr/bin/env python3
"""Pretty-print functions from a Verus `--log vir` dump (crate.vir) as pseudo-Rust.
usage: virpp.py crate.vir <path-substring> [...]
Used only as a reading aid for vstd specs whose source is not installed."""
import sys


def parse(s):
    i, n = 0, len(s)
    stack = [[]]
    while i < n:
        c = s[i]
        if c.isspace(): i += 1; continue
        if c == '(':
            stack.append([]); i += 1; continue
        if c == ')':
            l = stack.pop(); stack[-1].append(l); i += 1; continue
        if c == '"':
            j = i + 1
            while s[j] != '"':
                j += 2 if s[j] == '\\' else 1
            stack[-1].append(s[i:j + 1]); i = j + 1; continue
        j = i
        while j < n and not s[j].isspace() and s[j] not in '()':
            j += 1
        stack[-1].append(s[i:j]); i = j
    return stack[0]


def kw(l, key, default=None):
    for i, x in enumerate(l):
        if x == key and i + 1 < len(l): return l[i + 1]
    return default


def typ(t):
    if not isinstance(t, list): return str(t)
    if t[:1] == ['Typ']:
        if t[1] == 'Int':
            r = t[2]
            if r[1] in ('U', 'I'): return ('u' if r[1] == 'U' else 'i') + r[2]
            return {'Int': 'int', 'Nat': 'nat', 'USize': 'usize', 'ISize': 'isize', 'Char': 'char'}.get(r[1], str(r))
        if t[1] == 'Bool': return 'bool'
        if t[1] == 'Datatype':
            name = t[2][2].split('::')[-1] if t[2][1] == 'Path' else str(t[2])
            if t[2][1] == 'Tuple': name = 'Tuple'
            args = ', '.join(typ(a) for a in t[3])
            return name + ('<%s>' % args if args else '')
        if t[1] == 'TypParam': return str(t[2])
        if t[1] in ('Decorate',): return typ(t[-1])
        if t[1] == 'Primitive': return str(t[2]) + '<' + ', '.join(typ(a) for a in t[3]) + '>'
        if t[1] == 'SpecFn' or t[1] == 'FnDef': return 'fn'
        return ' '.join(str(x) if not isinstance(x, list) else typ(x) for x in t[1:])
    return str(t)


BIN = {'Eq': '==', 'Ne': '!=', 'Lt': '<', 'Le': '<=', 'Gt': '>', 'Ge': '>=', 'Add': '+', 'Sub': '-', 'Mul': '*',
       'EuclideanDiv': '/', 'EuclideanMod': '%', 'And': '&&', 'Or': '||', 'Implies': '==>', 'BitAnd': '&', 'BitOr': '|',
       'BitXor': '^', 'Shr': '>>', 'Shl': '<<'}


def unwrap(e):
    while isinstance(e, list) and e and e[0] in ('@', '@@'):
        e = e[2]
    if isinstance(e, list) and e and e[0] == '>':
        e = e[1:]
    return e


def ex(e):
    e = unwrap(e)
    if not isinstance(e, list): return str(e)
    if not e: return '()'
    h = e[0]
    if h == 'Const':
        c = e[1]
        return str(c[-1]) if isinstance(c, list) else str(c)
    if h in ('ReadPlace',): return ex(e[1])
    if h == 'Place':
        if e[1] == 'Local': return vname(e[2])
        if e[1] == 'Field':
            return ex(e[-1]) + '.' + str(kw(e[2], ':field', '?')) if isinstance(e[2], list) else ' '.join(map(ex, e[1:]))
        return 'place(' + ' '.join(ex(x) for x in e[1:]) + ')'
    if h in ('Var', 'VarLoc', 'VarAt'): return vname(e[1])
    if h == 'Call':
        tgt = kw(e, ':target')
        args = kw(e, ':args', [])
        name = '?'
        if isinstance(tgt, list):
            if tgt[1] == 'Fun':
                name = tgt[3][2].replace('vstd::', '')
                targs = tgt[4] if len(tgt) > 4 else []
            else:
                name = ' '.join(str(x) if not isinstance(x, list) else ex(x) for x in tgt[1:])
        a = [ex(x) for x in args]
        short = name.split('::')[-1]
        if short == 'index' and len(a) == 2: return '%s[%s]' % (a[0], a[1])
        if short == 'len' and len(a) == 1: return a[0] + '.len()'
        if short in ('subrange', 'push', 'add', 'first', 'last', 'drop_first', 'drop_last', 'spec_index', 'skip', 'take') and a:
            return '%s.%s(%s)' % (a[0], short, ', '.join(a[1:]))
        return '%s(%s)' % (name, ', '.join(a))
    if h == 'Binary':
        op = e[1]
        o = op[1] if op[1] != 'Inequality' and op[1] != 'Arith' and op[1] != 'Bitwise' else op[2][1] if isinstance(op[2], list) else op[2]
        if op[1] == 'Inequality': o = op[2][1]
        if op[1] == 'Arith': o = op[2][1]
        if op[1] == 'Bitwise': o = op[2][1] if isinstance(op[2], list) else op[2]
        return '(%s %s %s)' % (ex(e[2]), BIN.get(o, str(o)), ex(e[3]))
    if h == 'Multi':
        ops = e[1][1][1:] if isinstance(e[1][1], list) else []
        args = e[2] if isinstance(e[2], list) else []
        names = []
        for o in ops:
            names.append(BIN.get(o[2][1], '?') if isinstance(o, list) and len(o) > 2 and isinstance(o[2], list) else '?')
        a = [ex(x) for x in args]
        out = a[0] if a else ''
        for i in range(1, len(a)):
            out += ' %s %s' % (names[i - 1] if i - 1 < len(names) else '?', a[i])
        return '(' + out + ')'
    if h == 'Logical':
        return '(%s %s %s)' % (ex(e[2]), BIN.get(e[1][1], e[1][1]), ex(e[3]))
    if h == 'BinaryOpr':
        return '(%s =~= %s)' % (ex(e[2]), ex(e[3]))
    if h == 'Unary':
        op = e[1]
        o = op[1] if isinstance(op, list) and len(op) > 1 else op
        if o == 'Not': return '!' + ex(e[2])
        if o == 'Clip' or o == 'Trigger' or o == 'CoerceMode' or o == 'MustBeFinalized' or o == 'InferSpecForLoopIter':
            return ex(e[2]) if o != 'Clip' else '(%s as %s)' % (ex(e[2]), typ(['Typ', 'Int', op[3]]) if len(op) > 3 else '_')
        return '%s(%s)' % (o, ex(e[2]))
    if h == 'UnaryOpr':
        op = e[1]
        if isinstance(op, list) and len(op) > 1:
            if op[1] == 'Box' or op[1] == 'Unbox': return ex(e[2])
            if op[1] == 'Field':
                return ex(e[2]) + '.' + str(kw(op[2], ':field', op[2]))
            if op[1] == 'IsVariant':
                return '%s is %s' % (ex(e[2]), kw(op, ':variant', '?'))
            if op[1] == 'HasType': return 'true'
        return 'opr%s(%s)' % (op[1] if isinstance(op, list) else op, ex(e[2]))
    if h == 'If':
        s = 'if %s { %s }' % (ex(e[1]), ex(e[2]))
        if len(e) > 3 and e[3] != 'None': s += ' else { %s }' % ex(e[3])
        return s
    if h == 'Block':
        stmts = e[1]
        out = []
        for st in stmts:
            st = unwrap(st)
            out.append(stm(st))
        tail = ex(e[2]) if len(e) > 2 and e[2] != 'None' else ''
        return '; '.join(out + [tail]) if out else tail
    if h == 'Quant':
        q = e[1]
        qk = q[1] if isinstance(q, list) and q[0] == 'Quant' else q
        binders = e[2]
        bs = ', '.join('%s: %s' % (vname(kw(b, ':name', b[1] if len(b) > 1 else '?')), typ(kw(b, ':a', ''))) for b in [unwrap(b) if isinstance(b, list) else b for b in binders])
        return '(%s|%s| %s)' % ('forall' if 'Forall' in str(qk) else 'exists', bs, ex(e[3]))
    if h == 'Ctor':
        fields = e[3] if len(e) > 3 else []
        fs = []
        for f in fields:
            f2 = unwrap(f)
            if isinstance(f2, list): fs.append('%s: %s' % (kw(f2, ':name', '?'), ex(kw(f2, ':a', '?'))))
        return '%s::%s{%s}' % (typ(['Typ', 'Datatype', e[1], [], []]), e[2], ', '.join(fs))
    if h == 'Choose':
        return 'choose(...)'
    if h == 'WithTriggers': return ex(e[-1])
    if h == 'Match':
        return 'match %s { %s }' % (ex(e[1]), ' | '.join(ex(a) for a in e[2]))
    if h == 'Arm':
        return '%s => %s' % (ex(kw(e, ':pattern')), ex(kw(e, ':body')))
    if h == 'Header': return ''
    if h == 'Fuel': return 'reveal(%s)' % e[1]
    if h == 'AssertAssume' or h == 'Assert': return 'assert(%s)' % ex(e[-1])
    if h == 'Return': return 'return ' + ex(e[1])
    if h == 'ExtensionalEq' : return '(%s =~= %s)' % (ex(e[1]), ex(e[2]))
    return '%s(%s)' % (h, ' '.join(ex(x) if isinstance(x, list) else str(x) for x in e[1:]))


def stm(st):
    if isinstance(st, list) and st and st[0] == 'Stmt':
        st = st[1:]
    if isinstance(st, list) and st and st[0] == 'Decl':
        pat = kw(st, ':pattern'); init = kw(st, ':init')
        return 'let %s = %s' % (ex(pat), ex(init) if init != 'None' else '_')
    if isinstance(st, list) and st and st[0] == 'Expr':
        return ex(st[1])
    return ex(st)


def vname(v):
    if isinstance(v, list) and v and v[0] == 'VarIdent': return v[1].strip('"')
    return str(v)


def show(fn):
    name = kw(fn, ':name')[2]
    mode = kw(fn, ':mode')
    params = kw(fn, ':params', [])
    ps = []
    for p in params:
        p = unwrap(p)
        ps.append('%s: %s' % (vname(kw(p, ':name')), typ(kw(p, ':typ'))))
    ret = unwrap(kw(fn, ':ret'))
    rt = typ(kw(ret, ':typ')) if isinstance(ret, list) else ''
    print('%s fn %s(%s) -> %s' % (mode.lower(), name, ', '.join(ps), rt))
    op = kw(fn, ':opaqueness')
    if op and isinstance(op, list) and len(op) > 1 and op[1] == 'Opaque' and mode == 'Spec': print('    [opaque]')
    for r in kw(fn, ':require', []):
        print('    requires', ex(r))
    ens = kw(fn, ':ensure', [])
    if isinstance(ens, list):
        for grp in ens:
            if isinstance(grp, list):
                for e_ in grp:
                    print('    ensures', ex(e_))
    for d in kw(fn, ':decrease', []):
        print('    decreases', ex(d))
    body = kw(fn, ':body')
    if body and body != 'None' and mode == 'Spec':
        print('    {', ex(body), '}')
    print()


def main():
    src = open(sys.argv[1]).read()
    top = parse(src)
    pats = sys.argv[2:]
    def walk(l):
        for x in l:
            if isinstance(x, list):
                if len(x) >= 3 and x[0] == '@' and isinstance(x[2], list) and x[2][:1] == ['Function']:
                    fn = x[2]
                    name = kw(fn, ':name')[2]
                    if any(p in name for p in pats):
                        try: show(fn)
                        except Exception as e_: print('// failed to print', name, e_)
                else:
                    walk(x)
    walk(top)


if __name__ == '__main__':
    main()
