//! Replays a counterexample of the `is_match` contract on the real code.
//! args: a0 a1 d0 d1 kind_sel same_code is_disable ; exit 1 = the real code violates the contract
fn main() {
    let a: Vec<u64> = std::env::args().skip(1).map(|s| s.parse().expect("integer")).collect();
    if a.len() != 7 {
        eprintln!("usage: replay a0 a1 d0 d1 kind_sel same_code is_disable");
        std::process::exit(2);
    }
    let (a0, a1, d0, d1) = (a[0] as u32, a[1] as u32, a[2] as u32, a[3] as u32);
    if a0 > a1 || d0 > d1 {
        eprintln!("ranges must be ordered");
        std::process::exit(2);
    }
    let (r, expect) = vk_c19::run(a0, a1, d0, d1, a[4] as u8, a[5] != 0, a[6] != 0);
    println!(
        "region=[{a0},{a1}) diagnostic=[{d0},{d1}) kind={} same_code={} is_disable={} -> is_match={r}, C19 demands {expect}",
        ["Disable(code)", "Enable(code)", "DisableAll"][(a[4] % 3) as usize], a[5] != 0, a[6] != 0
    );
    std::process::exit(if r == expect { 0 } else { 1 });
}
