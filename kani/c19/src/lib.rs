//! Kani harness on the REAL `emmylua_code_analysis::DiagnosticAction::is_match` (C19).
//! Loop-free, all inputs symbolic over the full u32 domain => a complete proof, not a bounded one.
//! Used (a) in the thorough tier as a second back end for the `is_match` contract and (b) to obtain a
//! concrete counterexample when the Verus obligation fails.
use emmylua_code_analysis::{DiagnosticAction, DiagnosticActionKind, DiagnosticCode};
use rowan::{TextRange, TextSize};

/// C19: half-open ranges share a byte, or a zero-width diagnostic lies inside the region
pub fn covers(a0: u32, a1: u32, d0: u32, d1: u32) -> bool {
    let lo = a0.max(d0);
    let hi = a1.min(d1);
    if d0 < d1 { lo < hi } else { a0 <= d0 && d0 < a1 }
}

pub fn run(a0: u32, a1: u32, d0: u32, d1: u32, kind_sel: u8, same_code: bool, is_disable: bool) -> (bool, bool) {
    let c1 = DiagnosticCode::SyntaxError;
    let c2 = DiagnosticCode::UndefinedGlobal;
    let listed = c1;
    let asked = if same_code { c1 } else { c2 };
    let kind = match kind_sel % 3 {
        0 => DiagnosticActionKind::Disable(listed),
        1 => DiagnosticActionKind::Enable(listed),
        _ => DiagnosticActionKind::DisableAll,
    };
    let kind_ok = match kind_sel % 3 {
        0 => is_disable && same_code,
        1 => !is_disable && same_code,
        _ => is_disable,
    };
    let action = DiagnosticAction::new(TextRange::new(TextSize::from(a0), TextSize::from(a1)), kind);
    let d = TextRange::new(TextSize::from(d0), TextSize::from(d1));
    let r = action.is_match(is_disable, &d, &asked);
    (r, covers(a0, a1, d0, d1) && kind_ok)
}

#[cfg(kani)]
#[kani::proof]
fn is_match_contract() {
    let a0: u32 = kani::any();
    let a1: u32 = kani::any();
    let d0: u32 = kani::any();
    let d1: u32 = kani::any();
    kani::assume(a0 <= a1 && d0 <= d1);
    let (r, expect) = run(a0, a1, d0, d1, kani::any(), kani::any(), kani::any());
    assert!(r == expect, "C19.is_match: result differs from covers && kind_matches");
}

/// vacuity guard: the assumption above is satisfiable and both outcomes are reachable
#[cfg(kani)]
#[kani::proof]
fn is_match_reachable() {
    let a0: u32 = kani::any();
    let a1: u32 = kani::any();
    let d0: u32 = kani::any();
    let d1: u32 = kani::any();
    kani::assume(a0 <= a1 && d0 <= d1);
    let (r, _) = run(a0, a1, d0, d1, kani::any(), kani::any(), kani::any());
    kani::cover!(r, "a match is reachable");
    kani::cover!(!r, "a non-match is reachable");
}
