//! Cross-check of the hand-transcribed text-size shim (units/common/textsize.rs) against the REAL crate
//! (text-size 1.1.1 re-exported by rowan), loop-free over the full u32 domain => complete.
//! Every `ensures` formula of the shim is restated here as a Rust expression and compared with what the
//! real operation returns.
#![allow(unused)]
use rowan::{TextRange, TextSize};

#[cfg(kani)]
mod proofs {
    use super::*;

    fn range(a: u32, b: u32) -> TextRange { TextRange::new(TextSize::from(a), TextSize::from(b)) }

    #[kani::proof]
    fn textsize_conversions_and_order() {
        let a: u32 = kani::any();
        let b: u32 = kani::any();
        let ta = TextSize::from(a);
        let tb = TextSize::from(b);
        assert!(u32::from(ta) == a, "SHIM from/into u32");
        assert!(usize::from(ta) == a as usize, "SHIM into usize");
        assert!(TextSize::new(a) == ta, "SHIM new");
        assert!((ta < tb) == (a < b) && (ta <= tb) == (a <= b) && (ta == tb) == (a == b) && (ta > tb) == (a > b), "SHIM order");
        if a as u64 + b as u64 <= u32::MAX as u64 { assert!(u32::from(ta + tb) == a + b, "SHIM add"); }
        if a >= b { assert!(u32::from(ta - tb) == a - b, "SHIM sub"); }
    }

    #[kani::proof]
    fn textrange_ops() {
        let a0: u32 = kani::any(); let a1: u32 = kani::any();
        let b0: u32 = kani::any(); let b1: u32 = kani::any();
        let x: u32 = kani::any();
        kani::assume(a0 <= a1 && b0 <= b1);
        let ra = range(a0, a1);
        let rb = range(b0, b1);
        assert!(u32::from(ra.start()) == a0 && u32::from(ra.end()) == a1, "SHIM start/end");
        assert!(u32::from(ra.len()) == a1 - a0, "SHIM len");
        assert!(ra.is_empty() == (a0 == a1), "SHIM is_empty");
        assert!(ra.contains(TextSize::from(x)) == (a0 <= x && x < a1), "SHIM contains");
        assert!(ra.contains_inclusive(TextSize::from(x)) == (a0 <= x && x <= a1), "SHIM contains_inclusive");
        assert!(ra.contains_range(rb) == (a0 <= b0 && b1 <= a1), "SHIM contains_range");
        let s = if a0 >= b0 { a0 } else { b0 };
        let e = if a1 <= b1 { a1 } else { b1 };
        match ra.intersect(rb) {
            None => assert!(e < s, "SHIM intersect none"),
            Some(r) => assert!(e >= s && u32::from(r.start()) == s && u32::from(r.end()) == e, "SHIM intersect some"),
        }
        let em = TextRange::empty(TextSize::from(x));
        assert!(u32::from(em.start()) == x && u32::from(em.end()) == x, "SHIM empty");
    }

    /// `TextRange::new` panics exactly when start > end (the shim's precondition)
    #[kani::proof]
    #[kani::should_panic]
    fn textrange_new_panics_when_unordered() {
        let a: u32 = kani::any(); let b: u32 = kani::any();
        kani::assume(a > b);
        let _ = range(a, b);
    }
}
