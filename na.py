"""not_applicable reasons (DESIGN.md §6). Properties that DESIGN plans to claim but whose check is not
built yet are listed here as PENDING until their unit exists."""
PENDING = 'planned (DESIGN.md §5) but the contract unit is not built yet; not claimed until it is'
NOT_APPLICABLE = {
    'C03': 'oracle is the reference Lua implementation; acceptance lives in ~3000 lines of recursive descent outside the verifier dialect; no spec function short of formalising the Lua grammar and five dialect gates',
    'C04': 'the only shared state is rowan\'s NodeCache (a dependency); the property is a contract of that dependency and could only be assumed, not proved',
    'C05': 'semantic preservation of a 23 kLoC formatter (IR, layout, printer over rowan trees); no function-level contract carries "same token sequence"',
    'C06': 'idempotence of the whole formatter pipeline; not a per-function contract',
    'C07': 'range-format locality depends on the whole formatter; not a per-function contract',
    'C08': 'undo / resubmit invariance is a history property across all analysers and every index; the per-index contracts in reach are claimed under C09 / C10; the bounded search replay/c10_trace reports (without failing) that re-adding a file restores the index only up to stale dependents and order-dependent inference',
    'C11': 'independence from hash seeds is a relational property of the whole pipeline (every HashMap / HashSet iteration whose order can leak into a result); one instance was found and repaired through the C35 search (EmmyLuaAnalysis::update_files_by_uri handed hash-set order to the analysers, 6bbebbb) and two through C16 (hash vs == of LuaType), but no function contract states the property as a whole',
    'C12': 'crash freedom of inference/type checking: tens of thousands of lines over an Arc-recursive type',
    'C14': 'rename / references walk the reference index and rowan ASTs in the LSP handlers; the lookup half of C13 is claimed, the edit sets are not in reach',
    'C15': 'oracle is execution in a Lua VM; flow narrowing is whole-analysis',
    'C17': 'render -> parse -> infer round trip over strings and the type system',
    'C18': 'generic instantiation is a whole-pipeline property',
    'C30': 'convergence of published diagnostics is a statement about TIMED histories (debounce sleeps, cancellation tokens, the last scheduled task reading the then-current content); the ordering and locking ingredients are claimed under C27 / C28 / C29, the timers themselves are not expressible as pre/post states',
    'C34': 'conversion is url::Url + percent_encoding: dependency code',
    'C37': '8.8 kLoC of byte-offset markup parsing over rowan tokens; only the final sort_by_key is in reach, which is the std contract',
    'C40': 'whole converter -> string -> parser pipeline',
    'C41': 'oracle is execution in a Lua VM; loop narrowing is whole-analysis',
    # planned, not yet built:
    
}
