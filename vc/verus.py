"""Run Verus on an assembled unit and classify every diagnostic (DESIGN.md §3.5)."""
import json
import os
import re
import subprocess
import time
from .assemble import LABEL
from .extract import Undecided

VIOLATION_MSGS = [
    r'postcondition not satisfied',
    r'precondition not satisfied',
    r'precondition not met',
    r'invariant not satisfied',
    r'assertion failed',
    r'possible arithmetic underflow/overflow',
    r'possible division by zero',
    r'decreases not satisfied',
    r'could not prove termination',
    r'possible bit shift underflow/overflow',
    r'unreachable!\(\) may be reached|panic|unreachable',
    r'constructed value may fail to meet its declared type invariant',
    r'loop invariant not satisfied',
    r'checked .* may fail',
    r'unable to prove post-condition of closure',
]
UNDECIDED_MSGS = [
    r'Resource limit \(rlimit\) exceeded', r'rlimit', r'timed out', r'not supported', r'unsupported',
]
IGNORED = [r'^aborting due to', r'^\d+ warnings? emitted', r'recommendation not met',
           r'verification results::', r'^could not compile']


class Obl:
    """one failed obligation"""
    def __init__(self, msg, item, label, line, span_text, rendered, in_vac=False):
        self.msg, self.item, self.label, self.line = msg, item, label, line
        self.span_text, self.rendered, self.in_vac = span_text, rendered, in_vac

    @property
    def name(self):
        kind = re.sub(r'[^a-z]+', '-', self.msg.lower()).strip('-')[:40]
        if self.label:
            return '%s:%s[%s]' % (self.item, kind, self.label)
        txt = re.sub(r'\s+', ' ', self.span_text or '').strip()[:80]
        return '%s:%s{%s}' % (self.item, kind, txt)


class Result:
    pass


def _line_item(asm, line):
    for key, (a, b) in asm.vac_ranges.items():
        if a <= line <= b: return key, True
    for key, (a, b) in asm.ranges.items():
        if a <= line <= b: return key, False
    return None, False


def _prelude_fn(asm, line):
    """name of the hand-written (template) fn enclosing an assembled line: lemmas and shims"""
    if line is None: return None
    for ln in range(min(line, len(asm.lines)) - 1, -1, -1):
        m = re.match(r'\s*(?:pub\s+)?(?:open\s+|closed\s+)?(?:broadcast\s+)?(proof|spec|exec)?\s*fn\s+(\w+)', asm.lines[ln])
        if m: return ('lemma:' if m.group(1) == 'proof' else 'template:') + m.group(2)
        if re.match(r'\S', asm.lines[ln]) and asm.lines[ln].startswith('}'): break
    return None


def run(asm, unit, build_dir, tag='unit', rlimit=None, extra_args=(), timeout=900):
    os.makedirs(build_dir, exist_ok=True)
    path = os.path.join(build_dir, tag + '.rs')
    with open(path, 'w', encoding='utf-8') as f:
        f.write(asm.text)
    cmd = ['verus', '--edition', '2024', os.path.basename(path), '--output-json', '--time',
           '--error-format=json', '--multiple-errors', '4', '--no-report-long-running',
           '--num-threads', str(unit.get('threads', 8))]
    rl = rlimit or unit.get('rlimit')
    if rl: cmd += ['--rlimit', str(rl)]
    cmd += list(unit.get('verus_args', [])) + list(extra_args)
    t0 = time.time()
    try:
        p = subprocess.run(cmd, cwd=build_dir, capture_output=True, text=True, timeout=timeout)
    except subprocess.TimeoutExpired:
        raise Undecided('verus timed out after %ds on %s' % (timeout, path))
    res = Result()
    res.cmd = ' '.join(cmd)
    res.path = path
    res.wall = time.time() - t0
    res.stdout, res.stderr, res.rc = p.stdout, p.stderr, p.returncode
    try:
        res.json = json.loads(p.stdout) if p.stdout.strip().startswith('{') else {}
    except json.JSONDecodeError:
        res.json = {}
    vr = res.json.get('verification-results', {})
    res.verified = vr.get('verified', 0)
    res.errors = vr.get('errors', 0)
    res.failed, res.vac_failed, res.undecided, res.warnings, res.compile_errors = [], [], [], [], []
    for line in p.stderr.split('\n'):
        line = line.strip()
        if not line.startswith('{'):
            if line and not line.startswith(('note:', 'warning:')) and 'panicked' in line:
                res.undecided.append('verus internal: ' + line)
            continue
        try:
            d = json.loads(line)
        except json.JSONDecodeError:
            continue
        if d.get('level') not in ('error', 'error: internal compiler error'):
            if d.get('level') == 'warning': res.warnings.append(d.get('message', ''))
            continue
        msg = d.get('message', '')
        if any(re.search(p_, msg) for p_ in IGNORED):
            continue
        if d.get('code'):
            # rustc front-end error (name resolution, types, borrow check): the assembled text does not
            # compile -> machinery-level problem, never a verdict
            res.compile_errors.append((msg, d.get('rendered', '')))
            continue
        spans = d.get('spans', [])
        prim = next((s for s in spans if s.get('is_primary')), spans[0] if spans else None)
        # attribute to an extracted item: prefer spans lying in an item (call site) over prelude spans
        item, in_vac, line_no, span_text, label = None, False, None, '', None
        ordered = ([prim] if prim else []) + [s for s in spans if s is not prim]
        for s in ordered:
            if os.path.basename(s.get('file_name', '')) != os.path.basename(path):
                continue        # span inside vstd / std specs: line numbers there mean nothing for this file
            k, v = _line_item(asm, s['line_start'])
            if k is not None and item is None:
                item, in_vac = k, v
        if prim:
            line_no = prim['line_start']
            span_text = ' '.join(t['text'].strip() for t in prim.get('text', []))
            for ln in range(prim['line_start'], prim['line_end'] + 1):
                m = LABEL.search(asm.lines[ln - 1]) if ln - 1 < len(asm.lines) else None
                if m: label = m.group(1); break
        if item is None and prim and os.path.basename(prim.get('file_name', '')) == os.path.basename(path):
            item = _prelude_fn(asm, prim['line_start'])
        if any(re.search(p_, msg) for p_ in UNDECIDED_MSGS):
            if not in_vac:
                res.undecided.append('%s (%s line %s)' % (msg, item or 'prelude', line_no)); continue
        if any(re.search(p_, msg) for p_ in VIOLATION_MSGS):
            o = Obl(msg, item or 'prelude', label, line_no, span_text, d.get('rendered', ''), in_vac)
            (res.vac_failed if in_vac else res.failed).append(o)
        else:
            if in_vac:
                res.vac_failed.append(Obl(msg, item, label, line_no, span_text, d.get('rendered', ''), True))
            else:
                res.undecided.append('%s (%s line %s)' % (msg.split('\n')[0][:300], item or 'prelude', line_no))
    if res.compile_errors:
        seen = []
        for m, _ in res.compile_errors:
            if m not in seen: seen.append(m)
        res.undecided.append('assembled unit does not compile: ' + ' | '.join(seen[:4]))
    if not res.json and not res.undecided:
        res.undecided.append('verus produced no json (rc=%s): %s' % (p.returncode, p.stderr[-400:]))
    # per-function breakdown
    res.functions = []
    try:
        for m in res.json['times-ms']['smt']['smt-run-module-times']:
            for fb in m.get('function-breakdown', []):
                res.functions.append({'function': fb['function'], 'mode': fb.get('mode:', ''),
                                      'time_us': fb.get('time-micros', 0), 'rlimit': fb.get('rlimit', 0),
                                      'success': fb.get('success')})
    except (KeyError, TypeError):
        pass
    res.smt_ms = res.json.get('times-ms', {}).get('smt', {}).get('total', 0)
    res.total_ms = res.json.get('times-ms', {}).get('total', 0)
    return res
