"""Minimal Rust tokenizer: enough to find items, bodies and loops in real source text.

Tokens: (kind, start, end) with kind in
  'ws', 'lcomment', 'bcomment', 'str', 'char', 'lifetime', 'ident', 'num', 'punct'
Braces inside strings / chars / comments never confuse the structure scan.
"""
import re

_IDENT = re.compile(r'[A-Za-z_][A-Za-z0-9_]*')
_NUM = re.compile(r'[0-9][0-9A-Za-z_]*(\.[0-9][0-9A-Za-z_]*)?')
_WS = re.compile(r'\s+')
_RAWSTR = re.compile(r'b?r(#*)"')


class LexError(Exception):
    pass


def tokens(src):
    i, n = 0, len(src)
    out = []
    while i < n:
        c = src[i]
        m = _WS.match(src, i)
        if m:
            out.append(('ws', i, m.end())); i = m.end(); continue
        if src.startswith('//', i):
            j = src.find('\n', i)
            j = n if j < 0 else j
            out.append(('lcomment', i, j)); i = j; continue
        if src.startswith('/*', i):
            depth, j = 1, i + 2
            while j < n and depth:
                if src.startswith('/*', j): depth += 1; j += 2
                elif src.startswith('*/', j): depth -= 1; j += 2
                else: j += 1
            out.append(('bcomment', i, j)); i = j; continue
        m = _RAWSTR.match(src, i)
        if m:
            closer = '"' + m.group(1)
            j = src.find(closer, m.end())
            if j < 0: raise LexError('unterminated raw string at %d' % i)
            j += len(closer)
            out.append(('str', i, j)); i = j; continue
        if c == '"' or (c == 'b' and i + 1 < n and src[i + 1] == '"'):
            j = i + (2 if c == 'b' else 1)
            while j < n and src[j] != '"':
                j += 2 if src[j] == '\\' else 1
            j += 1
            out.append(('str', i, j)); i = j; continue
        if c == "'" or (c == 'b' and i + 1 < n and src[i + 1] == "'"):
            k = i + (2 if c == 'b' else 1)
            # char literal or lifetime?
            if k < n and src[k] == '\\':
                j = k + 2
                while j < n and src[j] != "'": j += 1
                out.append(('char', i, j + 1)); i = j + 1; continue
            if k + 1 < n and src[k + 1] == "'" and src[k] != "'":
                out.append(('char', i, k + 2)); i = k + 2; continue
            # multi-byte char literal like '😀' is one python char, handled above
            m = _IDENT.match(src, k)
            if m and c == "'":
                out.append(('lifetime', i, m.end())); i = m.end(); continue
            raise LexError('bad quote at %d' % i)
        m = _IDENT.match(src, i)
        if m:
            out.append(('ident', i, m.end())); i = m.end(); continue
        m = _NUM.match(src, i)
        if m:
            # avoid eating `..` of ranges: 0..n
            e = m.end()
            txt = src[i:e]
            if '.' in txt and src.startswith('..', i + txt.index('.')):
                e = i + txt.index('.')
            out.append(('num', i, e)); i = e; continue
        out.append(('punct', i, i + 1)); i += 1
    return out


def code_tokens(src):
    """tokens without whitespace and comments"""
    return [t for t in tokens(src) if t[0] not in ('ws', 'lcomment', 'bcomment')]


OPEN = {'(': ')', '[': ']', '{': '}'}
CLOSE = {')': '(', ']': '[', '}': '{'}


def match_close(src, toks, idx):
    """toks[idx] is an opening bracket; return index of its matching close token."""
    depth = 0
    for k in range(idx, len(toks)):
        kind, s, e = toks[k]
        if kind != 'punct': continue
        ch = src[s]
        if ch in OPEN: depth += 1
        elif ch in CLOSE:
            depth -= 1
            if depth == 0: return k
    raise LexError('unbalanced bracket at %d' % toks[idx][1])


def tok_text(src, t):
    return src[t[1]:t[2]]
