"""Turning a failed obligation into a concrete input on the real code, and replaying recorded inputs.
Nothing in here decides a property."""
from . import engines


def search(kind, obligation_name, seed):
    return None


def replay(w):
    r = engines.replay_witness(w)
    print(r.get('cmd', ''))
    print(r.get('output', ''))
    if r.get('reproduced'):
        print('REPRODUCED on the real code')
        return 1
    print('not reproduced (rc=%s)' % r.get('rc'))
    return 0
