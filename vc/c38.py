"""C38 (static half): Send + Sync of every component of EmmyLuaAnalysis, derived by rustc's auto-trait
rules on a copy of the workspace from which every `unsafe impl Send/Sync` has been stripped mechanically.

Obligations (one rustc trait-solver goal each): `T: Send + Sync` for every field type of
`EmmyLuaAnalysis` (read from the struct on every run), for `DbIndex`, and for `EmmyLuaAnalysis` itself.
A failed goal is a violation; rustc's diagnostic names the offending inner type (there is no input to
replay: `no-failing-input-found`). Anything else that stops the copy from compiling is undecided.
"""
import json
import os
import re
import shutil
import subprocess
import time

from . import extract as X
from . import rustlex as L
from .assemble import VERIF, REPO
from .extract import Undecided

BUILD = os.path.join(os.environ.get('VERIF_BUILD') or os.path.join(VERIF, 'build'), 'c38')
# unsafe impls that are NOT components held by the shared analysis (query-time views); kept as they are
NOT_HELD = {'SemanticModel'}
UNSAFE_RE = re.compile(r'^[ \t]*unsafe\s+impl\s*(<[^>]*>)?\s*(Send|Sync)\s+for\s+([A-Za-z_][\w:]*)[^\n{]*\{\s*\}[ \t]*\n', re.M)


def _fields(repo):
    it = X.find_item(repo, {'file': 'crates/emmylua_code_analysis/src/lib.rs', 'kind': 'struct', 'name': 'EmmyLuaAnalysis', 'drop_attrs': True})
    text = it.raw
    body = text[text.index('{') + 1:text.rindex('}')]
    out = []
    skip = False
    for part in re.split(r',\s*\n', body):
        p = part.strip()
        if not p: continue
        if '#[cfg(test)]' in p:
            continue
        p = re.sub(r'#\[[^\]]*\]\s*', '', p)
        m = re.match(r'(?:pub(?:\([^)]*\))?\s+)?(\w+)\s*:\s*(.+)$', p, flags=re.S)
        if m: out.append((m.group(1), ' '.join(m.group(2).split())))
    if not out:
        raise Undecided('could not read the fields of EmmyLuaAnalysis')
    return out, it


def run(eng, prop, tier, seed):
    t0 = time.time()
    ws = os.path.join(BUILD, 'ws')
    os.makedirs(ws, exist_ok=True)
    # mechanical copy of the workspace (sources only), preserving mtimes so cargo can reuse its cache
    cmd = ['rsync', '-a', '--delete', '--exclude', 'target', '--exclude', '.git', '--exclude', 'crates/zz_c38_obl',
           REPO.rstrip('/') + '/', ws + '/']
    p = subprocess.run(cmd, capture_output=True, text=True)
    if p.returncode != 0:
        raise Undecided('rsync failed: ' + p.stderr[-300:])
    stripped, kept = [], []
    for crate in ('emmylua_code_analysis', 'emmylua_parser'):
        for root, _, files in os.walk(os.path.join(ws, 'crates', crate, 'src')):
            for fn in files:
                if not fn.endswith('.rs'): continue
                path = os.path.join(root, fn)
                src = open(path, encoding='utf-8').read()
                if 'unsafe impl' not in src: continue
                def sub(m):
                    ty = m.group(3).split('::')[-1]
                    rel = os.path.relpath(path, ws)
                    if ty in NOT_HELD:
                        kept.append('%s: %s' % (rel, m.group(0).strip())); return m.group(0)
                    stripped.append('%s: %s' % (rel, m.group(0).strip())); return '\n'
                new = UNSAFE_RE.sub(sub, src)
                if new != src:
                    st = os.stat(path)
                    open(path, 'w', encoding='utf-8').write(new)
                    os.utime(path, (st.st_atime, st.st_mtime + 1))
    fields, item = _fields(ws)
    goals = [('field_' + n, t) for n, t in fields] + [('db_index', 'DbIndex'), ('whole_analysis', 'EmmyLuaAnalysis')]
    obl = os.path.join(ws, 'crates', 'zz_c38_obl')
    os.makedirs(os.path.join(obl, 'src'), exist_ok=True)
    open(os.path.join(obl, 'Cargo.toml'), 'w').write(
        '[package]\nname = "zz_c38_obl"\nversion = "0.0.0"\nedition = "2024"\npublish = false\n\n'
        '[dependencies]\nemmylua_code_analysis = { path = "../emmylua_code_analysis" }\n')
    lines = ['#![allow(unused_imports, dead_code)]', 'use emmylua_code_analysis::*;', 'use std::sync::Arc;',
             'fn assert_send_sync<T: Send + Sync>() {}']
    line_of = {}
    for name, ty in goals:
        lines.append('pub fn ob_%s() { assert_send_sync::<%s>(); }' % (name, ty))
        line_of[len(lines)] = (name, ty)
    if eng.get('negative_control') and tier == 'thorough':
        lines.append('#[cfg(vp_negative_control)] pub fn ob_negative_control() { assert_send_sync::<std::rc::Rc<u8>>(); }')
    src_path = os.path.join(obl, 'src', 'lib.rs')
    new_src = '\n'.join(lines) + '\n'
    if not os.path.exists(src_path) or open(src_path).read() != new_src:
        open(src_path, 'w').write(new_src)
    env = dict(os.environ); env['CARGO_NET_OFFLINE'] = 'true'; env.pop('RUSTFLAGS', None)
    env['CARGO_TARGET_DIR'] = os.path.join(BUILD, 'target')

    def check(extra_flags=None):
        e = dict(env)
        if extra_flags: e['RUSTFLAGS'] = extra_flags
        c = ['cargo', 'check', '--offline', '-p', 'zz_c38_obl', '--message-format=json']
        try:
            pr = subprocess.run(c, cwd=ws, env=e, capture_output=True, text=True, timeout=3000)
        except subprocess.TimeoutExpired:
            raise Undecided('cargo check timed out')
        errs = []
        for l in pr.stdout.split('\n'):
            if not l.startswith('{'): continue
            try: d = json.loads(l)
            except json.JSONDecodeError: continue
            if d.get('reason') == 'compiler-message' and d['message'].get('level') == 'error':
                errs.append((d.get('package_id', ''), d['message']))
        return pr, errs, ' '.join(c)

    pr, errs, cmdline = check()
    failed, other = [], []
    for pkg, m in errs:
        spans = m.get('spans', [])
        prim = next((s for s in spans if s.get('is_primary')), None)
        if 'zz_c38_obl' in pkg and prim and prim['line_start'] in line_of and (m.get('code') or {}).get('code') == 'E0277':
            failed.append((line_of[prim['line_start']], m.get('rendered', '')))
        else:
            other.append(m.get('message', '')[:200])
    if other or (pr.returncode != 0 and not failed):
        raise Undecided('stripped workspace copy does not compile: %s %s' % (other[:3], pr.stderr[-300:] if not other else ''))
    summary = {'unit': 'rustc-traits/c38', 'goals': ['%s: Send + Sync' % t for _, t in goals],
               'unsafe_impls_stripped': stripped, 'unsafe_impls_kept_not_held': kept, 'wall_s': round(time.time() - t0, 1)}
    if eng.get('negative_control') and tier == 'thorough':
        pr2, errs2, _ = check('--cfg vp_negative_control')
        if not any('Rc<u8>' in m.get('rendered', '') for _, m in errs2):
            raise Undecided('negative control: Rc<u8>: Send + Sync was not rejected — the trait-goal machinery is vacuous')
        summary['negative_control'] = 'Rc<u8>: Send + Sync rejected as expected'
    out_failed = []
    os.makedirs(os.path.join(VERIF, 'replays'), exist_ok=True)
    merged = {}
    for (name, ty), rendered in failed:
        merged.setdefault((name, ty), []).append(rendered)
    failed_goals = len(merged)
    for (name, ty), rs in merged.items():
        rendered = '\n'.join(rs)
        rp = os.path.join(VERIF, 'replays', '%s-rustc-%s.json' % (prop, name))
        oname = 'rustc-traits/c38:%s:C38.send-sync[%s]' % (name, ty)
        json.dump({'property': prop, 'obligation': oname, 'verifier': 'rustc trait solver', 'verifier_cmd': cmdline,
                   'verifier_output': rendered, 'failing_input': None,
                   'note': 'auto-trait goal on the workspace copy with unsafe impl Send/Sync stripped: %s' % stripped},
                  open(rp, 'w'), indent=1)
        out_failed.append({'name': oname, 'replay': rp, 'witness': None})
    return {'obligations': len(goals), 'discharged': len(goals) - failed_goals,
            'cmd': '(cd build/c38/ws && %s)   # workspace copy, `unsafe impl Send/Sync` stripped' % cmdline,
            'summary': summary,
            'samples': ['rustc goal: %s: Send + Sync (no unsafe impl consulted)' % t for _, t in goals],
            'failed': out_failed,
            'assumptions': ['[c38] rustc auto-trait derivation; `unsafe impl Send/Sync` inside DEPENDENCIES (std, tokio, hashbrown, rowan, smol_str, internment …) are trusted',
                            '[c38] kept (not held by the analysis, query-time view): %s' % (kept or 'none')]}
