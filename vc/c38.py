"""C38 (static half): Send + Sync of every component of EmmyLuaAnalysis, derived by rustc's auto-trait
rules on a copy of the workspace from which every `unsafe impl Send/Sync` has been stripped mechanically.

Obligations (one rustc trait-solver goal each): `T: Send + Sync` for every field type of
`EmmyLuaAnalysis` (read from the struct on every run), for `DbIndex`, and for `EmmyLuaAnalysis` itself.
A failed goal is a violation; rustc's diagnostic names the offending inner type (there is no input to
replay: `no-failing-input-found`). Anything else that stops the copy from compiling is undecided.
"""
import json
import os
import re
import shutil
import subprocess
import time

from . import extract as X
from . import rustlex as L
from .assemble import VERIF, REPO
from .extract import Undecided

BUILD = os.path.join(os.environ.get('VERIF_BUILD') or os.path.join(VERIF, 'build'), 'c38')
# unsafe impls that are NOT components held by the shared analysis (query-time views); kept as they are
NOT_HELD = {'SemanticModel'}
UNSAFE_RE = re.compile(r'^[ \t]*unsafe\s+impl\s*(<[^>]*>)?\s*(Send|Sync)\s+for\s+([A-Za-z_][\w:]*)[^\n{]*\{\s*\}[ \t]*\n', re.M)


def _fields(repo):
    it = X.find_item(repo, {'file': 'crates/emmylua_code_analysis/src/lib.rs', 'kind': 'struct', 'name': 'EmmyLuaAnalysis', 'drop_attrs': True})
    text = it.raw
    body = text[text.index('{') + 1:text.rindex('}')]
    out = []
    skip = False
    for part in re.split(r',\s*\n', body):
        p = part.strip()
        if not p: continue
        if '#[cfg(test)]' in p:
            continue
        p = re.sub(r'#\[[^\]]*\]\s*', '', p)
        m = re.match(r'(?:pub(?:\([^)]*\))?\s+)?(\w+)\s*:\s*(.+)$', p, flags=re.S)
        if m: out.append((m.group(1), ' '.join(m.group(2).split())))
    if not out:
        raise Undecided('could not read the fields of EmmyLuaAnalysis')
    return out, it


def run(eng, prop, tier, seed):
    t0 = time.time()
    ws = os.path.join(BUILD, 'ws')
    os.makedirs(ws, exist_ok=True)
    # mechanical copy of the workspace (sources only), preserving mtimes so cargo can reuse its cache
    cmd = ['rsync', '-a', '--delete', '--exclude', 'target', '--exclude', '.git', '--exclude', 'crates/zz_c38_obl', '--exclude', 'crates/zz_c38_nim',
           REPO.rstrip('/') + '/', ws + '/']
    p = subprocess.run(cmd, capture_output=True, text=True)
    if p.returncode != 0:
        raise Undecided('rsync failed: ' + p.stderr[-300:])
    stripped, kept = [], []
    for crate in ('emmylua_code_analysis', 'emmylua_parser'):
        for root, _, files in os.walk(os.path.join(ws, 'crates', crate, 'src')):
            for fn in files:
                if not fn.endswith('.rs'): continue
                path = os.path.join(root, fn)
                src = open(path, encoding='utf-8').read()
                if 'unsafe impl' not in src: continue
                def sub(m):
                    ty = m.group(3).split('::')[-1]
                    rel = os.path.relpath(path, ws)
                    if ty in NOT_HELD:
                        kept.append('%s: %s' % (rel, m.group(0).strip())); return m.group(0)
                    stripped.append('%s: %s' % (rel, m.group(0).strip())); return '\n'
                new = UNSAFE_RE.sub(sub, src)
                if new != src:
                    st = os.stat(path)
                    open(path, 'w', encoding='utf-8').write(new)
                    os.utime(path, (st.st_atime, st.st_mtime + 1))
    fields, item = _fields(ws)
    goals = [('field_' + n, t) for n, t in fields] + [('db_index', 'DbIndex'), ('whole_analysis', 'EmmyLuaAnalysis')]
    obl = os.path.join(ws, 'crates', 'zz_c38_obl')
    os.makedirs(os.path.join(obl, 'src'), exist_ok=True)
    open(os.path.join(obl, 'Cargo.toml'), 'w').write(
        '[package]\nname = "zz_c38_obl"\nversion = "0.0.0"\nedition = "2024"\npublish = false\n\n'
        '[features]\nvp_negative_control = []\n\n[dependencies]\nemmylua_code_analysis = { path = "../emmylua_code_analysis" }\n')
    lines = ['#![allow(unused_imports, dead_code)]', 'use emmylua_code_analysis::*;', 'use std::sync::Arc;',
             'fn assert_send_sync<T: Send + Sync>() {}']
    line_of = {}
    for name, ty in goals:
        lines.append('pub fn ob_%s() { assert_send_sync::<%s>(); }' % (name, ty))
        line_of[len(lines)] = (name, ty)
    if eng.get('negative_control') and tier == 'thorough':
        lines.append('#[cfg(feature = "vp_negative_control")] pub fn ob_negative_control() { assert_send_sync::<std::rc::Rc<u8>>(); }')
    src_path = os.path.join(obl, 'src', 'lib.rs')
    new_src = '\n'.join(lines) + '\n'
    if not os.path.exists(src_path) or open(src_path).read() != new_src:
        open(src_path, 'w').write(new_src)
    env = dict(os.environ); env['CARGO_NET_OFFLINE'] = 'true'; env.pop('RUSTFLAGS', None)
    env['CARGO_TARGET_DIR'] = os.path.join(BUILD, 'target')

    def check(extra_flags=None):
        e = dict(env)
        c = ['cargo', 'check', '--offline', '-p', 'zz_c38_obl', '--message-format=json']
        if extra_flags: c += ['--features', extra_flags]   # a feature of the obligation crate only: no dependency is rebuilt
        try:
            pr = subprocess.run(c, cwd=ws, env=e, capture_output=True, text=True, timeout=3000)
        except subprocess.TimeoutExpired:
            raise Undecided('cargo check timed out')
        errs = []
        for l in pr.stdout.split('\n'):
            if not l.startswith('{'): continue
            try: d = json.loads(l)
            except json.JSONDecodeError: continue
            if d.get('reason') == 'compiler-message' and d['message'].get('level') == 'error':
                errs.append((d.get('package_id', ''), d['message']))
        return pr, errs, ' '.join(c)

    pr, errs, cmdline = check()
    failed, other = [], []
    for pkg, m in errs:
        spans = m.get('spans', [])
        prim = next((s for s in spans if s.get('is_primary')), None)
        if 'zz_c38_obl' in pkg and prim and prim['line_start'] in line_of and (m.get('code') or {}).get('code') == 'E0277':
            failed.append((line_of[prim['line_start']], m.get('rendered', '')))
        else:
            other.append(m.get('message', '')[:200])
    if other or (pr.returncode != 0 and not failed):
        raise Undecided('stripped workspace copy does not compile: %s %s' % (other[:3], pr.stderr[-300:] if not other else ''))
    nim = None
    if eng.get('immutable_shared_state') and (tier == 'thorough' or eng.get('immutable_quick')):
        nim = run_nim(ws, fields, env)
    summary = {'unit': 'rustc-traits/c38', 'goals': ['%s: Send + Sync' % t for _, t in goals],
               'unsafe_impls_stripped': stripped, 'unsafe_impls_kept_not_held': kept, 'wall_s': round(time.time() - t0, 1)}
    if eng.get('negative_control') and tier == 'thorough':
        pr2, errs2, _ = check('vp_negative_control')
        if not any('Rc<u8>' in m.get('rendered', '') for _, m in errs2):
            raise Undecided('negative control: Rc<u8>: Send + Sync was not rejected — the trait-goal machinery is vacuous')
        summary['negative_control'] = 'Rc<u8>: Send + Sync rejected as expected'
    out_failed = []
    os.makedirs(os.path.join(VERIF, 'replays'), exist_ok=True)
    merged = {}
    for (name, ty), rendered in failed:
        merged.setdefault((name, ty), []).append(rendered)
    failed_goals = len(merged)
    for (name, ty), rs in merged.items():
        rendered = '\n'.join(rs)
        rp = os.path.join(VERIF, 'replays', '%s-rustc-%s.json' % (prop, name))
        oname = 'rustc-traits/c38:%s:C38.send-sync[%s]' % (name, ty)
        json.dump({'property': prop, 'obligation': oname, 'verifier': 'rustc trait solver', 'verifier_cmd': cmdline,
                   'verifier_output': rendered, 'failing_input': None,
                   'note': 'auto-trait goal on the workspace copy with unsafe impl Send/Sync stripped: %s' % stripped},
                  open(rp, 'w'), indent=1)
        out_failed.append({'name': oname, 'replay': rp, 'witness': None})
    und = []
    extra_ob = extra_dis = 0
    extra_samples, extra_assume = [], []
    if nim is not None:
        summary['immutable_shared_state'] = nim['summary']
        extra_ob, extra_dis = nim['obligations'], nim['discharged']
        und = nim['undecided']
        extra_samples, extra_assume = nim['samples'], nim['assumptions']
        cmdline = cmdline + ' && ' + nim['cmd']
    return {'undecided': und, 'obligations': len(goals) + extra_ob, 'discharged': len(goals) - failed_goals + extra_dis,
            'cmd': '(cd build/c38/ws && %s)   # workspace copy, `unsafe impl Send/Sync` stripped' % cmdline,
            'summary': summary,
            'samples': ['rustc goal: %s: Send + Sync (no unsafe impl consulted)' % t for _, t in goals] + extra_samples,
            'failed': out_failed,
            'assumptions': ['[c38] rustc auto-trait derivation; `unsafe impl Send/Sync` inside DEPENDENCIES (std, tokio, hashbrown, rowan, smol_str, internment …) are trusted',
                            '[c38] kept (not held by the analysis, query-time view): %s' % (kept or 'none')] + extra_assume}


# ---------------------------------------------------------------------------------------------
# dynamic sentence of C38 by a SUFFICIENT static condition: the shared analysis holds no interior mutability
# ---------------------------------------------------------------------------------------------
# library types with internal UnsafeCell state that is invisible to their users (reference counts, intern tables, scratch
# pools): each one is a TRUSTED positive impl, listed in the evidence
NIM_ALLOW = [
    ('std::sync::Arc<T>', 'impl<T: ?Sized + NoInteriorMut> NoInteriorMut for std::sync::Arc<T> {}', 'atomic reference count only; the payload is checked'),
    ('regex::Regex', 'impl NoInteriorMut for regex::Regex {}', 'per-thread scratch pool; matching is a function of (pattern, haystack)'),
    ('internment::ArcIntern<T>', "impl<T: ?Sized + Eq + std::hash::Hash + Send + Sync + 'static + NoInteriorMut> NoInteriorMut for internment::ArcIntern<T> {}",
     'reference count + global intern table; equality/hash are value based'),
    ('rowan::GreenNode / GreenToken / NodeCache', 'impl NoInteriorMut for rowan::GreenNode {}\nimpl NoInteriorMut for rowan::GreenToken {}\nimpl NoInteriorMut for rowan::NodeCache {}',
     'immutable green trees behind reference counts; the NodeCache is only written through &mut (Vfs::set_file_content)'),
    ('smol_str::SmolStr', 'impl NoInteriorMut for smol_str::SmolStr {}', 'inline or Arc<str>'),
]


def run_nim(ws, fields, env):
    """`T: NoInteriorMut` for every field type of EmmyLuaAnalysis and for DbIndex, where `NoInteriorMut` is an auto trait with a
    negative impl for UnsafeCell (nightly rustc: auto_traits, negative_impls). The trait solver derives it structurally through
    every field of every reachable type, private ones included. If it holds, `&EmmyLuaAnalysis` is deeply immutable: read-only
    queries are functions of that immutable data plus their own per-query state, so any interleaving of them gives the
    sequential results and there is nothing to race on. If it FAILS the sufficient condition is gone - that is UNDECIDED, never
    an alarm by itself (a transparent lock-protected cache would keep the property): the bounded stress search replay/c38 is
    then the only thing that can turn it into a violation, with a concrete schedule-dependent answer."""
    t0 = time.time()
    obl = os.path.join(ws, 'crates', 'zz_c38_nim')
    os.makedirs(os.path.join(obl, 'src'), exist_ok=True)
    toml = ('[package]\nname = "zz_c38_nim"\nversion = "0.0.0"\nedition = "2024"\npublish = false\n\n[features]\nvp_negative_control = []\n\n[dependencies]\n'
            'emmylua_code_analysis = { path = "../emmylua_code_analysis" }\nregex.workspace = true\ninternment.workspace = true\n'
            'rowan.workspace = true\nsmol_str.workspace = true\n')
    tp = os.path.join(obl, 'Cargo.toml')
    if not os.path.exists(tp) or open(tp).read() != toml: open(tp, 'w').write(toml)
    goals = [('field_' + n, t) for n, t in fields] + [('db_index', 'DbIndex')]
    lines = ['#![feature(auto_traits, negative_impls)]', '#![allow(unused_imports, dead_code)]', 'use emmylua_code_analysis::*;', 'use std::sync::Arc;',
             'pub auto trait NoInteriorMut {}', 'impl<T: ?Sized> !NoInteriorMut for core::cell::UnsafeCell<T> {}']
    for _, impl, _ in NIM_ALLOW: lines += impl.split('\n')
    lines.append('fn assert_nim<T: NoInteriorMut>() {}')
    line_of = {}
    for name, ty in goals:
        lines.append('pub fn ob_%s() { assert_nim::<%s>(); }' % (name, ty))
        line_of[len(lines)] = (name, ty)
    # negative control, always on: a Mutex inside an Arc must be rejected
    lines.append('#[cfg(feature = "vp_negative_control")] pub fn ob_negative_control() { assert_nim::<Arc<std::sync::Mutex<u8>>>(); }')
    sp = os.path.join(obl, 'src', 'lib.rs')
    new_src = '\n'.join(lines) + '\n'
    if not os.path.exists(sp) or open(sp).read() != new_src: open(sp, 'w').write(new_src)
    e = dict(env); e['CARGO_TARGET_DIR'] = os.path.join(BUILD, 'target-nightly')

    def check(flags=None):
        ee = dict(e)
        c = ['cargo', '+nightly', 'check', '--offline', '-p', 'zz_c38_nim', '--message-format=json']
        if flags: c += ['--features', flags]
        try:
            pr = subprocess.run(c, cwd=ws, env=ee, capture_output=True, text=True, timeout=3000)
        except subprocess.TimeoutExpired:
            raise Undecided('cargo +nightly check timed out')
        errs = []
        for l in pr.stdout.split('\n'):
            if not l.startswith('{'): continue
            try: d = json.loads(l)
            except json.JSONDecodeError: continue
            if d.get('reason') == 'compiler-message' and d['message'].get('level') == 'error':
                errs.append((d.get('package_id', ''), d['message']))
        return pr, errs, ' '.join(c)

    pr, errs, cmdline = check()
    failed, other = {}, []
    for pkg, m in errs:
        prim = next((s_ for s_ in m.get('spans', []) if s_.get('is_primary')), None)
        if 'zz_c38_nim' in pkg and prim and prim['line_start'] in line_of and (m.get('code') or {}).get('code') == 'E0277':
            failed.setdefault(line_of[prim['line_start']], []).append(m.get('rendered', ''))
        else:
            other.append(m.get('message', '')[:200])
    und = []
    if other or (pr.returncode != 0 and not failed):
        und.append('C38.immutable-shared-state: the nightly obligation crate does not compile: %s %s' % (other[:2], pr.stderr[-200:] if not other else ''))
    for (name, ty), rs in failed.items():
        path = [l.strip() for l in '\n'.join(rs).split('\n') if 'required because it appears within the type' in l]
        own = [l for l in path if re.search(r'`(Lua|Db|Emmy|Vfs|File|Module|Diagnostic)', l)]
        und.append('C38.immutable-shared-state[%s]: interior mutability is reachable from the shared analysis (%s) - the static argument for '
                   '"concurrent == sequential" no longer applies' % (ty, '; '.join((own or path)[:2])[:300]))
    pr2, errs2, _ = check('vp_negative_control')
    if not any('Mutex' in m.get('rendered', '') for _, m in errs2):
        und.append('C38.immutable-shared-state: negative control (Arc<Mutex<u8>>) was not rejected - the goal machinery is vacuous')
    ok = len(goals) - len(failed) if not und or failed else 0
    return {'obligations': len(goals), 'discharged': ok if not (other or (pr.returncode != 0 and not failed)) else 0, 'undecided': und,
            'cmd': '(cd build/c38/ws && %s)' % cmdline,
            'summary': {'goals': ['%s: NoInteriorMut' % t for _, t in goals], 'negative_control': 'Arc<Mutex<u8>>: NoInteriorMut rejected' if not any('negative control' in u for u in und) else 'FAILED',
                        'wall_s': round(time.time() - t0, 1)},
            'samples': ['rustc goal: %s: NoInteriorMut (auto trait, negative impl for UnsafeCell): no interior mutability reachable => read-only queries cannot influence each other' % t for _, t in goals],
            'assumptions': ['[c38] NoInteriorMut is TRUSTED for %s (%s)' % (n, why) for n, _, why in NIM_ALLOW] +
                           ['[c38] global state outside the analysis value (statics, thread-locals, the file system, log) is not covered by the immutability argument',
                            '[c38] nightly rustc features auto_traits + negative_impls; structural auto-trait derivation through private fields']}
