"""Mechanical extraction of real items (fn / struct / enum / const / impl-fn) from /repo source text.

Everything is found by scanning tokens (rustlex), never by line numbers. A lost item raises
Undecided -> the check exits 2, never an alarm.
"""
import hashlib
import os
import re
from . import rustlex as L


class Undecided(Exception):
    """the machinery cannot decide (lost anchor, unsupported construct, tool limit)"""
    pass


class Item:
    def __init__(self, file, src, start, end, kind, name, owner=None):
        self.file, self.kind, self.name, self.owner = file, kind, name, owner
        self.start, self.end = start, end
        self.raw = src[start:end]
        self.line_start = src.count('\n', 0, start) + 1
        self.line_end = src.count('\n', 0, end) + 1
        self.sha256 = hashlib.sha256(self.raw.encode()).hexdigest()
        self.text = self.raw          # rewritten text (rules, overlay)
        self.rewrites = []            # (rule, count)
        self.dropped = []             # what extraction dropped (attrs, fields)

    @property
    def qual(self):
        return (self.owner + '::' if self.owner else '') + self.name


def read_source(repo, rel):
    p = os.path.join(repo, rel)
    if not os.path.exists(p):
        raise Undecided('source file missing: %s' % rel)
    with open(p, encoding='utf-8') as f:
        return f.read()


def _top_level_items(src, toks, lo, hi):
    """yield (first_tok_idx, last_tok_idx_exclusive) for items between token indices lo..hi at depth 0.
    An item ends at a `;` at depth 0 or at the `}` closing its first depth-0 `{` (after which an
    optional `;` is not consumed)."""
    k = lo
    while k < hi:
        first = k
        # scan to end of item
        j = k
        end = None
        while j < hi:
            kind, s, e = toks[j]
            if kind == 'punct':
                ch = src[s]
                if ch in '([':
                    j = L.match_close(src, toks, j) + 1; continue
                if ch == '{':
                    j = L.match_close(src, toks, j) + 1
                    # `struct X {..}` / fn / impl end here; `let`-like never at item level
                    end = j; break
                if ch == ';':
                    end = j + 1; break
                if ch == '#':
                    # attribute: # [ ... ] or # ! [ ... ]
                    j2 = j + 1
                    if j2 < hi and L.tok_text(src, toks[j2]) == '!': j2 += 1
                    if j2 < hi and L.tok_text(src, toks[j2]) == '[':
                        j = L.match_close(src, toks, j2) + 1; continue
            j += 1
        if end is None:
            return
        yield first, end
        k = end


def _strip_attrs(src, toks, a, b):
    """skip leading outer attributes; return index of first non-attribute token"""
    k = a
    while k < b and L.tok_text(src, toks[k]) == '#':
        j = k + 1
        if L.tok_text(src, toks[j]) == '!': j += 1
        k = L.match_close(src, toks, j) + 1
    return k


_VIS = ('pub',)


def _header(src, toks, a, b):
    """(kind, name, idx_of_kind_token) of item spanning toks[a:b] (attrs already stripped)"""
    k = a
    if L.tok_text(src, toks[k]) == 'pub':
        k += 1
        if L.tok_text(src, toks[k]) == '(':
            k = L.match_close(src, toks, k) + 1
    while k + 1 < b:
        t, nxt = L.tok_text(src, toks[k]), L.tok_text(src, toks[k + 1])
        if t in ('async', 'unsafe', 'default') and toks[k][0] == 'ident':
            k += 1
        elif t == 'extern' and toks[k + 1][0] == 'str':
            k += 2
        elif t == 'const' and nxt in ('fn', 'unsafe', 'async', 'extern'):
            k += 1
        else:
            break
    kw = L.tok_text(src, toks[k])
    if kw in ('fn', 'struct', 'enum', 'const', 'static', 'type', 'trait', 'mod', 'union', 'use', 'macro_rules'):
        name = L.tok_text(src, toks[k + 1]) if k + 1 < b else ''
        if kw == 'static' and name == 'mut':
            name = L.tok_text(src, toks[k + 2])
        return kw, name, k
    if kw == 'impl':
        # impl<..> [Trait for] Type<..> [where ..] {
        j = k + 1
        if L.tok_text(src, toks[j]) == '<':
            depth = 0
            while True:
                t = L.tok_text(src, toks[j])
                if t == '<': depth += 1
                elif t == '>':
                    depth -= 1
                    if depth == 0: j += 1; break
                j += 1
        # collect path idents until `{` or `where`; self type = ident after `for` if present else first path's last ident before `<`
        names = []
        trait = None
        depth = 0
        cur = []
        while j < b:
            t = L.tok_text(src, toks[j])
            if depth == 0 and t in ('{', 'where'): break
            if t == '<': depth += 1
            elif t == '>': depth -= 1
            elif depth == 0 and t == 'for':
                trait = cur[-1] if cur else None; cur = []
            elif depth == 0 and toks[j][0] == 'ident':
                cur.append(t)
            j += 1
        self_ty = cur[-1] if cur else ''
        return 'impl', (self_ty if trait is None else trait + ' for ' + self_ty), k
    return kw, '', k


def _find_in_range(src, toks, lo, hi, want_kind, want_name):
    for a, b in _top_level_items(src, toks, lo, hi):
        a2 = _strip_attrs(src, toks, a, b)
        if a2 >= b: continue
        kind, name, kidx = _header(src, toks, a2, b)
        if kind == want_kind and name == want_name:
            return a, a2, b, kidx
    return None


def find_item(repo, spec):
    """spec: {file, kind, name, [impl], [mod]}"""
    rel = spec['file']
    src = read_source(repo, rel)
    toks = L.code_tokens(src)
    lo, hi = 0, len(toks)
    owner = None
    for modname in spec.get('mod', '').split('::') if spec.get('mod') else []:
        r = _find_in_range(src, toks, lo, hi, 'mod', modname)
        if not r: raise Undecided('mod %s not found in %s' % (modname, rel))
        a, a2, b, kidx = r
        ob = next(j for j in range(kidx, b) if L.tok_text(src, toks[j]) == '{')
        lo, hi = ob + 1, L.match_close(src, toks, ob)
    if spec.get('impl'):
        owner = spec['impl']
        found = None
        # several impl blocks may exist for the same type: search all
        for a, b in _top_level_items(src, toks, lo, hi):
            a2 = _strip_attrs(src, toks, a, b)
            if a2 >= b: continue
            kind, name, kidx = _header(src, toks, a2, b)
            if kind == 'impl' and name == owner:
                ob = next(j for j in range(kidx, b) if L.tok_text(src, toks[j]) == '{')
                r = _find_in_range(src, toks, ob + 1, L.match_close(src, toks, ob), spec['kind'], spec['name'])
                if r:
                    found = r; break
        if not found:
            raise Undecided('%s %s::%s not found in %s' % (spec['kind'], owner, spec['name'], rel))
        a, a2, b, kidx = found
    else:
        r = _find_in_range(src, toks, lo, hi, spec['kind'], spec['name'])
        if not r: raise Undecided('%s %s not found in %s' % (spec['kind'], spec['name'], rel))
        a, a2, b, kidx = r
    start = toks[a2][1] if spec.get('drop_attrs', True) else toks[a][1]
    end = toks[b - 1][2]
    it = Item(rel, src, start, end, spec['kind'], spec['name'], owner)
    if a2 != a and spec.get('drop_attrs', True):
        it.dropped.append('attrs: ' + ' '.join(src[toks[a][1]:toks[a2][1]].split()))
    return it


# ---------------------------------------------------------------------------------------------
# structure of a fn text (after rewrite rules): signature pieces, body, loops
# ---------------------------------------------------------------------------------------------

class FnShape:
    pass


def fn_shape(text):
    toks = L.code_tokens(text)
    sh = FnShape()
    k = next((i for i, t in enumerate(toks) if L.tok_text(text, t) == 'fn'), None)
    if k is None: raise Undecided('no fn keyword')
    sh.fn_kw = toks[k][1]
    # params: first '(' at angle depth 0 after name (generics may contain parens in Fn(..) bounds)
    j = k + 2
    if L.tok_text(text, toks[j]) == '<':
        depth = 0
        while True:
            t = L.tok_text(text, toks[j])
            if t == '<': depth += 1
            elif t == '>' and L.tok_text(text, toks[j - 1]) != '-':
                depth -= 1
                if depth == 0: j += 1; break
            elif t == '(':
                j = L.match_close(text, toks, j)
            j += 1
    if L.tok_text(text, toks[j]) != '(':
        raise Undecided('cannot find parameter list')
    pc = L.match_close(text, toks, j)
    sh.params = (toks[j][1], toks[pc][2])
    # return type: `->` ... up to `where` or `{` at depth 0
    j = pc + 1
    sh.ret = None
    ret_start = None
    if L.tok_text(text, toks[j]) == '-' and L.tok_text(text, toks[j + 1]) == '>':
        ret_start = j + 2
        j = ret_start
    body_open = None
    while j < len(toks):
        t = L.tok_text(text, toks[j])
        if t in ('(', '['):
            j = L.match_close(text, toks, j) + 1; continue
        if t == '{':
            body_open = j; break
        if t == 'where' and toks[j][0] == 'ident':
            if ret_start is not None and sh.ret is None:
                sh.ret = (toks[ret_start][1], toks[j - 1][2])
            # skip to body
        j += 1
    if body_open is None: raise Undecided('fn has no body')
    if ret_start is not None and sh.ret is None:
        sh.ret = (toks[ret_start][1], toks[body_open - 1][2])
    sh.where_kw = next((toks[i][1] for i in range(pc + 1, body_open)
                        if toks[i][0] == 'ident' and L.tok_text(text, toks[i]) == 'where'), None)
    bc = L.match_close(text, toks, body_open)
    sh.body_open = toks[body_open][1]
    sh.body_close = toks[bc][1]
    sh.sig_end = toks[body_open - 1][2]   # end of last signature token
    # loops in textual order inside the body
    sh.loops = []
    j = body_open + 1
    while j < bc:
        kind, s, e = toks[j]
        t = text[s:e]
        if kind == 'ident' and t in ('for', 'while', 'loop'):
            # skip `for<'a>` HRTB
            if t == 'for' and L.tok_text(text, toks[j + 1]) == '<':
                j += 1; continue
            q = j + 1
            while q < bc:
                tq = L.tok_text(text, toks[q])
                if tq in ('(', '['):
                    q = L.match_close(text, toks, q) + 1; continue
                if tq == '{': break
                q += 1
            sh.loops.append((s, toks[q][1]))   # (keyword pos, body `{` pos)
        j += 1
    return sh
