"""./check --selftest : tool availability + extractor / rule unit tests on synthetic text (seconds, offline)."""
import os
import shutil
import subprocess
import tempfile

from . import extract as X
from . import rules as R
from . import rustlex as L

SAMPLE = r'''
use std::fmt;
/// doc
#[derive(Debug)]
pub struct S<'a> { a: u32, pub(crate) b: &'a str, c: Vec<(u8, char)> }
impl<'a> S<'a> {
    #[inline]
    pub fn f(&self, x: usize) -> Option<usize> where 'a: 'a {
        let s = "braces } in { string"; let c = '}'; // } comment
        for i in 0..x { if i > 2 { return Some(i); } }
        while let Some(_) = None::<u8> { break; }
        self.c.get(x).is_some_and(|e| e.0 > 1).then_some(x)
    }
}
impl fmt::Display for S<'_> { fn fmt(&self, f: &mut fmt::Formatter<'_>) -> fmt::Result { write!(f, "{}", self.a) } }
fn free(a: u32) -> u32 { if let Some(b) = Some(a) && b > 1 { return b; } a }
'''


def run():
    ok = True

    def check(cond, what):
        nonlocal ok
        print(('ok   ' if cond else 'FAIL ') + what)
        ok = ok and cond
    for tool in ('verus', 'cargo', 'rsync'):
        check(shutil.which(tool) is not None, 'tool on PATH: ' + tool)
    d = tempfile.mkdtemp(prefix='vp_selftest_', dir=os.path.join(os.path.dirname(os.path.dirname(os.path.abspath(__file__))), 'build') if os.path.isdir(os.path.join(os.path.dirname(os.path.dirname(os.path.abspath(__file__))), 'build')) else None)
    try:
        os.makedirs(os.path.join(d, 'src'))
        open(os.path.join(d, 'src', 'a.rs'), 'w').write(SAMPLE)
        it = X.find_item(d, {'file': 'src/a.rs', 'kind': 'fn', 'impl': 'S', 'name': 'f'})
        check(it.raw.startswith('pub fn f') and it.raw.rstrip().endswith('}'), 'extract impl fn (attrs dropped, braces in strings/chars/comments ignored)')
        sh = X.fn_shape(it.text)
        check(len(sh.loops) == 2 and it.text[sh.ret[0]:sh.ret[1]] == 'Option<usize>', 'fn shape: return type and 2 loops')
        st = X.find_item(d, {'file': 'src/a.rs', 'kind': 'struct', 'name': 'S'})
        new, n, dropped = R.RULES['struct-fields'](st.raw, keep=['a', 'c'])
        check('pub a: u32' in new and 'pub c: Vec<(u8, char)>' in new and dropped == ['b'], 'rule struct-fields projects and publishes fields')
        tr = X.find_item(d, {'file': 'src/a.rs', 'kind': 'fn', 'impl': 'Display for S', 'name': 'fmt'})
        check('write!' in tr.raw, 'extract fn of a trait impl')
        fr = X.find_item(d, {'file': 'src/a.rs', 'kind': 'fn', 'name': 'free'})
        t2, n2 = R.RULES['letchain-nest'](fr.raw)
        check(n2 == 1 and 'if let Some(b) = Some(a) { if b > 1' in t2, 'rule letchain-nest')
        t3, n3 = R.RULES['is-some-and'](it.raw)
        check(n3 == 1 and 'match self.c.get(x) { Some(e) => e.0 > 1, None => false }' in t3, 'rule is-some-and (structural)')
        try:
            X.find_item(d, {'file': 'src/a.rs', 'kind': 'fn', 'impl': 'S', 'name': 'missing'})
            check(False, 'lost item raises Undecided')
        except X.Undecided:
            check(True, 'lost item raises Undecided (exit 2, never an alarm)')
        v = os.path.join(d, 'v.rs')
        open(v, 'w').write('use vstd::prelude::*;\nverus!{ fn f(x: u8) -> (r: u8) requires x < 255 ensures r == x + 1 { x + 1 }\n'
                           'proof fn bad() ensures false {} }\nfn main(){}\n')
        p = subprocess.run(['verus', '--edition', '2024', 'v.rs', '--output-json'], cwd=d, capture_output=True, text=True)
        check('"verified": 1' in p.stdout and '"errors": 1' in p.stdout, 'verus verifies a true contract and rejects `ensures false`')
    finally:
        shutil.rmtree(d, ignore_errors=True)
    return ok
