"""Property-level orchestration: units -> Verus -> verdicts -> replay -> evidence."""
import concurrent.futures as cf
import hashlib
import importlib.util
import json
import os
import re
import shutil
import subprocess
import sys
import time

from . import assemble as A
from . import verus as V
from . import evidence as E
from . import rules as R
from .extract import Undecided

VERIF = A.VERIF
BUILD = os.environ.get('VERIF_BUILD') or os.path.join(VERIF, 'build')
REPLAYS = os.environ.get('VERIF_REPLAYS_DIR') or os.path.join(VERIF, 'replays')


def load_props():
    spec = importlib.util.spec_from_file_location('props', os.path.join(VERIF, 'props.py'))
    mod = importlib.util.module_from_spec(spec)
    spec.loader.exec_module(mod)
    return mod.PROPS


def load_known():
    p = os.path.join(VERIF, 'known_findings.json')
    if not os.path.exists(p): return []
    return json.load(open(p)).get('findings', [])


def tool_versions():
    out = {}
    try:
        out['verus'] = subprocess.run(['verus', '--version'], capture_output=True, text=True).stdout.split('\n')[1].strip()
    except Exception as e:  # pragma: no cover
        out['verus'] = 'unavailable: %s' % e
    return out


# ---------------------------------------------------------------------------------------------

class UnitRun:
    pass


def run_unit(name, mutate=None, tag='unit', verbose=False):
    """assemble + verify one unit. Raises Undecided for machinery-level problems."""
    unit = A.load_unit(name)
    asm = A.assemble(unit, mutate=mutate)
    bdir = os.path.join(BUILD, name)
    res = V.run(asm, unit, bdir, tag=tag, timeout=unit.get('timeout', 900))
    ur = UnitRun()
    ur.unit, ur.asm, ur.res, ur.name = unit, asm, res, name
    # assumption scan against the allow-list
    ur.assumptions = A.scan_assumptions(asm.text)
    allowed = unit.get('allow', None)
    ur.unlisted = []
    if allowed is not None:
        for kw, line, text in ur.assumptions:
            if not any(re.search(pat, text) for pat in allowed):
                ur.unlisted.append('%s: %s' % (kw, text))
    return ur


def unit_verdict(ur, mutate=False):
    """returns (undecided_reasons, failed_obligations)"""
    res, unit, asm = ur.res, ur.unit, ur.asm
    und = list(res.undecided)
    if ur.unlisted:
        und.append('assumptions not on the unit allow-list: ' + '; '.join(ur.unlisted))
    aborted = res.verified == 0 and res.errors == 0 and bool(res.undecided)   # verus stopped before any query (unsupported construct ...)
    if not mutate and not res.compile_errors and not aborted:
        # vacuity guard: each vac fn must be rejected
        vac_hit = {o.item for o in res.vac_failed}
        for key in asm.vac_ranges:
            if key not in vac_hit:
                und.append('vacuity guard: precondition of %s is contradictory or guard not checked' % key)
        nobl = res.verified + len(res.failed)
        if nobl < unit.get('min_obligations', 1):
            und.append('only %d obligations generated, unit expects >= %d' % (nobl, unit.get('min_obligations', 1)))
        if res.rc != 0 and not res.failed and not res.vac_failed and not und:
            und.append('verus exited %s without classified errors: %s' % (res.rc, res.stderr[-300:]))
    return und, res.failed


def dev_unit(name, verbose, mutant=None):
    try:
        unit = A.load_unit(name)
        mutate = None
        if mutant:
            m = next(m for m in unit.get('mutants', []) if m['name'] == mutant)
            mutate = (m['item'], m['pattern'], m['repl'])
        ur = run_unit(name, mutate=mutate, tag='unit' if not mutant else 'mut_' + mutant)
    except Undecided as e:
        print('UNDECIDED unit=%s reason=%s' % (name, e)); return 2
    res = ur.res
    print('unit %s: verified=%d errors=%d wall=%.1fs smt=%dms file=%s' % (name, res.verified, res.errors, res.wall, res.smt_ms, res.path))
    und, failed = unit_verdict(ur, mutate=bool(mutant))
    for o in failed:
        print('FAILED ', o.name, '(line %s)' % o.line)
        if verbose: print(o.rendered)
    for o in res.vac_failed:
        if verbose: print('vac-ok ', o.item)
    for u in und:
        print('UNDECIDED', u)
    if verbose:
        seen = set()
        for m, r in res.compile_errors:
            if m not in seen:
                seen.add(m); print(r)
        for line in res.stderr.split('\n'):
            if line.strip() and not line.startswith('{'): print(line)
    return 1 if failed else (2 if und else 0)


# ---------------------------------------------------------------------------------------------

def _matches_filter(o, flt):
    if not flt: return True
    return any(re.search(p, o.name) for p in flt)


def _known_match(prop, o, known):
    for k in known:
        if k.get('property') == prop and k.get('status') == 'open' and re.search(k['obligation'], o.name):
            return k
    return None


def write_replay(prop, unit, o, ur, witness=None):
    os.makedirs(REPLAYS, exist_ok=True)
    h = hashlib.sha256(o.name.encode()).hexdigest()[:10]
    path = os.path.join(REPLAYS, '%s-%s-%s.json' % (prop, unit, h))
    it = ur.asm.items.get(o.item)
    doc = {
        'property': prop, 'unit': unit, 'obligation': o.name, 'message': o.msg,
        'function': o.item,
        'source': ({'file': it.file, 'lines': [it.line_start, it.line_end], 'sha256': it.sha256} if it else None),
        'assembled_file': ur.res.path, 'assembled_line': o.line,
        'verifier': 'verus', 'verifier_cmd': ur.res.cmd, 'verifier_output': o.rendered,
        'failing_input': witness,
        'how_to_replay': ('./check %s --replay %s' % (prop, path)),
    }
    with open(path, 'w') as f:
        json.dump(doc, f, indent=1, ensure_ascii=False)
    return path


def find_witness(prop, pcfg, o, seed):
    """try to turn a failed obligation into a concrete failing input on the real code"""
    ce = pcfg.get('counterexample_engine')
    if ce and re.search(ce['for'], o.name):
        try:
            from . import engines
            r = engines.run_kani(ce, prop, 'thorough', seed)
            for f in r.get('failed', []):
                if f.get('witness'): return f['witness']
        except Exception as e:  # the counterexample search decides nothing
            print('  (counterexample search failed: %s)' % str(e)[:200])
    for rp in pcfg.get('replays', []):
        if re.search(rp['for'], o.name):
            try:
                from . import engines
                w = {'driver': rp['driver'], 'bin': rp.get('bin', 'replay'), 'args': rp.get('args', {}), 'history': rp.get('history', ''), 'target': rp.get('target', 'replay-target'), 'features': rp.get('features'), 'panic_is_violation': rp.get('panic_is_violation', True)}
                rr = engines.replay_witness(w)
                w['replayed_on_real_code'] = rr
                if rr.get('reproduced'):
                    m = re.search(r'FOUND hex=([0-9a-f]*)', rr.get('output', ''))
                    if m:   # a search found a concrete input: record it so that the replay is direct
                        w['args'] = {'mode': 'hex', 'text': m.group(1)}
                    return w
            except Exception as e:
                print('  (replay driver failed: %s)' % str(e)[:200])
    w = pcfg.get('witness')
    if not w: return None
    try:
        from . import witness as W
        return W.search(w, o.name, seed)
    except Exception as e:  # the witness search decides nothing; a failure here is not a verdict
        return None


def check_property(prop, tier, seed, verbose=False):
    t0 = time.time()
    props = load_props()
    if prop not in props:
        print('UNDECIDED property=%s reason=not claimed by this machinery' % prop); return 2
    pcfg = props[prop]
    known = load_known()
    violations, known_hits, undecided = [], [], []
    runs = []
    cover = {'obligations': 0, 'discharged': 0, 'checker_cmd': '', 'trusted_base': [], 'samples': [],
             'functions': [], 'units': [], 'extraction_rewrites': [], 'bounded': [], 'solver_ms': 0}
    assumptions = list(pcfg.get('assumptions', []))
    cmds = []
    unit_cfgs = pcfg['units']
    with cf.ThreadPoolExecutor(max_workers=4) as ex:
        futs = {}
        for uc in unit_cfgs:
            futs[ex.submit(_safe_run_unit, uc['unit'])] = uc
        for fu, uc in futs.items():
            ur, err = fu.result()
            if err:
                undecided.append('%s: %s' % (uc['unit'], err)); continue
            runs.append((uc, ur))
    # known findings of this property may be pinned by other units: they PROVE that the code still behaves
    # exactly as recorded in the finding; if a pin fails, nothing is known any more and every failure counts
    pins_ok = True
    for uc, ur in runs:
        if uc.get('role') == 'pin':
            und_p, failed_p = unit_verdict(ur)
            if und_p or failed_p: pins_ok = False
    if not pins_ok:
        known = [k for k in known if not k.get('pinned')]
        cover['known_finding_pins'] = 'FAILED: pinned known findings are not applied'
    for uc, ur in runs:
        und, failed = unit_verdict(ur)
        undecided += ['%s: %s' % (uc['unit'], u) for u in und]
        res = ur.res
        if uc.get('role') == 'pin':
            # a pin unit belongs to another property: its failures are reported there, not here
            cover['units'].append({'unit': uc['unit'], 'role': 'pin for known findings', 'verified_queries': ur.res.verified,
                                   'failed': [o.name for o in failed]})
            cover['obligations'] += ur.res.verified + len(failed); cover['discharged'] += ur.res.verified
            cmds.append(ur.res.cmd + '   (cwd build/%s, pin)' % uc['unit'])
            continue
        relevant = [o for o in failed if _matches_filter(o, uc.get('labels'))]
        others = [o for o in failed if o not in relevant]
        cmds.append(res.cmd + '   (cwd build/%s)' % uc['unit'])
        cover['obligations'] += res.verified + len(relevant)     # failures outside this property's label filter belong to the other property that lists the unit
        cover['discharged'] += res.verified
        cover['solver_ms'] += res.smt_ms
        cover['units'].append({'unit': uc['unit'], 'verified_queries': res.verified, 'failed': [o.name for o in failed],
                               'vacuity_guards_rejected': len({o.item for o in res.vac_failed}),
                               'wall_s': round(res.wall, 2), 'smt_ms': res.smt_ms, 'assembled_sha256': hashlib.sha256(ur.asm.text.encode()).hexdigest()})
        for key, it in ur.asm.items.items():
            fr = {'function': it.qual, 'kind': it.kind, 'file': it.file, 'lines': [it.line_start, it.line_end], 'sha256': it.sha256,
                  'backend': 'verus/z3', 'rewrites': it.rewrites, 'dropped': it.dropped,
                  'verdict': 'failed' if any(o.item == key for o in failed) else 'verified'}
            tm = [f for f in res.functions if f['function'].split('::')[-1] == it.name]
            if tm:
                fr['time_us'] = sum(f['time_us'] for f in tm); fr['rlimit'] = sum(f['rlimit'] for f in tm)
            cover['functions'].append(fr)
            for rname, n in it.rewrites:
                cover['extraction_rewrites'].append('%s x%d in %s (%s)' % (rname, n, it.qual, (getattr(ur.asm, 'rule_docs', {}).get(rname) or (R.RULES[rname].__doc__ if rname in R.RULES else '') or '').strip().split('\n')[0]))
        for kw, line, text in ur.assumptions:
            assumptions.append('[%s] %s: %s' % (uc['unit'], kw, text[:200]))
        for s in ur.unit.get('samples', []):
            cover['samples'].append(s)
        cover['trusted_base'] += ['[%s] %s' % (uc['unit'], t) for t in ur.unit.get('trusted', [])]
        for o in relevant:
            k = _known_match(prop, o, known)
            if k: known_hits.append((k, o))
            else: violations.append((uc['unit'], o, ur))
        for o in others:
            cover.setdefault('failed_outside_property_scope', []).append(o.name)
    # extra engines (kani, rustc) registered for the property
    for eng in pcfg.get('engines', []):
        if eng.get('tier', 'quick') == 'thorough' and tier != 'thorough':
            continue
        try:
            from . import engines
            r = engines.run(eng, prop, tier, seed)
        except Undecided as e:
            undecided.append('%s: %s' % (eng['kind'], e)); continue
        cover['obligations'] += r['obligations']; cover['discharged'] += r['discharged']
        undecided += ['%s: %s' % (eng['kind'], u) for u in r.get('undecided', [])]
        cmds.append(r['cmd'])
        cover['units'].append(r['summary'])
        cover['samples'] += r.get('samples', [])
        cover['bounded'] += r.get('bounded', [])
        assumptions += r.get('assumptions', [])
        for f in r.get('failed', []):
            k = next((k for k in known if k.get('property') == prop and k.get('status') == 'open' and re.search(k['obligation'], f['name'])), None)
            if k: known_hits.append((k, f))
            else: violations.append((eng['kind'], f, None))
    # thorough tier: mutant self-test (each deliberately broken extraction must fail its obligation)
    if tier == 'thorough' and not undecided:
        mres = run_mutants([uc['unit'] for uc in unit_cfgs])
        cover['mutants'] = mres['summary']
        undecided += mres['undecided']
    cover['checker_cmd'] = ' && '.join(cmds) if cmds else 'none'
    cover['trusted_base'] += pcfg.get('trusted', []) + ['verus %s' % tool_versions().get('verus', ''), 'z3 (bundled with verus)', 'rustc front end of verus']
    cover['not_covered'] = pcfg.get('not_covered', [])
    if not cover['samples']:
        cover['samples'] = [u['unit'] for u in cover['units']]
    rc = 0
    lines = []
    seen_k = []
    for k, o in known_hits:
        if k['what'] not in seen_k:
            seen_k.append(k['what'])
            lines.append('KNOWN-FINDING: property=%s %s' % (prop, k['what']))
    if known_hits:
        # obligations matched by an OPEN known finding are not claimed: they are listed, and the counts below
        # cover the obligations that are required to hold on this tree
        cover['known_finding_obligations_failed'] = sorted({(o.name if hasattr(o, 'name') else o['name']) for _, o in known_hits})
        cover['obligations'] -= len(known_hits)
    for unit, o, ur in violations:
        if ur is not None:
            w = find_witness(prop, pcfg, o, seed)
            path = write_replay(prop, unit, o, ur, w)
        else:
            w = o.get('witness'); path = o['replay']
        lines.append('VIOLATION property=%s replay=%s%s' % (prop, path, '' if w else ' no-failing-input-found'))
        lines.append('  obligation: %s' % (o.name if ur is not None else o['name']))
        rc = 1
    if rc == 0 and not undecided:
        # the bounded witness searches run even though every obligation was discharged: all of them in the thorough tier,
        # those marked 'quick' (seconds once built) in the quick tier too. They are BOUNDED (listed under coverage.bounded,
        # never counted as discharged) and can only add a violation with a concrete input replayed on the real code.
        for rp in pcfg.get('replays', []):
            if not (rp.get('on_undecided') or rp.get('thorough') or rp.get('quick')): continue
            if tier != 'thorough' and not rp.get('quick'): continue
            try:
                from . import engines
                w = {'driver': rp['driver'], 'bin': rp.get('bin', 'replay'), 'args': rp.get('args', {}), 'history': rp.get('history', ''), 'target': rp.get('target', 'replay-target'), 'features': rp.get('features'), 'panic_is_violation': rp.get('panic_is_violation', True)}
                rr = engines.replay_witness(w)
                last = (rr.get('output', '').strip().split('\n') or [''])[-1][:300]
                cover['bounded'].append({'search': rp['driver'], 'args': rp.get('args', {}), 'result': last, 'hit': bool(rr.get('reproduced'))})
                # a search may itself pin OPEN known findings (it prints `KNOWN ...` for them and goes on): each such line must be
                # described by an open entry of known_findings.json (witness_pattern), and is reported as KNOWN-FINDING
                for kline in [l for l in rr.get('output', '').split('\n') if l.startswith(('KNOWN ', 'KNOWN-FINDING ', 'KNOWN-OPEN '))]:
                    k = next((k for k in known if k.get('property') == prop and k.get('status') == 'open' and k.get('witness_pattern')
                              and re.search(k['obligation'], 'bounded-search:' + rp['driver']) and re.search(k['witness_pattern'], kline)), None)
                    if k:
                        if ('KNOWN-FINDING: property=%s %s' % (prop, k['what'])) not in lines:
                            lines.append('KNOWN-FINDING: property=%s %s' % (prop, k['what']))
                    else:
                        lines.append('VIOLATION property=%s replay=%s' % (prop, os.path.join(REPLAYS, '%s-bounded-search.json' % prop)))
                        lines.append('  obligation: bounded-search:%s reports a hit as known that no open entry of known_findings.json describes: %s' % (rp['driver'], kline[:200]))
                        os.makedirs(REPLAYS, exist_ok=True)
                        json.dump({'property': prop, 'obligation': 'bounded-search:%s (unlisted known hit)' % rp['driver'], 'verifier': 'bounded search on the real code',
                                   'verifier_output': kline, 'failing_input': w}, open(os.path.join(REPLAYS, '%s-bounded-search.json' % prop), 'w'), indent=1, ensure_ascii=False)
                        violations.append((rp['driver'], None, None)); rc = 1
                        break
                if rr.get('reproduced'):
                    # every reported hit is compared with the OPEN known findings (identified by a pattern over the
                    # concrete witness); only hits that no listed finding describes are violations
                    hits = [l for l in rr.get('output', '').split('\n') if l.startswith('FOUND')]
                    unlisted = []
                    for hline in hits:
                        k = next((k for k in known if k.get('property') == prop and k.get('status') == 'open' and k.get('witness_pattern')
                                  and re.search(k['obligation'], 'bounded-search:' + rp['driver']) and re.search(k['witness_pattern'], hline)), None)
                        if k:
                            if ('KNOWN-FINDING: property=%s %s' % (prop, k['what'])) not in lines:
                                lines.append('KNOWN-FINDING: property=%s %s' % (prop, k['what']))
                            ev_known = cover.setdefault('known_finding_witnesses', []); ev_known.append(hline[:200])
                        else:
                            unlisted.append(hline)
                    if hits and not unlisted:
                        cover['bounded'][-1]['hit'] = 'known findings only'
                        continue
                    w['replayed_on_real_code'] = rr
                    m_ = re.search(r'FOUND hex=([0-9a-f]*)', rr.get('output', ''))
                    if m_: w['args'] = {'mode': 'hex', 'text': m_.group(1)}
                    os.makedirs(REPLAYS, exist_ok=True)
                    path = os.path.join(REPLAYS, '%s-bounded-search.json' % prop)
                    json.dump({'property': prop, 'obligation': 'bounded-search:%s (all contract obligations discharged: the failing input lies outside the functions under contract)' % rp['driver'],
                               'verifier': 'bounded search on the real code', 'verifier_output': rr.get('output', '')[-6000:], 'failing_input': w,
                               'how_to_replay': './check %s --replay %s' % (prop, path)}, open(path, 'w'), indent=1, ensure_ascii=False)
                    lines.append('VIOLATION property=%s replay=%s' % (prop, path))
                    lines.append('  obligation: bounded-search:%s found a failing input outside the functions under contract' % rp['driver'])
                    lines.append('  ' + last)
                    violations.append((rp['driver'], None, None))
                    rc = 1
            except Exception as e:
                lines.append('  (bounded search failed: %s)' % str(e)[:200])
    if undecided and rc == 0:
        # the proof machinery cannot decide (unsupported construct, lost anchor, rlimit ...). A refutation that
        # replays on the real code is sound whatever the proof status: try the property's bounded witness search.
        for rp in pcfg.get('replays', []):
            if not rp.get('on_undecided'): continue
            try:
                from . import engines
                w = {'driver': rp['driver'], 'bin': rp.get('bin', 'replay'), 'args': rp.get('args', {}), 'history': rp.get('history', ''), 'target': rp.get('target', 'replay-target'), 'features': rp.get('features'), 'panic_is_violation': rp.get('panic_is_violation', True)}
                rr = engines.replay_witness(w)
                w['replayed_on_real_code'] = rr
                if rr.get('reproduced'):
                    m_ = re.search(r'FOUND hex=([0-9a-f]*)', rr.get('output', ''))
                    if m_: w['args'] = {'mode': 'hex', 'text': m_.group(1)}
                    os.makedirs(REPLAYS, exist_ok=True)
                    path = os.path.join(REPLAYS, '%s-bounded-search.json' % prop)
                    json.dump({'property': prop, 'obligation': 'bounded-search:%s (contract units undecided: %s)' % (rp['driver'], '; '.join(undecided)[:400]),
                               'verifier': 'none (units undecided); refutation by bounded search on the real code',
                               'verifier_output': rr.get('output', ''), 'failing_input': w,
                               'how_to_replay': './check %s --replay %s' % (prop, path)}, open(path, 'w'), indent=1, ensure_ascii=False)
                    lines.append('VIOLATION property=%s replay=%s' % (prop, path))
                    lines.append('  obligation: bounded-search:%s found a failing input while the contract units are undecided' % rp['driver'])
                    lines.append('  ' + rr.get('output', '').strip().split('\n')[0][:300])
                    violations.append((rp['driver'], None, None))
                    rc = 1
                    break
            except Exception as e:
                lines.append('  (bounded search failed: %s)' % str(e)[:200])
    if undecided and rc == 0:
        rc = 2
        for u in undecided: lines.append('UNDECIDED property=%s reason=%s' % (prop, u))
    level = pcfg.get('level', 'proof')
    # every KNOWN-FINDING line the check printed (failed known obligations AND known hits of the bounded searches)
    _kf = [k['what'] for k, _ in known_hits]
    for l in lines:
        if l.startswith('KNOWN-FINDING: property=%s ' % prop):
            w_ = l[len('KNOWN-FINDING: property=%s ' % prop):]
            if w_ not in _kf: _kf.append(w_)
    ev_extra = {'undecided': undecided, 'known_findings_hit': _kf}
    if rc == 2:
        # nothing was decided: say so in the evidence rather than leaving a stale file
        cover['explanation'] = 'UNDECIDED: ' + '; '.join(undecided)
    E.write(prop, tier, seed, level, cover, assumptions, time.time() - t0, len(violations), ev_extra)
    for l in lines: print(l)
    if rc == 0:
        print('OK property=%s tier=%s obligations=%d discharged=%d wall=%.1fs' % (prop, tier, cover['obligations'], cover['discharged'], time.time() - t0))
    return rc


def _safe_run_unit(name):
    try:
        return run_unit(name), None
    except Undecided as e:
        return None, str(e)


def run_mutants(units):
    """every mutant = property-breaking edit of the extracted real text; its named obligation must fail"""
    jobs = []
    for name in units:
        unit = A.load_unit(name)
        for m in unit.get('mutants', []):
            jobs.append((name, m))
    summary, undecided = [], []

    # several properties list the same unit: a mutant verdict is a function of the assembled (mutated) text, so it is cached by the
    # hash of that text (build/mutant_cache.json) - the same text is never sent to the verifier twice
    cache_path = os.path.join(BUILD, 'mutant_cache.json')
    try:
        cache = json.load(open(cache_path))
    except Exception:
        cache = {}
    import threading
    lock = threading.Lock()

    def one(job):
        name, m = job
        try:
            unit = A.load_unit(name)
            asm = A.assemble(unit, mutate=(m['item'], m['pattern'], m['repl']))
            key = hashlib.sha256((asm.text + '|' + str(unit.get('rlimit')) + str(unit.get('verus_args'))).encode()).hexdigest()
            with lock:
                c = cache.get(key)
            if c is not None:
                return name, m, c['failed'], c['undecided'], None
            ur = run_unit(name, mutate=(m['item'], m['pattern'], m['repl']), tag='mut_' + m['name'])
        except Undecided as e:
            return name, m, None, None, str(e)
        failed = [o.name for o in ur.res.failed]
        with lock:
            cache[key] = {'failed': failed, 'undecided': ur.res.undecided[:2], 'unit': name, 'mutant': m['name']}
        return name, m, failed, ur.res.undecided[:2], None
    with cf.ThreadPoolExecutor(max_workers=6) as ex:
        for name, m, failed, und_m, err in ex.map(one, jobs):
            if err:
                undecided.append('mutant %s/%s: %s' % (name, m['name'], err)); continue
            hit = [f for f in failed if re.search(m['expect'], f)]
            summary.append({'unit': name, 'mutant': m['name'], 'killed_by': hit[:3], 'all_failed': len(failed)})
            if not hit:
                undecided.append('mutant %s/%s survived (contract too weak): failed=%s undecided=%s' % (name, m['name'], failed[:3], und_m))
    try:
        os.makedirs(BUILD, exist_ok=True)
        json.dump(cache, open(cache_path, 'w'))
    except Exception:
        pass
    return {'summary': summary, 'undecided': undecided}


def replay(prop, path):
    doc = json.load(open(path))
    print('replay of %s: obligation %s' % (prop, doc.get('obligation')))
    print(doc.get('verifier_output', ''))
    w = doc.get('failing_input')
    if w:
        from . import witness as W
        return W.replay(w)
    print('no concrete input recorded (no-failing-input-found); re-running the check')
    return check_property(prop, 'quick', 0)


def selftest():
    ok = True
    print('verus:', tool_versions().get('verus'))
    try:
        from . import selftest as S
        ok = S.run()
    except ImportError:
        pass
    return 0 if ok else 1
