"""unit = template (hand-written *specification*: shims, spec fns, lemmas) + real items extracted from
/repo on every run, rewritten only by catalogue rules, with the contract overlay inserted."""
import importlib.util
import os
import re
from . import extract as X
from . import rules as R
from .extract import Undecided

VERIF = os.path.dirname(os.path.dirname(os.path.abspath(__file__)))
REPO = os.environ.get('VERIF_REPO', '/repo')
LABEL = re.compile(r'/\*@([\w.\-:]+)\*/')


def load_unit(name):
    path = os.path.join(VERIF, 'units', name, 'unit.py')
    if not os.path.exists(path):
        raise Undecided('unit %s has no unit.py' % name)
    spec = importlib.util.spec_from_file_location('unit_' + name, path)
    mod = importlib.util.module_from_spec(spec)
    spec.loader.exec_module(mod)
    u = dict(mod.UNIT)
    u['name'] = name
    u['dir'] = os.path.dirname(path)
    return u


def _insertions(text, edits):
    """edits: list of (pos, end, new) applied back to front"""
    for pos, end, new in sorted(edits, key=lambda e: (e[0], e[1]), reverse=True):
        text = text[:pos] + new + text[end:]
    return text


def _vac_fn(item_text, sh, name, requires):
    """`proof fn vac_<name>(same params) requires <requires> ensures false {}` — must be REJECTED"""
    head = item_text[sh.fn_kw:sh.params[0]]          # `fn name<generics>`
    generics = head[head.find(name) + len(name):] if name in head else ''
    params = item_text[sh.params[0]:sh.params[1]]
    params = re.sub(r'&\s*mut\s+', '&', params)
    params = re.sub(r'(?<![\w&])mut\s+', '', params)
    where = ''
    if sh.where_kw is not None:
        where = ' ' + item_text[sh.where_kw:sh.sig_end]
    req = re.sub(r'\bold\(([^()]*)\)', r'\1', requires)
    return '\n#[verifier::spinoff_prover]\npub proof fn vac_%s%s%s%s\n    requires %s\n    ensures false\n{}\n' % (
        name, generics, params, where, req.strip().rstrip(','))


def _slice_item(repo, cfg):
    """statement slice: the text between two anchors inside a real fn, wrapped as a fn whose signature
    (the slice's free variables, type-checked by rustc when Verus compiles the unit) is given in the
    unit. Only the wrapper head/tail are hand-written; the body is the repository's text."""
    src = cfg['src']
    host = X.find_item(repo, src['in'])
    if src.get('from') == 'BODY_START':
        # the slice starts with the first statement of the host fn (so that anything inserted in front of the
        # anchored code is inside the slice too)
        sh0 = X.fn_shape(host.raw)
        a = sh0.body_open + 1
    else:
        ms = list(re.finditer(src['from'], host.raw, flags=re.S))
        if len(ms) != 1:
            raise Undecided('slice anchor `from` /%s/ matched %d times in %s' % (src['from'], len(ms), host.qual))
        a = ms[0].start()
    me = list(re.finditer(src['to'], host.raw[a:], flags=re.S))
    if not me:
        raise Undecided('slice anchor `to` /%s/ not found after `from` in %s' % (src['to'], host.qual))
    b = a + me[0].end()
    full = X.read_source(repo, src['in']['file'])
    it = X.Item(host.file, full, host.start + a, host.start + b, 'fn', src['name'], None)
    it.slice_of = host.qual
    it.raw_slice = it.raw
    it.text = src['head'].rstrip() + ' {\n' + it.raw + '\n' + src.get('tail', '') + '\n}'
    it.dropped.append('slice of %s: everything outside /%s/ .. /%s/' % (host.qual, src['from'], src['to']))
    return it


def build_item(repo, key, cfg, mutate=None, local_rules=None):
    if cfg['src'].get('kind') == 'slice':
        it = _slice_item(repo, cfg)
        if mutate:
            new, n = re.subn(mutate[1], mutate[2], it.text, count=1, flags=re.S)
            if n != 1 or new == it.text:
                raise Undecided('mutant pattern /%s/ does not match %s' % (mutate[1], key))
            it.text = new
            mutate = None
    else:
        it = X.find_item(repo, cfg['src'])
    it.key = key
    if mutate:
        new, n = re.subn(mutate[1], mutate[2], it.raw, count=1, flags=re.S)
        if n != 1 or new == it.raw:
            raise Undecided('mutant pattern /%s/ does not match %s' % (mutate[1], key))
        it.text = new
    it.vac_text = ''
    rules = list(cfg.get('rules', []))
    if it.kind == 'fn' and cfg.get('default_rules', True):
        # desugarings of constructs the verifier rejects, applied wherever they occur (no-ops otherwise), so that a
        # harmless rewrite of the real code into these forms does not make a unit undecided
        named = {(r if isinstance(r, str) else r[0]) for r in rules}
        for dr in ('is-some-and', 'letchain-nest'):
            if dr not in named: rules.append((dr, {'optional': True}))
    if cfg.get('pub', True) and it.kind in ('fn', 'const') and not it.text.lstrip().startswith('pub '):
        rules = rules + ['vis-pub']
    R.apply_rules(it, rules, local_rules)
    if it.kind != 'fn':
        if cfg.get('attrs'):
            it.text = cfg['attrs'] + '\n' + it.text
        return it
    sh = X.fn_shape(it.text)
    edits = []
    if cfg.get('ret'):
        if sh.ret is None:
            raise Undecided('%s: overlay names a result but the fn returns ()' % key)
        a, b = sh.ret
        edits.append((a, b, '(%s: %s)' % (cfg['ret'], it.text[a:b])))
    contract = ''
    if cfg.get('requires'):
        contract += '\n    requires\n        ' + cfg['requires'].strip().rstrip(',') + ','
    if cfg.get('ensures'):
        contract += '\n    ensures\n        ' + cfg['ensures'].strip().rstrip(',') + ','
    if cfg.get('decreases'):
        contract += '\n    decreases ' + cfg['decreases'].strip().rstrip(',') + ','
    if cfg.get('extra_sig'):
        contract += '\n    ' + cfg['extra_sig'].strip()
    if contract:
        edits.append((sh.sig_end, sh.sig_end, contract + '\n'))
    loops = cfg.get('loops', {})
    if loops and max(loops) >= len(sh.loops):
        raise Undecided('%s: overlay addresses loop #%d but the fn has %d loops' % (key, max(loops), len(sh.loops)))
    for i, inv in loops.items():
        pos = sh.loops[i][1]
        edits.append((pos, pos, '\n' + inv.strip() + '\n'))
    for i, nm in cfg.get('iter_names', {}).items():
        # Verus annotation only: `for x in E {` -> `for x in <nm>: E {` names the ghost iterator
        if i >= len(sh.loops):
            raise Undecided('%s: iter_names addresses loop #%d but the fn has %d loops' % (key, i, len(sh.loops)))
        kwpos, bodypos = sh.loops[i]
        head = it.text[kwpos:bodypos]
        m = re.match(r'for\s+.*?\s+in\s+', head, flags=re.S)
        if not m:
            raise Undecided('%s: loop #%d is not a for loop' % (key, i))
        edits.append((kwpos + m.end(), kwpos + m.end(), nm + ': '))
    for anchor, where, txt in cfg.get('proof', []):
        ms = list(re.finditer(anchor, it.text))
        if len(ms) != 1:
            raise Undecided('%s: proof anchor /%s/ matched %d times' % (key, anchor, len(ms)))
        pos = ms[0].start() if where == 'before' else ms[0].end()
        edits.append((pos, pos, '\n' + txt.strip() + '\n'))
    body_first = cfg.get('body_first')
    if body_first:
        edits.append((sh.body_open + 1, sh.body_open + 1, '\n' + body_first.strip() + '\n'))
    new = _insertions(it.text, edits)
    if cfg.get('attrs'):
        new = cfg['attrs'] + '\n' + new
    if cfg.get('requires') and cfg.get('vac', True):
        it.vac_text = _vac_fn(it.text, sh, it.name, cfg['requires'])
    it.text = new
    return it


class Assembled:
    pass


def assemble(unit, repo=None, mutate=None):
    """returns Assembled(text, items, ranges). `mutate`: optional (key, pattern, repl) applied to the
    *extracted raw text* before rules (self-test mutants)."""
    repo = repo or REPO
    if unit.get('template_text') is not None:
        tmpl = unit['template_text']          # generated by the unit from the repository's struct definitions
    else:
        with open(os.path.join(unit['dir'], unit.get('template', 'template.rs')), encoding='utf-8') as f:
            tmpl = f.read()
    local_rules = {}
    for name, pat, repl, doc, *fl in unit.get('extra_rules', []):
        local_rules[name] = R.make_regex_rule(pat, repl, doc, fl[0] if fl else 0)
    items = {}
    for key, cfg in unit['items'].items():
        it = build_item(repo, key, cfg, mutate if (mutate and mutate[0] == key) else None, local_rules)
        items[key] = it
    out_lines = []
    ranges = {}    # key -> (first_line, last_line) 1-based in assembled text
    vac_ranges = {}
    used = set()
    def expand(lines, depth=0):
        out = []
        for line in lines:
            mi = re.match(r'\s*//@@include\s+(\S+)\s*$', line)
            if mi:
                if depth > 4: raise Undecided('//@@include nested too deeply at %s' % mi.group(1))
                ip = os.path.join(VERIF, 'units', mi.group(1))
                if not os.path.exists(ip): raise Undecided('//@@include file missing: %s' % mi.group(1))
                with open(ip, encoding='utf-8') as f:
                    out.extend(expand(f.read().split('\n'), depth + 1))
            else:
                out.append(line)
        return out
    tl = expand(tmpl.split('\n'))
    for line in tl:
        m = re.match(r'\s*//@@\s*(\S+)\s*$', line)
        if not m:
            out_lines.append(line); continue
        key = m.group(1)
        if key not in items:
            raise Undecided('template placeholder %s has no item' % key)
        used.add(key)
        it = items[key]
        first = len(out_lines) + 1
        out_lines.append('// ---- extracted: %s  %s:%d-%d sha256=%s' % (key, it.file, it.line_start, it.line_end, it.sha256[:16]))
        out_lines.extend(it.text.split('\n'))
        ranges[key] = (first, len(out_lines))
        if it.vac_text:
            vfirst = len(out_lines) + 1
            out_lines.extend(it.vac_text.split('\n'))
            vac_ranges[key] = (vfirst, len(out_lines))
    missing = set(items) - used
    if missing:
        raise Undecided('items without template placeholder: %s' % sorted(missing))
    a = Assembled()
    a.text = '\n'.join(out_lines)
    a.items, a.ranges, a.vac_ranges = items, ranges, vac_ranges
    a.rule_docs = {n: (f.__doc__ or '') for n, f in local_rules.items()}
    a.lines = out_lines
    return a


def scan_assumptions(text):
    """every assume / admit / external_body / assume_specification / uninterp / axiom in the assembled file"""
    found = []
    for i, line in enumerate(text.split('\n'), 1):
        s = line.split('//')[0]
        for kw, pat in (('assume', r'\bassume\s*\('), ('admit', r'\badmit\s*\('),
                        ('external_body', r'external_body'), ('assume_specification', r'assume_specification'),
                        ('external', r'verifier::external\b'), ('uninterp', r'\buninterp\b'),
                        ('axiom', r'\baxiom\b'), ('external_fn_specification', r'external_fn_specification'),
                        ('external_type_specification', r'external_type_specification')):
            if re.search(pat, s):
                found.append((kw, i, line.strip()))
    return found
