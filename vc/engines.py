"""Additional back ends: Kani/CBMC on the real crates, rustc's trait solver."""
import hashlib
import json
import os
import re
import shutil
import subprocess
import time

from .extract import Undecided
from .assemble import VERIF, REPO

BUILD = os.environ.get('VERIF_BUILD') or os.path.join(VERIF, 'build')
REPLAYS = os.path.join(VERIF, 'replays')


def _env():
    e = dict(os.environ)
    e['CARGO_NET_OFFLINE'] = 'true'
    e.pop('RUSTFLAGS', None)
    return e


def _prep_crate(src_dir, name):
    """copy the harness crate into build/ with its path dependencies pointed at the repo under test"""
    dst = os.path.join(BUILD, 'crates', name)
    if os.path.exists(dst): shutil.rmtree(dst)
    shutil.copytree(src_dir, dst)
    ct = os.path.join(dst, 'Cargo.toml')
    s = open(ct).read().replace('/repo/', REPO.rstrip('/') + '/')
    open(ct, 'w').write(s)
    lock = os.path.join(REPO, 'Cargo.lock')
    if os.path.exists(lock):
        shutil.copy(lock, os.path.join(dst, 'Cargo.lock'))
    return dst


def parse_playback(out):
    """values of kani::any() in call order, decoded little-endian from the concrete playback test"""
    vals = []
    m = re.search(r'let concrete_vals: Vec<Vec<u8>> = vec!\[(.*?)\];', out, flags=re.S)
    if not m: return None
    for vm in re.finditer(r'vec!\[([0-9, ]*)\]', m.group(1)):
        bs = [int(x) for x in vm.group(1).split(',') if x.strip()]
        vals.append(int.from_bytes(bytes(bs), 'little'))
    return vals


def run_kani(eng, prop, tier, seed):
    crate = _prep_crate(os.path.join(VERIF, 'kani', eng['crate']), 'kani_' + eng['crate'])
    target = os.path.join(BUILD, 'kani-target')
    summary = {'unit': 'kani/' + eng['crate'], 'harnesses': []}
    failed, samples, cmds = [], [], []
    obligations = discharged = 0
    t0 = time.time()
    for h in eng['harnesses']:
        cmd = ['cargo', 'kani', '--harness', h['name'], '-Z', 'concrete-playback', '--concrete-playback=print'] + eng.get('args', [])
        env = _env(); env['CARGO_TARGET_DIR'] = target
        try:
            p = subprocess.run(cmd, cwd=crate, env=env, capture_output=True, text=True, timeout=eng.get('timeout', 1800))
        except subprocess.TimeoutExpired:
            raise Undecided('kani harness %s timed out' % h['name'])
        out = p.stdout + p.stderr
        cmds.append('(cd kani/%s && %s)' % (eng['crate'], ' '.join(cmd)))
        m = re.search(r'\*\* (\d+) of (\d+) failed', out)
        if 'VERIFICATION:- SUCCESSFUL' in out and m:
            n = int(m.group(2))
            obligations += n; discharged += n
            cov = re.findall(r'\*\* (\d+) of (\d+) cover properties satisfied', out)
            summary['harnesses'].append({'harness': h['name'], 'checks': n, 'status': 'SUCCESSFUL', 'covers': cov[0] if cov else None})
            if h.get('covers_required') and (not cov or cov[0][0] != cov[0][1]):
                raise Undecided('kani reachability guard %s: not all cover properties satisfied' % h['name'])
            samples.append('kani %s::%s: %d checks, full-domain symbolic inputs, loop-free => complete' % (eng['crate'], h['name'], n))
        elif 'VERIFICATION:- FAILED' in out and m:
            nf, n = int(m.group(1)), int(m.group(2))
            fc = re.findall(r'Failed Checks: (.*)', out)
            # only the harness's own contract assertion is a property verdict; anything else
            # (unwinding, unsupported construct) is undecided
            own = [c for c in fc if h.get('assert_tag', 'C') in c]
            if not own:
                raise Undecided('kani harness %s failed on non-contract checks: %s' % (h['name'], fc[:3]))
            obligations += n; discharged += n - nf
            vals = parse_playback(out)
            witness = None
            if vals is not None and h.get('params'):
                witness = {'driver': 'kani/' + eng['crate'], 'bin': h.get('replay_bin', 'replay'),
                           'args': dict(zip(h['params'], vals))}
                rr = replay_witness(witness)
                witness['replayed_on_real_code'] = rr
                if rr.get('reproduced') is False:
                    witness = None   # the counterexample does not reproduce on the real code: no input claimed
            os.makedirs(REPLAYS, exist_ok=True)
            rp = os.path.join(REPLAYS, '%s-kani-%s-%s.json' % (prop, eng['crate'], h['name']))
            name = 'kani/%s::%s:%s' % (eng['crate'], h['name'], h.get('label', 'contract'))
            json.dump({'property': prop, 'obligation': name, 'verifier': 'kani/cbmc', 'verifier_cmd': ' '.join(cmd),
                       'failed_checks': fc, 'failing_input': witness,
                       'verifier_output': out[-6000:]}, open(rp, 'w'), indent=1)
            failed.append({'name': name, 'replay': rp, 'witness': witness})
            summary['harnesses'].append({'harness': h['name'], 'checks': n, 'status': 'FAILED', 'failed_checks': fc})
        else:
            raise Undecided('kani harness %s gave no verdict: %s' % (h['name'], out[-500:]))
    summary['wall_s'] = round(time.time() - t0, 1)
    return {'obligations': obligations, 'discharged': discharged, 'cmd': ' && '.join(cmds), 'summary': summary,
            'samples': samples, 'failed': failed,
            'assumptions': ['[kani/%s] Kani 0.68 / CBMC 6.11 and their models of std; machine integers are machine integers' % eng['crate']]}


def replay_witness(w):
    """run the recorded concrete input on the real code (plain cargo build of the driver crate)"""
    crate = _prep_crate(os.path.join(VERIF, w['driver']), 'replay_' + w['driver'].replace('/', '_'))
    env = _env(); env['CARGO_TARGET_DIR'] = os.path.join(BUILD, w.get('target', 'replay-target'))
    args = [str(v) for v in w['args'].values()]
    cmd = ['cargo', 'run', '--offline', '-q'] + (['--features', w['features']] if w.get('features') else []) + ['--bin', w.get('bin', 'replay'), '--'] + args
    try:
        p = subprocess.run(cmd, cwd=crate, env=env, capture_output=True, text=True, timeout=1800)
    except subprocess.TimeoutExpired:
        return {'reproduced': None, 'output': 'timeout'}
    # exit 1 = the driver found / reproduced a violation; exit 101 = the driver itself panicked inside the real code
    # (an uncaught panic of the code under test is a crash on that input)
    # exit 1 = the driver found / reproduced a violation. exit 101 = the driver itself panicked: for in-process drivers that call the
    # code under test directly an uncaught panic IS a crash of that code on that input; for drivers that talk to a server process or run
    # an external binary (`panic_is_violation: False`) a panic of the driver (a timeout unwrap, a broken pipe) proves nothing
    hit = (1, 101) if w.get('panic_is_violation', True) else (1,)
    return {'reproduced': p.returncode in hit, 'rc': p.returncode, 'output': (p.stdout + p.stderr)[-200000:], 'cmd': ' '.join(cmd)}


def run_rustc_traits(eng, prop, tier, seed):
    from . import c38
    return c38.run(eng, prop, tier, seed)


def run_scan(eng, prop, tier, seed):
    """inventory of call sites (an UNCHECKED listing that goes into the evidence assumptions; decides nothing)"""
    import glob
    hits = []
    for path in sorted(glob.glob(os.path.join(REPO, eng['glob']), recursive=True)):
        try:
            lines = open(path, encoding='utf-8').read().split('\n')
        except OSError:
            continue
        for i, l in enumerate(lines, 1):
            if re.search(eng['pattern'], l):
                ctx = ' '.join(x.strip() for x in lines[max(0, i - 6):i])
                fed = 'client position via get_offset/to_rowan_range' if re.search(eng.get('covered_by', r'$^'), ctx) else 'other origin (tree / index)'
                hits.append('%s:%d  %s  [%s]' % (os.path.relpath(path, REPO), i, l.strip()[:90], fed))
    return {'obligations': 0, 'discharged': 0, 'cmd': 'scan %s for /%s/' % (eng['glob'], eng['pattern']),
            'summary': {'unit': 'scan/' + eng['name'], 'sites': len(hits)}, 'samples': [], 'failed': [],
            'assumptions': ['[scan %s] %s' % (eng['name'], h) for h in hits]}


def run(eng, prop, tier, seed):
    if eng['kind'] == 'scan': return run_scan(eng, prop, tier, seed)
    if eng['kind'] == 'kani': return run_kani(eng, prop, tier, seed)
    if eng['kind'] == 'rustc-traits': return run_rustc_traits(eng, prop, tier, seed)
    raise Undecided('unknown engine %s' % eng['kind'])
