import json
import os

VERIF = os.path.dirname(os.path.dirname(os.path.abspath(__file__)))


def write(prop, tier, seed, level, coverage, assumptions, wall_s, violations, extra=None):
    ev = {
        'property_id': prop, 'tier': tier, 'seed': seed, 'level': level,
        'coverage': coverage, 'assumptions': assumptions, 'wall_s': round(wall_s, 2),
        'violations': violations,
    }
    if extra: ev.update(extra)
    # VERIF_EVIDENCE_DIR: development runs on a deliberately broken /repo (tools/seed.py detect) write their
    # evidence to a scratch directory, so evidence/ only ever holds records of runs on the tree as it is
    edir = os.environ.get('VERIF_EVIDENCE_DIR') or os.path.join(VERIF, 'evidence')
    os.makedirs(edir, exist_ok=True)
    path = os.path.join(edir, prop + '.json')
    tmp = path + '.tmp'
    with open(tmp, 'w') as f:
        json.dump(ev, f, indent=1, ensure_ascii=False)
    os.replace(tmp, path)
    return path


def validate(path):
    try:
        import jsonschema
    except ImportError:
        return None
    schema = json.load(open('/root/.vp/EVIDENCE.schema.json')) if os.path.exists('/root/.vp/EVIDENCE.schema.json') else None
    if not schema: return None
    jsonschema.validate(json.load(open(path)), schema)
    return True
