"""The closed catalogue of extraction rewrite rules (DESIGN.md §3.2).

Each rule is `fn(text, **args) -> (new_text, count)`. A rule that is listed for an item but matches
nothing makes the unit undecided (exit 2). Nothing else ever changes extracted text.
Every rule is local and, by the std documentation of the API it desugars, semantics preserving;
the helper functions (`vx_*`) that some rules introduce are specified in the unit prelude and are
listed as assumptions in the evidence.
"""
import re
from . import rustlex as L
from .extract import Undecided

RULES = {}


def rule(name):
    def deco(f):
        RULES[name] = f
        return f
    return deco


def _sub(text, pat, repl, flags=0):
    return re.subn(pat, repl, text, flags=flags)


@rule('vis-pub')
def vis_pub(text, **_):
    """`fn` -> `pub fn`, struct fields -> pub (visibility has no run-time meaning)"""
    n = 0
    toks = L.code_tokens(text)
    first = L.tok_text(text, toks[0])
    out = text
    if first in ('fn', 'const', 'struct', 'enum', 'type') or (first in ('async', 'unsafe') and True):
        out = 'pub ' + out; n += 1
    elif first == 'pub' and L.tok_text(text, toks[1]) == '(':
        c = L.match_close(text, toks, 1)
        out = 'pub' + text[toks[c][2]:]; n += 1
    return out, max(n, 1)


@rule('struct-fields')
def struct_fields(text, keep=None, drop=None, **_):
    """struct projection: keep only the listed fields; all kept fields become `pub`."""
    toks = L.code_tokens(text)
    ob = next(i for i, t in enumerate(toks) if L.tok_text(text, t) == '{')
    cb = L.match_close(text, toks, ob)
    fields = []
    k = ob + 1
    while k < cb:
        a = k
        depth = 0
        while k < cb:
            t = L.tok_text(text, toks[k])
            if t in ('(', '[', '{'):
                k = L.match_close(text, toks, k) + 1; continue
            if t == '<': depth += 1
            elif t == '>' and L.tok_text(text, toks[k - 1]) != '-': depth -= 1
            elif t == ',' and depth == 0: break
            k += 1
        fields.append((a, k))
        k += 1
    kept, dropped = [], []
    for a, b in fields:
        if a >= b: continue
        # strip attrs and visibility
        j = a
        while L.tok_text(text, toks[j]) == '#':
            j = L.match_close(text, toks, j + 1) + 1
        if L.tok_text(text, toks[j]) == 'pub':
            j += 1
            if L.tok_text(text, toks[j]) == '(':
                j = L.match_close(text, toks, j) + 1
        name = L.tok_text(text, toks[j])
        body = text[toks[j][1]:toks[b - 1][2]]
        if (keep is not None and name not in keep) or (drop is not None and name in drop):
            dropped.append(name)
        else:
            kept.append('    pub ' + body + ',')
    head = text[:toks[ob][2]]
    new = head + '\n' + '\n'.join(kept) + '\n}'
    return new, 1, dropped


def make_regex_rule(pat, repl, doc, flags=0):
    def f(text, **_):
        return _sub(text, pat, repl, flags)
    f.__doc__ = doc
    return f


def named_regex(name, pat, repl, doc, flags=0):
    """register a named, documented regex rule in the GLOBAL catalogue (the rules of this file). Unit-local regex rules
    (`extra_rules`) are kept in a per-unit table by vc/assemble.py and never enter this dict: two units may use the same
    name for different rewrites and are assembled concurrently."""
    RULES[name] = make_regex_rule(pat, repl, doc, flags)


named_regex('hashbrown-std', r'\bhashbrown::', 'std::collections::',
             'hashbrown::{HashMap,HashSet} -> std::collections (same API subset; order never relied on)')

named_regex('iter-enum-copied',
             r'for \((\w+), (\w+)\) in ([\w\.\(\)]+?)\.iter\(\)\.copied\(\)\.enumerate\(\) \{',
             r'let __s = \3; for \1 in 0..__s.len() { let \2 = __s[\1];',
             'for (i, b) in E.iter().copied().enumerate() { B } -> for i in 0..E.len() { let b = E[i]; B }')

named_regex('partition-point-le',
             r'(\w[\w\.\s]*?)\s*\.partition_point\(\|&(\w+)\| \2 <= (\w+)\)',
             r'vx_partition_point_le(&\1, \3)',
             'V.partition_point(|&x| x <= Y) -> vx_partition_point_le(&V, Y) (std doc contract; sortedness is a precondition)',
             flags=re.S)

named_regex('chars-count', r'(\w+)\.chars\(\)\.count\(\)', r'vx_chars_count(\1)',
             'S.chars().count() -> vx_chars_count(S), ensures r == S@.len()')

named_regex('assert-eq', r'assert_eq!\(([^;]*?),\s*([^;]*?)\);', r'assert(\1 == \2);',
             'assert_eq!(a, b) -> assert(a == b): the run-time panic condition becomes a proof obligation')

@rule('is-some-and')
def is_some_and(text, **_):
    """O.is_some_and(|x| B) -> (match O { Some(x) => B, None => false })   (std definition of Option::is_some_and).
    O is the whole postfix chain in front of the call (identifiers, field accesses, calls), B the closure body."""
    n = 0
    while True:
        toks = L.code_tokens(text)
        hit = None
        for i, t in enumerate(toks):
            if L.tok_text(text, t) == 'is_some_and' and i >= 1 and L.tok_text(text, toks[i - 1]) == '.' \
                    and i + 1 < len(toks) and L.tok_text(text, toks[i + 1]) == '(':
                close = L.match_close(text, toks, i + 1)
                # closure: | x | body
                if L.tok_text(text, toks[i + 2]) != '|' or toks[i + 3][0] != 'ident' or L.tok_text(text, toks[i + 4]) != '|':
                    raise Undecided('is-some-and: closure with a pattern or several parameters')
                var = L.tok_text(text, toks[i + 3])
                body = text[toks[i + 4][2]:toks[close][1]].strip()
                # receiver: walk back over the postfix chain
                j = i - 2
                while j >= 0:
                    tt = L.tok_text(text, toks[j])
                    if tt in (')', ']'):
                        depth = 0
                        while j >= 0:
                            c = L.tok_text(text, toks[j])
                            if c in (')', ']'): depth += 1
                            elif c in ('(', '['):
                                depth -= 1
                                if depth == 0: break
                            j -= 1
                        j -= 1; continue
                    if toks[j][0] in ('ident', 'num') or tt in ('.', '?'):
                        if toks[j][0] == 'ident' and tt in ('let', 'return', 'if', 'while', 'match', 'in', 'else'): break
                        j -= 1; continue
                    if tt == ':' and j >= 1 and L.tok_text(text, toks[j - 1]) == ':':
                        j -= 2; continue
                    break
                start = toks[j + 1][1]
                recv = ' '.join(text[start:toks[i - 1][1]].split())
                hit = (start, toks[close][2], '(match %s { Some(%s) => %s, None => false })' % (recv, var, body))
                break
        if not hit: break
        text = text[:hit[0]] + hit[2] + text[hit[1]:]
        n += 1
    return text, n


def apply_rules(item, rules, local=None):
    local = local or {}
    for r in rules:
        name, args = (r, {}) if isinstance(r, str) else (r[0], r[1] if len(r) > 1 else {})
        fn = local.get(name) or RULES.get(name)
        if fn is None:
            raise Undecided('rule %s is not in the catalogue' % name)
        res = fn(item.text, **args)
        new, n = res[0], res[1]
        if len(res) > 2 and res[2]:
            item.dropped.append('fields: ' + ', '.join(res[2]))
        want = args.get('count')
        if n == 0 and args.get('optional'):
            continue        # the construct this rule desugars is absent from the current text: nothing to do
        if n == 0 or (want is not None and n != want):
            raise Undecided('rule %s matched %d times in %s (expected %s)' % (name, n, item.qual, want or '>=1'))
        item.text = new
        item.rewrites.append((name, n))


@rule('letchain-nest')
def letchain_nest(text, **_):
    """else-less `if let P = E && C { B }` -> `if let P = E { if C { B } }` (let-chains evaluate left to
    right and the bindings scope over the rest of the chain and the body)"""
    n = 0
    while True:
        toks = L.code_tokens(text)
        hit = None
        for i, t in enumerate(toks):
            if L.tok_text(text, t) == 'if' and i + 1 < len(toks) and L.tok_text(text, toks[i + 1]) == 'let':
                # find `&&` at depth 0 before the body `{`
                j = i + 2
                amp = None
                while j < len(toks):
                    tt = L.tok_text(text, toks[j])
                    if tt in ('(', '['):
                        j = L.match_close(text, toks, j) + 1; continue
                    if tt == '{': break
                    if tt == '&' and L.tok_text(text, toks[j + 1]) == '&' and toks[j + 1][1] == toks[j][2] and amp is None:
                        amp = j
                    j += 1
                if amp is None or j >= len(toks): continue
                body_open = j
                body_close = L.match_close(text, toks, body_open)
                if body_close + 1 < len(toks) and L.tok_text(text, toks[body_close + 1]) == 'else':
                    raise Undecided('letchain-nest: chain has an else branch')
                hit = (toks[amp][1], toks[amp + 1][2], toks[body_open][1], toks[body_close][2])
                break
        if not hit: break
        a0, a1, bo, bc = hit
        cond = text[a1:bo].strip()
        text = text[:a0].rstrip() + ' { if ' + cond + ' ' + text[bo:bc] + ' }' + text[bc:]
        n += 1
    return text, n


named_regex('struct-default-rest', r'\.\.Default::default\(\)',
            r'code_description: None, related_information: None',
            '`..Default::default()` in the lsp_types::Diagnostic literal -> the two remaining fields spelled out '
            '(lsp_types derives Default for Diagnostic; both are Option fields, default None)')

named_regex('str-into-string', r'"([^"\\]*)"\.into\(\)', r'vx_string("\1")',
            '"lit".into() where a String is expected -> vx_string("lit") (ensures r@ == "lit"@)')
