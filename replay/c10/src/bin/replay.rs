//! C10 replay (module index): "Once a file is removed from the analysis, no result refers to it ... Its memory is
//! also released."  Contract of `LuaModuleIndex::remove(file_id)` that fails on the real code (unit c10_remove2, item 7):
//!   after remove, `file_module_map` has no entry for the file, no `ModuleNode.file_ids` contains it,
//!   `module_name_to_file_ids` has no vector containing it, and nodes with no files and no children are not kept
//!   (except the root).
//! History (public API only): new analysis -> default config -> main workspace /vp_c10 -> add /vp_c10/lib/a.lua ->
//! remove it -> inspect `db.get_module_index()`.
//!   * the emptied leaf node of module `lib.a` is still in `module_nodes` (`get_module_node(&id)` answers for it):
//!     `remove` only ever deletes *ancestors* inside its loop, never the leaf it started from;
//!   * `module_name_to_file_ids["a"]` still holds the removed FileId: the loop leaves through `return` when it reaches the
//!     root, before the clean-up of that map (seen through the index's `Debug` output, the field has no accessor).
//! Second history: every edit of a file re-runs remove + add, so each edit leaks one more orphan node.
//! exit 1 = trace of the removed file found, exit 0 = clean, exit 2 = scenario did not set up.
use emmylua_code_analysis::{EmmyLuaAnalysis, Emmyrc, FileId, ModuleNodeId, file_path_to_uri};
use std::path::PathBuf;
use std::sync::Arc;

/// nodes other than the root that hold no file and have no children: (count, ids)
fn orphan_nodes(a: &EmmyLuaAnalysis) -> Vec<u32> {
    let idx = a.compilation.get_db().get_module_index();
    let mut out = Vec::new();
    for id in 1..4096u32 {
        if let Some(node) = idx.get_module_node(&ModuleNodeId { id }) {
            if node.file_ids.is_empty() && node.children.is_empty() {
                out.push(id);
            }
        }
    }
    out
}

/// the `module_name_to_file_ids: {...}` part of the index's Debug output
fn name_map_debug(a: &EmmyLuaAnalysis) -> String {
    let s = format!("{:?}", a.compilation.get_db().get_module_index());
    match s.find("module_name_to_file_ids: ") {
        Some(p) => {
            let rest = &s[p..];
            let end = rest.find(", workspaces:").unwrap_or(rest.len().min(200));
            rest[..end].to_string()
        }
        None => String::from("<field not found in Debug output>"),
    }
}

fn nodes_listing_file(a: &EmmyLuaAnalysis, f: FileId) -> usize {
    let idx = a.compilation.get_db().get_module_index();
    (0..4096u32).filter(|id| idx.get_module_node(&ModuleNodeId { id: *id }).is_some_and(|n| n.file_ids.contains(&f))).count()
}

fn main() {
    let mut a = EmmyLuaAnalysis::new();
    a.update_config(Arc::new(Emmyrc::default())); // what the server does at start-up: module patterns ?.lua / ?/init.lua, fuzzy require search on
    a.add_main_workspace(PathBuf::from("/vp_c10"));

    // ---- history 1: add one file, remove it ------------------------------------------------------------
    let uri = file_path_to_uri(&PathBuf::from("/vp_c10/lib/a.lua")).expect("uri");
    let f = a.update_file_by_uri(&uri, Some("local M = {}\nreturn M\n".to_string())).expect("file id");
    let (name, module_id) = match a.compilation.get_db().get_module_index().get_module(f) {
        Some(info) => (info.full_module_name.clone(), info.module_id),
        None => {
            eprintln!("scenario did not register a module for the file");
            std::process::exit(2);
        }
    };
    println!("added   {:?} as module {:?} (node {:?}); orphan nodes before removal: {:?}", f, name, module_id, orphan_nodes(&a));
    println!("        {}", name_map_debug(&a));

    let removed = a.remove_file_by_uri(&uri);
    println!("removed {:?}", removed);
    let idx = a.compilation.get_db().get_module_index();
    let still_info = idx.get_module(f).is_some();
    let leaf_kept = idx.get_module_node(&module_id).is_some();
    let listed = nodes_listing_file(&a, f);
    let orphans = orphan_nodes(&a);
    let name_map = name_map_debug(&a);
    let id_in_name_map = name_map.contains(&format!("{:?}", f));
    println!("after remove: file_module_map has the file: {still_info}; nodes listing the file: {listed}");
    println!("after remove: leaf node {:?} of the removed module still in module_nodes: {leaf_kept}; orphan nodes (no files, no children, not root): {:?}", module_id, orphans);
    println!("after remove: {name_map}  -> contains removed {:?}: {id_in_name_map}", f);

    // ---- history 2: edit another file 5 times (each edit = remove + add of the same file id) -----------------
    let uri_b = file_path_to_uri(&PathBuf::from("/vp_c10/b.lua")).expect("uri");
    let before = orphan_nodes(&a).len();
    for i in 0..5 {
        a.update_file_by_uri(&uri_b, Some(format!("return {i}\n")));
    }
    let after = orphan_nodes(&a).len();
    println!("5 edits of /vp_c10/b.lua: orphan nodes {before} -> {after}");
    println!("        {}", name_map_debug(&a));

    let violated = still_info || listed > 0 || leaf_kept || !orphans.is_empty() || id_in_name_map || after > before;
    if violated {
        println!("VIOLATION C10: LuaModuleIndex::remove leaves a trace of the removed file");
    }
    std::process::exit(if violated { 1 } else { 0 });
}
