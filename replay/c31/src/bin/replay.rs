//! C31 replay: expanding the paths of a configuration must never panic.
//! args: the path strings to put into `workspace.workspaceRoots` (default: "~" and "~é").
//! exit 1 = `Emmyrc::pre_process_emmyrc` panicked on one of them.
use emmylua_code_analysis::Emmyrc;
use std::path::Path;

fn main() {
    let mut paths: Vec<String> = std::env::args().skip(1).collect();
    if paths.is_empty() {
        paths = vec!["~".to_string(), "~é".to_string()];
    }
    let mut bad = 0;
    for p in paths {
        let mut rc = Emmyrc::default();
        rc.workspace.workspace_roots = vec![p.clone()];
        let r = std::panic::catch_unwind(move || {
            rc.pre_process_emmyrc(Path::new("/vp_c31_workspace"));
            rc.workspace.workspace_roots
        });
        match r {
            Ok(v) => println!("{p:?} -> {v:?}"),
            Err(_) => {
                println!("{p:?} -> PANIC in pre_process_emmyrc");
                bad += 1;
            }
        }
    }
    std::process::exit(if bad > 0 { 1 } else { 0 });
}
