//! C31 replay / bounded witness search: loading any configuration and expanding its paths never panics.
//!   replay [paths...]     expand the given path strings (default "~", "~é") via Emmyrc::pre_process_emmyrc
//!   replay search         path strings from a small alphabet in every path-bearing setting, and generated
//!                         config FILES (JSON of every top-level shape, odd keys, dotted/nested collisions, Lua
//!                         configs) through load_configs; prints "FOUND hex=<input>" and exits 1 on the first panic
//! Decides nothing: a hit is a concrete configuration on which the real loader panics.
use emmylua_code_analysis::{Emmyrc, load_configs};
use std::path::{Path, PathBuf};

fn hex(s: &str) -> String { s.bytes().map(|b| format!("{b:02x}")).collect() }

fn expand_ok(p: &str) -> bool {
    let p = p.to_string();
    std::panic::catch_unwind(move || {
        let mut rc = Emmyrc::default();
        rc.workspace.workspace_roots = vec![p.clone()];
        rc.workspace.ignore_dir = vec![p.clone()];
        rc.resource.paths = vec![p.clone()];
        let lib = serde_json::json!({"workspace": {"library": [p.clone(), {"path": p.clone(), "ignoreDir": [p.clone()], "ignoreGlobs": []}], "packages": [p.clone()]}});
        if let Ok(extra) = serde_json::from_value::<Emmyrc>(lib) {
            rc.workspace.library = extra.workspace.library;
            rc.workspace.packages = extra.workspace.packages;
        }
        rc.pre_process_emmyrc(Path::new("/vp_c31_workspace"));
    }).is_ok()
}

fn load_ok(dir: &Path, files: &[(&str, &str)]) -> bool {
    let mut paths: Vec<PathBuf> = Vec::new();
    for (name, content) in files {
        let p = dir.join(name);
        std::fs::write(&p, content).expect("write config");
        paths.push(p);
    }
    let r = std::panic::catch_unwind(move || { let _ = load_configs(paths, None); }).is_ok();
    r
}

fn main() {
    std::panic::set_hook(Box::new(|_| {}));
    let a: Vec<String> = std::env::args().skip(1).collect();
    if a.first().map(|s| s.as_str()) == Some("search") {
        let atoms = ["", "~", "~/", "~x", "~é", "./", "./a", ".", "..", "/abs", "a/b", "é", "$", "$VP_UNSET_VAR_C31", "${VP_UNSET_VAR_C31}",
            "{env:VP_UNSET_VAR_C31}", "${env:VP_UNSET_VAR_C31}", "{workspaceFolder}", "${workspaceFolder}/x", "{luarocks}", "{}", "{", "}", "~{env:VP_UNSET_VAR_C31}", "\u{1F600}", "\\", "C:\\x"];
        let mut n = 0;
        for x in atoms { for y in ["", "~", "é", "$", "/"] {
            let p = format!("{x}{y}");
            n += 1;
            if !expand_ok(&p) { println!("FOUND hex={} path {p:?}: PANIC in Emmyrc::pre_process_emmyrc", hex(&p)); std::process::exit(1); }
        } }
        let dir = std::env::temp_dir().join(format!("vp_c31_{}", std::process::id()));
        std::fs::create_dir_all(&dir).expect("tmp dir");
        let jsons = ["null", "42", "\"x\"", "[]", "{}", "true", "{\"\": 1}", "{\".\": 1}", "{\"..\": 1}", "{\"a..b\": 1}", "{\"a.\": 1}", "{\".a\": 1}",
            "{\"diagnostics.enable\": false}", "{\"diagnostics\": {\"enable\": true}, \"diagnostics.enable\": false}",
            "{\"runtime.version\": \"Lua5.1\", \"runtime\": 3}", "{\"workspace.library\": [\"~\"], \"workspace\": null}",
            "{\"diagnostics\": 1}", "{\"diagnostics\": {\"disable\": \"x\"}}", "{\"diagnostics\": {\"severity\": {\"x\": \"y\"}}}",
            "{\"runtime\": {\"version\": 5}}", "not json at all", "{\"unterminated\": ", "\u{feff}{}"];
        for (i, j) in jsons.iter().enumerate() {
            n += 1;
            if !load_ok(&dir, &[(".luarc.json", j)]) { println!("FOUND hex={} config {j:?} as .luarc.json: PANIC in load_configs", hex(j)); std::process::exit(1); }
            if !load_ok(&dir, &[(".emmyrc.json", "{\"diagnostics\": {\"enable\": true}}"), (".luarc.json", j)]) {
                println!("FOUND hex={} config {j:?} merged after a valid .emmyrc.json: PANIC in load_configs", hex(j)); std::process::exit(1);
            }
            let _ = i;
        }
        let luas = ["return {}", "return 1", "print()", "print(1, nil)\nreturn {}", "error('x')", "return { diagnostics = { enable = false } }", "local t = {} t.a = t return t", "return nil", "", "while false do end return {}"];
        for l in luas {
            n += 1;
            if !load_ok(&dir, &[(".emmyrc.lua", l)]) { println!("FOUND hex={} lua config {l:?}: PANIC in load_configs", hex(l)); std::process::exit(1); }
        }
        let _ = std::fs::remove_dir_all(&dir);
        println!("no panic among {n} generated path strings / config files");
        return;
    }
    let mut paths = a;
    if paths.first().map(|s| s.as_str()) == Some("hex") { paths = vec![String::from_utf8((0..paths[1].len() / 2).map(|i| u8::from_str_radix(&paths[1][2 * i..2 * i + 2], 16).unwrap()).collect()).unwrap()]; }
    if paths.is_empty() { paths = vec!["~".to_string(), "~é".to_string()]; }
    let mut bad = 0;
    for p in paths {
        if expand_ok(&p) { println!("{p:?}: expanded without panic"); } else { println!("{p:?} -> PANIC in pre_process_emmyrc"); bad += 1; }
    }
    std::process::exit(if bad > 0 { 1 } else { 0 });
}
