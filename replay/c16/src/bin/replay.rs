//! replay driver of property C16 (unit c16_laws). Decides nothing: it replays, on the real crate, the concrete inputs of the three
//! clauses that the unit reports as failed obligations on a tree without the proposed repairs
//!   C16.union.batch-is-union-of-distinct-members   batch union (TypeOps::union_all) vs one-at-a-time union (TypeOps::Union.apply fold)
//!   C16.reflexive.every-variant                    check_type_compact(T, T)
//!   C16.any-accepts-everything.at-every-depth      check_type_compact(any, T)
//! Each reproduced finding prints `FOUND[<clause>] ...`; exit 1 if any reproduces, 0 otherwise.
use emmylua_code_analysis::*;

fn fold(db: &DbIndex, ts: &[LuaType]) -> LuaType {
    let mut acc = LuaType::Never;
    for t in ts {
        acc = TypeOps::Union.apply(db, &acc, t);
    }
    acc
}

/// members of a result as a list (a non-union result is its own single member)
fn members(t: &LuaType) -> Vec<LuaType> {
    match t {
        LuaType::Union(u) => u.into_vec(),
        other => vec![other.clone()],
    }
}

/// same union up to member order: every member of one is `==` to a member of the other, and the member counts agree
fn same_union(a: &LuaType, b: &LuaType) -> bool {
    let (ma, mb) = (members(a), members(b));
    ma.len() == mb.len() && ma.iter().all(|x| mb.contains(x)) && mb.iter().all(|x| ma.contains(x))
}

fn batch_vs_fold(db: &DbIndex, name: &str, ts: Vec<LuaType>, bad: &mut u32) {
    let batch = TypeOps::union_all(db, ts.clone());
    let one = fold(db, &ts);
    if same_union(&batch, &one) {
        println!("ok     {name}: batch and one-at-a-time agree ({} member(s); order {})", members(&batch).len(),
                 if members(&batch) == members(&one) { "identical" } else { "differs" });
    } else {
        println!("FOUND[C16.union.batch-is-union-of-distinct-members] {name}: batch = {:?}   one-at-a-time = {:?}", batch, one);
        *bad += 1;
    }
}

fn main() {
    let mut bad = 0u32;
    let mut ws = VirtualWorkspace::new();
    ws.def("---@class A<T>\n---@alias AnyAlias any\n");
    // ---- sentence 5: equal members in different allocations (variants hashed by address) and floats hashed by bits
    let (ta, tb) = (ws.ty("A<integer>"), ws.ty("A<integer>"));
    let (oa, ob) = (ws.ty("{ x: integer }"), ws.ty("{ x: integer }"));
    let tg = || LuaType::TableGeneric(vec![LuaType::String, LuaType::Integer].into());
    assert!(ta == tb && oa == ob);
    batch_vs_fold(ws.get_db_mut(), "[A<integer>, A<integer>] (annotation written twice)", vec![ta.clone(), tb.clone()], &mut bad);
    batch_vs_fold(ws.get_db_mut(), "[{x: integer}, {x: integer}] (annotation written twice)", vec![oa, ob], &mut bad);
    batch_vs_fold(ws.get_db_mut(), "[table<string,integer>, table<string,integer>] (two allocations)", vec![tg(), tg()], &mut bad);
    batch_vs_fold(ws.get_db_mut(), "[0.0, -0.0]", vec![LuaType::FloatConst(0.0), LuaType::FloatConst(-0.0)], &mut bad);
    // controls: must agree on every tree
    batch_vs_fold(ws.get_db_mut(), "[A<integer>, A<integer>] (same allocation)", vec![ta.clone(), ta.clone()], &mut bad);
    batch_vs_fold(ws.get_db_mut(), "[nil, K, string]", vec![LuaType::Nil, LuaType::Def(LuaTypeDeclId::global("K")), LuaType::String], &mut bad);
    batch_vs_fold(ws.get_db_mut(), "[integer, string, integer]", vec![LuaType::Integer, LuaType::String, LuaType::Integer], &mut bad);
    // not under the clause (a Ref member sends the batch down the slow path; the difference comes from dropping `never` first): reported, not counted
    let aa = ws.ty("AnyAlias");
    let (b7, o7) = (TypeOps::union_all(ws.get_db_mut(), vec![aa.clone(), LuaType::Never]), fold(ws.get_db_mut(), &[aa.clone(), LuaType::Never]));
    println!("note   [AnyAlias, never]: batch = {:?}   one-at-a-time = {:?}", b7, o7);

    // ---- sentence 1: a value of type T is accepted where T is expected
    let st = LuaType::StrTplRef(LuaStringTplType::new("pre.", "T", GenericTplId::Func(0), "", None).into());
    let refl: Vec<(&str, LuaType)> = vec![
        ("self", LuaType::SelfInfer), ("StrTplRef `pre.<T>`", st), ("never", LuaType::Never), ("string", LuaType::String),
        ("\"a\" (doc string const)", ws.ty("\"a\"")), ("A<integer>", ta.clone()),
    ];
    for (n, t) in &refl {
        if ws.check_type(t, t) { println!("ok     check({n}, {n}) accepted"); }
        else { println!("FOUND[C16.reflexive.every-variant] check_type_compact({n}, {n}) is Err"); bad += 1; }
    }
    // ---- sentence 4: any accepts everything
    let mut src = String::new();
    for i in 0..101 { src.push_str(&format!("---@alias Ch{} Ch{}\n", i, i + 1)); }
    src.push_str("---@alias Ch101 integer\n");
    ws.def(&src);
    let anys: Vec<(&str, LuaType)> = vec![
        ("Ch0 (first of 101 chained aliases)", ws.ty("Ch0")), ("Ch60", ws.ty("Ch60")),
        ("an intersection without components", LuaType::Intersection(LuaIntersectionType::new(vec![]).into())), ("string", LuaType::String),
    ];
    for (n, t) in &anys {
        if ws.check_type(&LuaType::Any, t) && ws.check_type(&LuaType::Unknown, t) { println!("ok     check(any, {n}) accepted"); }
        else { println!("FOUND[C16.any-accepts-everything.at-every-depth] check_type_compact(any, {n}) is Err"); bad += 1; }
    }
    if bad > 0 {
        println!("{bad} expectation(s) of C16 violated by the real crate");
        std::process::exit(1);
    }
    println!("no finding of C16 reproduces on this tree");
}
