//! replay driver of property C16 (unit c16_laws). Decides nothing: it replays, on the real crate, the concrete inputs of the three
//! clauses that the unit reports as failed obligations on a tree without the proposed repairs
//!   C16.union.batch-is-union-of-distinct-members   batch union (TypeOps::union_all) vs one-at-a-time union (TypeOps::Union.apply fold)
//!   C16.reflexive.every-variant                    check_type_compact(T, T)
//!   C16.any-accepts-everything.at-every-depth      check_type_compact(any, T)
//! Each reproduced finding prints `FOUND[<clause>] ...`; exit 1 if any reproduces, 0 otherwise.
//!
//!   replay                         the fixed list of concrete cases above (default mode)
//!   replay search [seed] [count]   bounded witness search over generated hierarchies / annotation types / batches (see `mod search`):
//!                                  `FOUND <clause> <minimised input>` + exit 1; exit 0 otherwise; exit 2 if an input cannot be set up
//!   replay show [seed] [k]         the generated declarations, types and unions of world k and what the doc analyzer made of them
use emmylua_code_analysis::*;

fn fold(db: &DbIndex, ts: &[LuaType]) -> LuaType {
    let mut acc = LuaType::Never;
    for t in ts {
        acc = TypeOps::Union.apply(db, &acc, t);
    }
    acc
}

/// members of a result as a list (a non-union result is its own single member)
fn members(t: &LuaType) -> Vec<LuaType> {
    match t {
        LuaType::Union(u) => u.into_vec(),
        other => vec![other.clone()],
    }
}

/// same union up to member order: every member of one is `==` to a member of the other, and the member counts agree
fn same_union(a: &LuaType, b: &LuaType) -> bool {
    let (ma, mb) = (members(a), members(b));
    ma.len() == mb.len() && ma.iter().all(|x| mb.contains(x)) && mb.iter().all(|x| ma.contains(x))
}

fn batch_vs_fold(db: &DbIndex, name: &str, ts: Vec<LuaType>, bad: &mut u32) {
    let batch = TypeOps::union_all(db, ts.clone());
    let one = fold(db, &ts);
    if same_union(&batch, &one) {
        println!("ok     {name}: batch and one-at-a-time agree ({} member(s); order {})", members(&batch).len(),
                 if members(&batch) == members(&one) { "identical" } else { "differs" });
    } else {
        println!("FOUND[C16.union.batch-is-union-of-distinct-members] {name}: batch = {:?}   one-at-a-time = {:?}", batch, one);
        *bad += 1;
    }
}

fn fixed_cases() {
    let mut bad = 0u32;
    let mut ws = VirtualWorkspace::new();
    ws.def("---@class A<T>\n---@alias AnyAlias any\n");
    // ---- sentence 5: equal members in different allocations (variants hashed by address) and floats hashed by bits
    let (ta, tb) = (ws.ty("A<integer>"), ws.ty("A<integer>"));
    let (oa, ob) = (ws.ty("{ x: integer }"), ws.ty("{ x: integer }"));
    let tg = || LuaType::TableGeneric(vec![LuaType::String, LuaType::Integer].into());
    assert!(ta == tb && oa == ob);
    batch_vs_fold(ws.get_db_mut(), "[A<integer>, A<integer>] (annotation written twice)", vec![ta.clone(), tb.clone()], &mut bad);
    batch_vs_fold(ws.get_db_mut(), "[{x: integer}, {x: integer}] (annotation written twice)", vec![oa, ob], &mut bad);
    batch_vs_fold(ws.get_db_mut(), "[table<string,integer>, table<string,integer>] (two allocations)", vec![tg(), tg()], &mut bad);
    batch_vs_fold(ws.get_db_mut(), "[0.0, -0.0]", vec![LuaType::FloatConst(0.0), LuaType::FloatConst(-0.0)], &mut bad);
    // controls: must agree on every tree
    batch_vs_fold(ws.get_db_mut(), "[A<integer>, A<integer>] (same allocation)", vec![ta.clone(), ta.clone()], &mut bad);
    batch_vs_fold(ws.get_db_mut(), "[nil, K, string]", vec![LuaType::Nil, LuaType::Def(LuaTypeDeclId::global("K")), LuaType::String], &mut bad);
    batch_vs_fold(ws.get_db_mut(), "[integer, string, integer]", vec![LuaType::Integer, LuaType::String, LuaType::Integer], &mut bad);
    // not under the clause (a Ref member sends the batch down the slow path; the difference comes from dropping `never` first): reported, not counted
    let aa = ws.ty("AnyAlias");
    let (b7, o7) = (TypeOps::union_all(ws.get_db_mut(), vec![aa.clone(), LuaType::Never]), fold(ws.get_db_mut(), &[aa.clone(), LuaType::Never]));
    println!("note   [AnyAlias, never]: batch = {:?}   one-at-a-time = {:?}", b7, o7);

    // ---- sentence 1: a value of type T is accepted where T is expected
    let st = LuaType::StrTplRef(LuaStringTplType::new("pre.", "T", GenericTplId::Func(0), "", None).into());
    let refl: Vec<(&str, LuaType)> = vec![
        ("self", LuaType::SelfInfer), ("StrTplRef `pre.<T>`", st), ("never", LuaType::Never), ("string", LuaType::String),
        ("\"a\" (doc string const)", ws.ty("\"a\"")), ("A<integer>", ta.clone()),
    ];
    for (n, t) in &refl {
        if ws.check_type(t, t) { println!("ok     check({n}, {n}) accepted"); }
        else { println!("FOUND[C16.reflexive.every-variant] check_type_compact({n}, {n}) is Err"); bad += 1; }
    }
    // ---- sentence 4: any accepts everything
    let mut src = String::new();
    for i in 0..101 { src.push_str(&format!("---@alias Ch{} Ch{}\n", i, i + 1)); }
    src.push_str("---@alias Ch101 integer\n");
    ws.def(&src);
    let anys: Vec<(&str, LuaType)> = vec![
        ("Ch0 (first of 101 chained aliases)", ws.ty("Ch0")), ("Ch60", ws.ty("Ch60")),
        ("an intersection without components", LuaType::Intersection(LuaIntersectionType::new(vec![]).into())), ("string", LuaType::String),
    ];
    for (n, t) in &anys {
        if ws.check_type(&LuaType::Any, t) && ws.check_type(&LuaType::Unknown, t) { println!("ok     check(any, {n}) accepted"); }
        else { println!("FOUND[C16.any-accepts-everything.at-every-depth] check_type_compact(any, {n}) is Err"); bad += 1; }
    }
    if bad > 0 {
        println!("{bad} expectation(s) of C16 violated by the real crate");
        std::process::exit(1);
    }
    println!("no finding of C16 reproduces on this tree");
}

fn main() {
    let args: Vec<String> = std::env::args().collect();
    match args.get(1).map(|s| s.as_str()) {
        Some("search") => {
            let seed = args.get(2).and_then(|s| s.parse().ok()).unwrap_or(1u64);
            let count = args.get(3).and_then(|s| s.parse().ok()).unwrap_or(search::DEFAULT_WORLDS);
            search::run(seed, count)
        }
        Some("show") => search::show(args.get(2).and_then(|s| s.parse().ok()).unwrap_or(1u64), args.get(3).and_then(|s| s.parse().ok()).unwrap_or(0usize)),
        _ => fixed_cases(),
    }
}

/// `replay search [seed] [count]` -- bounded witness search for property C16 on the REAL crate, public API only
/// (`VirtualWorkspace::{new, def}`, annotations parsed by the real doc analyzer the way `VirtualWorkspace::ty` does it, expression types the
/// way `expr_ty` does it, `check_type_compact(db, expected, value)`, `TypeOps::Union.apply`, `TypeOps::union_all`).  Decides nothing: a hit is
/// a concrete set of declarations + an expected annotation + a value type (or a concrete batch), minimised, printed as `FOUND <clause> ...`;
/// exit 1 if there is one, exit 0 otherwise, exit 2 if a generated input cannot be set up (annotation with a syntax error).
///
/// ORACLES = the sentences of C16, nothing stronger:
///   reflexive     for every generated annotation T: check(T, T) -- with the same LuaType value and with a second parse of the same text (another
///                 allocation); for literal annotations (`true`, `1`, `"a"`) also the inferred constant of the expression of the same spelling
///   union-member  for every generated union `m1 | .. | mk` and every i: check(U, mi) with mi parsed on its own, with the member values of the parsed
///                 union, and (literal members) with the inferred constant
///   ancestors     for every class C of the generated hierarchy and every transitive ancestor A (computed HERE from the generated declarations):
///                 check(A, C) for the value spellings Ref(C) (annotation `C`), Def(C) (the local the class is declared on), `C<integer>` for a
///                 generic class, and the expected spellings `A`, Def(A), `A<arg>` for a generic parent written `A<arg>`
///   any           check(any, T), check(unknown, T) for every generated T (sentence) and check(T, any), check(T, unknown) (the unit's
///                 any-is-accepted-everywhere law)
///   batch         union_all(batch) vs the left fold of Union.apply over the same batch: equal under `==` AND equal as member sets.  A difference that
///                 shows in only SOME evaluations of the same batch (the operands do not change) is reported as `C16.batch unstable-eq`; world 0
///                 evaluates 18 batches that hold the same annotation in two allocations 1200 times each, so that report does not depend on luck
///   not counted   batch [alias of any, never]: `never` is dropped before folding but union(Ref(alias of any), never) is any (the unit's E7, the
///                 same type written differently): printed as `note`, never a failure
/// BOUNDS  `count` worlds (default 40), each a fresh workspace with a fixed prelude (generic classes, aliases incl. a generic and a multi-line
///   one, enums) and a generated hierarchy: a single chain (3-5), the multiple-inheritance family (a class whose one parent leads 2-3 levels up
///   and whose other 1-2 parents are root classes, the chain parent at every position), a random DAG of 8 classes (0-3 parents each, random
///   order, some with fields), generic parents (`G<T>: GBase`, `H: G<integer>`, `G2<T>: H, Comparable`), a diamond, a partial class declared in
///   two files with a different parent in each; declaration order shuffled.  Per world 120 random annotation types (depth <= 3) + 80 random
///   unions (2-4 members) over: primitives, literals (both quote styles, negative), arrays, tuples, object types, table generics, function
///   types, optionals, aliases, enums, `self`, generics, class names; in world 0 additionally every atom of the vocabulary, all ordered pairs
///   of 8 tuple types and of 5 object types as unions (+ triples and tuple/object mixes), and every batch of 1-3 members over a pool of 70
///   values (16 primitives / constants, 12 inferred expression types incl. floats, table literals and a closure, 21 structured annotations
///   each in two allocations); per world 3000 random batches of 1-5 members (repeats, twins, the 40 first random types of the world).
///   Acceptance = Ok from BOTH SemanticModel::type_check and SemanticModel::type_check_detail.  Default run: about 10 s in a debug build.
pub mod search {
    use super::{fold, members, same_union};
    use emmylua_code_analysis::*;
    use emmylua_parser::{LuaAstNode, LuaAstToken, LuaLocalName};
    use std::collections::{BTreeMap, BTreeSet};

    pub const DEFAULT_WORLDS: usize = 40;
    const RANDOM_TYPES: usize = 120;
    const RANDOM_UNIONS: usize = 80;
    const RANDOM_BATCHES: usize = 3000;
    const MAX_REPORTS_PER_CLAUSE: usize = 4;

    // ------------------------------------------------------------------------------------------------ rng
    pub struct Rng(u64);
    impl Rng {
        pub fn new(seed: u64) -> Rng {
            let mut z = seed.wrapping_add(0x9E37_79B9_7F4A_7C15);
            z = (z ^ (z >> 30)).wrapping_mul(0xBF58_476D_1CE4_E5B9);
            z = (z ^ (z >> 27)).wrapping_mul(0x94D0_49BB_1331_11EB);
            Rng((z ^ (z >> 31)) | 1)
        }
        fn next(&mut self) -> u64 { self.0 ^= self.0 << 13; self.0 ^= self.0 >> 7; self.0 ^= self.0 << 17; self.0 }
        fn below(&mut self, n: usize) -> usize { ((self.next() >> 11) % n as u64) as usize }
        fn chance(&mut self, pct: usize) -> bool { self.below(100) < pct }
        fn pick<'a, T>(&mut self, v: &'a [T]) -> &'a T { &v[self.below(v.len())] }
        fn shuffle<T>(&mut self, v: &mut [T]) { for i in (1..v.len()).rev() { let j = self.below(i + 1); v.swap(i, j); } }
    }

    // ------------------------------------------------------------------------------------------------ annotation types
    #[derive(Clone, PartialEq, Debug)]
    pub enum Ty {
        Name(String), Arr(Box<Ty>), Tup(Vec<Ty>), Obj(Vec<(String, Ty)>), TGen(Box<Ty>, Box<Ty>),
        Fun(Vec<Ty>, Option<Box<Ty>>), Union(Vec<Ty>), Opt(Box<Ty>), Gen(String, Vec<Ty>),
    }
    fn n(s: &str) -> Ty { Ty::Name(s.to_string()) }
    impl Ty {
        fn wrap(&self) -> String { match self { Ty::Union(_) | Ty::Fun(..) | Ty::Opt(_) => format!("({})", self.render()), Ty::Name(s) if s.starts_with('-') => format!("({s})"), _ => self.render() } }
        /// inside a comma-separated list a function type with a return type needs parentheses (`fun(): A, B` has two return values)
        fn item(&self) -> String { match self { Ty::Fun(_, Some(_)) => format!("({})", self.render()), _ => self.render() } }
        pub fn render(&self) -> String {
            match self {
                Ty::Name(s) => s.clone(),
                Ty::Arr(t) => format!("{}[]", t.wrap()),
                Ty::Tup(es) => format!("[{}]", es.iter().map(|e| e.item()).collect::<Vec<_>>().join(", ")),
                Ty::Obj(fs) => format!("{{{}}}", fs.iter().map(|(k, t)| format!("{k}: {}", t.item())).collect::<Vec<_>>().join(", ")),
                Ty::TGen(k, v) => format!("table<{}, {}>", k.item(), v.item()),
                Ty::Fun(ps, r) => format!("fun({}){}", ps.iter().enumerate().map(|(i, p)| format!("p{i}: {}", p.item())).collect::<Vec<_>>().join(", "),
                                          r.as_ref().map_or(String::new(), |r| format!(": {}", r.wrap()))),
                Ty::Union(ms) => ms.iter().map(|m| m.wrap()).collect::<Vec<_>>().join(" | "),
                Ty::Opt(t) => format!("{}?", t.wrap()),
                Ty::Gen(b, ps) => format!("{b}<{}>", ps.iter().map(|p| p.item()).collect::<Vec<_>>().join(", ")),
            }
        }
        fn size(&self) -> usize {
            1 + match self {
                Ty::Name(s) => if s == "integer" { 0 } else { 1 },
                Ty::Arr(t) | Ty::Opt(t) => t.size(),
                Ty::Tup(v) | Ty::Union(v) | Ty::Gen(_, v) => v.iter().map(|t| t.size()).sum(),
                Ty::Obj(fs) => fs.iter().map(|(_, t)| t.size()).sum(),
                Ty::TGen(k, v) => k.size() + v.size(),
                Ty::Fun(ps, r) => ps.iter().map(|t| t.size()).sum::<usize>() + r.as_ref().map_or(0, |r| r.size()),
            }
        }
        /// the Lua expression whose inferred type is the constant this literal annotation names
        fn literal_expr(&self) -> Option<String> {
            let Ty::Name(s) = self else { return None };
            if s == "true" || s == "false" || s.parse::<i64>().is_ok() || s.starts_with('"') || s.starts_with('\'') { Some(s.clone()) } else { None }
        }
        fn children(&self) -> Vec<Ty> {
            match self {
                Ty::Name(_) => vec![],
                Ty::Arr(t) | Ty::Opt(t) => vec![(**t).clone()],
                Ty::Tup(v) | Ty::Union(v) | Ty::Gen(_, v) => v.clone(),
                Ty::Obj(fs) => fs.iter().map(|(_, t)| t.clone()).collect(),
                Ty::TGen(k, v) => vec![(**k).clone(), (**v).clone()],
                Ty::Fun(ps, r) => ps.iter().cloned().chain(r.iter().map(|r| (**r).clone())).collect(),
            }
        }
        fn with_child(&self, i: usize, c: Ty) -> Ty {
            let mut t = self.clone();
            match &mut t {
                Ty::Name(_) => {}
                Ty::Arr(x) | Ty::Opt(x) => **x = c,
                Ty::Tup(v) | Ty::Union(v) | Ty::Gen(_, v) => v[i] = c,
                Ty::Obj(fs) => fs[i].1 = c,
                Ty::TGen(k, v) => if i == 0 { **k = c } else { **v = c },
                Ty::Fun(ps, r) => if i < ps.len() { ps[i] = c } else { *r = Some(Box::new(c)) },
            }
            t
        }
        /// strictly smaller candidates for minimisation
        fn shrinks(&self) -> Vec<Ty> {
            let mut out = self.children();
            match self {
                Ty::Union(v) if v.len() > 2 => for i in 0..v.len() { let mut w = v.clone(); w.remove(i); out.push(Ty::Union(w)); },
                Ty::Tup(v) if v.len() > 1 => for i in 0..v.len() { let mut w = v.clone(); w.remove(i); out.push(Ty::Tup(w)); },
                Ty::Obj(v) if v.len() > 1 => for i in 0..v.len() { let mut w = v.clone(); w.remove(i); out.push(Ty::Obj(w)); },
                Ty::Fun(ps, r) => {
                    for i in 0..ps.len() { let mut w = ps.clone(); w.remove(i); out.push(Ty::Fun(w, r.clone())); }
                    if r.is_some() { out.push(Ty::Fun(ps.clone(), None)); }
                }
                _ => {}
            }
            for (i, c) in self.children().iter().enumerate() {
                for s in c.shrinks() { out.push(self.with_child(i, s)); }
                out.push(self.with_child(i, n("integer")));
            }
            if matches!(self, Ty::Name(_)) { out.push(n("integer")); }
            let sz = self.size();
            out.retain(|t| t.size() < sz);
            out
        }
    }

    pub const PRELUDE: &str = "---@class A<T>\n---@class Box<T>\n---@field value T\n---@alias ID integer | string\n---@alias Str string\n---@alias Pair [integer, string]\n\
---@alias AnyAlias any\n---@alias Lit \"x\" | \"y\" | 1\n---@alias Maybe<T> T | nil\n---@alias Dir\n---| \"left\"\n---| \"right\"\n---@enum Color\nlocal Color = { Red = \"red\", Green = \"green\" }\n\
---@enum Level\nlocal Level = { Low = 1, High = 2 }\n---@enum (key) Mode\nlocal Mode = { fast = 1, slow = 2 }\n";
    const PRIMS: &[&str] = &["nil", "boolean", "string", "integer", "number", "table", "function", "thread", "userdata"];
    const LITS: &[&str] = &["true", "false", "1", "2", "-3", "\"a\"", "\"b\"", "'c'"];
    const NAMED: &[&str] = &["ID", "Str", "Pair", "Lit", "Color", "Level", "Mode", "self", "A<integer>", "A<string>", "Box<integer>", "Maybe<string>", "AnyAlias", "Dir"];

    fn gen_atom(rng: &mut Rng, classes: &[String]) -> Ty {
        match rng.below(10) {
            0..=3 => n(*rng.pick(PRIMS)),
            4..=5 => n(*rng.pick(LITS)),
            6..=7 => n(rng.pick(classes).as_str()),
            _ => n(*rng.pick(NAMED)),
        }
    }
    fn gen_union(rng: &mut Rng, classes: &[String], depth: u32) -> Ty {
        let k = 2 + rng.below(3);
        let mut ms: Vec<Ty> = Vec::new();
        let mut tries = 0;
        while ms.len() < k && tries < 20 {
            tries += 1;
            let m = gen_ty(rng, classes, depth.saturating_sub(1), false);
            if matches!(m, Ty::Union(_)) || m == n("AnyAlias") || ms.iter().any(|x| x.render() == m.render()) { continue; }
            ms.push(m);
        }
        if ms.len() < 2 { ms = vec![n("integer"), n("string")]; }
        Ty::Union(ms)
    }
    pub fn gen_ty(rng: &mut Rng, classes: &[String], depth: u32, allow_union: bool) -> Ty {
        if depth == 0 || rng.chance(30) { return gen_atom(rng, classes); }
        let d = depth - 1;
        match rng.below(10) {
            0 => Ty::Arr(Box::new(gen_ty(rng, classes, d, true))),
            1 | 2 => Ty::Tup((0..1 + rng.below(3)).map(|_| gen_ty(rng, classes, d, true)).collect()),
            3 | 4 => { let k = 1 + rng.below(3); Ty::Obj(["x", "y", "z"][..k].iter().map(|f| (f.to_string(), gen_ty(rng, classes, d, true))).collect()) }
            5 => Ty::TGen(Box::new(n(if rng.chance(50) { "string" } else { "integer" })), Box::new(gen_ty(rng, classes, d, true))),
            6 => Ty::Fun((0..rng.below(3)).map(|_| gen_ty(rng, classes, d, true)).collect(), if rng.chance(70) { Some(Box::new(gen_ty(rng, classes, d, true))) } else { None }),
            7 => if allow_union { gen_union(rng, classes, depth) } else { gen_atom(rng, classes) },
            8 => { let t = gen_ty(rng, classes, d, false); if matches!(t, Ty::Opt(_)) || t == n("nil") || t == n("AnyAlias") { t } else { Ty::Opt(Box::new(t)) } }
            _ => Ty::Gen(if rng.chance(50) { "A" } else { "Box" }.to_string(), vec![gen_ty(rng, classes, d, true)]),
        }
    }

    // ------------------------------------------------------------------------------------------------ class hierarchies
    #[derive(Clone, Debug, PartialEq)]
    pub struct Decl { name: String, generic: bool, parents: Vec<(String, Option<String>)>, file: usize, partial: bool, field: Option<(&'static str, &'static str)> }
    fn decl(name: &str, parents: &[&str]) -> Decl {
        Decl { name: name.to_string(), generic: false, file: 0, partial: false, field: None,
               parents: parents.iter().map(|p| match p.split_once('<') { Some((b, a)) => (b.to_string(), Some(a.trim_end_matches('>').to_string())), None => (p.to_string(), None) }).collect() }
    }
    fn decl_text(d: &Decl) -> String {
        let ps: Vec<String> = d.parents.iter().map(|(p, a)| match a { Some(a) => format!("{p}<{a}>"), None => p.clone() }).collect();
        format!("---@class {}{}{}{}\n{}local {}_{} = {{}}\n", if d.partial { "(partial) " } else { "" }, d.name, if d.generic { "<T>" } else { "" },
                if ps.is_empty() { String::new() } else { format!(": {}", ps.join(", ")) },
                d.field.map_or(String::new(), |(f, t)| format!("---@field {f} {t}\n")), d.name, d.file)
    }
    fn render_files(decls: &[Decl]) -> Vec<String> {
        let nfiles = decls.iter().map(|d| d.file + 1).max().unwrap_or(1);
        (0..nfiles).map(|f| decls.iter().filter(|d| d.file == f).map(decl_text).collect::<String>()).collect()
    }
    fn one_line(decls: &[Decl]) -> String {
        decls.iter().map(|d| { let t = decl_text(d); let l: Vec<&str> = t.lines().filter(|l| l.starts_with("---")).collect(); format!("{}{}", l.join(" "), if d.file > 0 { format!(" (file {})", d.file) } else { String::new() }) })
            .collect::<Vec<_>>().join(" / ")
    }
    pub fn gen_hierarchy(rng: &mut Rng) -> Vec<Decl> {
        let mut d: Vec<Decl> = Vec::new();
        // single chain
        let nchain = 3 + rng.below(3);
        for i in 0..nchain { d.push(decl(&format!("K{i}"), &if i == 0 { vec![] } else { vec![format!("K{}", i - 1)] }.iter().map(|s| s.as_str()).collect::<Vec<_>>())); }
        // multiple inheritance: the chain parent leads 2-3 levels up, the other parents are root classes; every position of the chain parent
        d.push(decl("Animal", &[])); d.push(decl("Mammal", &["Animal"])); d.push(decl("Canine", &["Mammal"]));
        d.push(decl("Serializable", &[])); d.push(decl("Comparable", &[]));
        let mut k = 0;
        for chain_parent in ["Mammal", "Canine"] {
            for roots in [vec!["Serializable"], vec!["Serializable", "Comparable"]] {
                for pos in 0..=roots.len() {
                    let mut ps = roots.clone(); ps.insert(pos, chain_parent);
                    d.push(decl(&format!("Dog{k}"), &ps)); k += 1;
                }
            }
        }
        d.push(decl("Puppy", &[&format!("Dog{}", rng.below(k)), "Comparable"]));
        // random DAG
        for i in 0..8usize {
            let np = if i == 0 { 0 } else { rng.below(4).min(i) };
            let mut cand: Vec<usize> = (0..i).collect(); rng.shuffle(&mut cand);
            let ps: Vec<String> = cand[..np].iter().map(|j| format!("N{j}")).collect();
            let mut dd = decl(&format!("N{i}"), &ps.iter().map(|s| s.as_str()).collect::<Vec<_>>());
            if rng.chance(40) { dd.field = Some(*rng.pick(&[("x", "integer"), ("y", "string"), ("z", "boolean?")])); }
            d.push(dd);
        }
        // generic parents
        d.push(decl("GBase", &[]));
        let mut g = decl("G", &["GBase"]); g.generic = true; g.field = Some(("item", "T")); d.push(g);
        d.push(decl("H", &[if rng.chance(50) { "G<integer>" } else { "G<string>" }]));
        d.push(decl("I", &if rng.chance(50) { ["H", "Serializable"] } else { ["Serializable", "H"] }));
        let mut g2 = decl("G2", &["H", "Comparable"]); g2.generic = true; d.push(g2);
        // diamond
        d.push(decl("D0", &[])); d.push(decl("D1", &["D0"])); d.push(decl("D2", &["D0"]));
        d.push(decl("D3", &if rng.chance(50) { ["D1", "D2"] } else { ["D2", "D1"] }));
        d.push(decl("D4", &if rng.chance(50) { ["D3", "Comparable"] } else { ["Comparable", "D3"] }));
        // partial class in two files, a different parent in each
        d.push(decl("PA0", &[])); d.push(decl("PA", &["PA0"])); d.push(decl("PB0", &[])); d.push(decl("PB", &["PB0"]));
        let mut p0 = decl("P", &["PA"]); p0.partial = true;
        let mut p1 = decl("P", &if rng.chance(50) { vec!["PB"] } else { vec!["PB", "Serializable"] }); p1.partial = true; p1.file = 1;
        if rng.chance(50) { std::mem::swap(&mut p0.parents, &mut p1.parents); }
        d.push(p0); d.push(p1);
        let mut q = decl("Q", &if rng.chance(50) { ["P", "Comparable"] } else { ["Comparable", "P"] }); q.file = rng.below(2); d.push(q);
        rng.shuffle(&mut d);
        d
    }
    /// transitive ancestors of a class from the DECLARATIONS: (expected annotation, distance)
    pub fn ancestors(decls: &[Decl], name: &str) -> Vec<(String, usize)> {
        let mut out: Vec<(String, usize)> = Vec::new();
        let mut seen: BTreeSet<String> = BTreeSet::new(); seen.insert(name.to_string());
        let mut frontier = vec![name.to_string()];
        let mut dist = 0;
        while !frontier.is_empty() {
            dist += 1;
            let mut next = Vec::new();
            for c in &frontier {
                for dd in decls.iter().filter(|x| &x.name == c) {
                    for (p, a) in &dd.parents {
                        if !decls.iter().any(|x| &x.name == p) { continue; }
                        let expected = match a { Some(a) => format!("{p}<{a}>"), None => p.clone() };
                        if !out.iter().any(|(e, _)| e == &expected) && !(a.is_none() && decls.iter().any(|x| &x.name == p && x.generic)) { out.push((expected, dist)); }
                        if seen.insert(p.clone()) { next.push(p.clone()); }
                    }
                }
            }
            frontier = next;
        }
        out
    }

    // ------------------------------------------------------------------------------------------------ the real crate
    fn setup_error(msg: String) -> ! { println!("cannot set up: {msg}"); std::process::exit(2) }
    fn local_types(ws: &VirtualWorkspace, file_id: FileId, strict: bool) -> Vec<LuaType> {
        let db = ws.analysis.compilation.get_db();
        let tree = db.get_vfs().get_syntax_tree(&file_id).unwrap_or_else(|| setup_error("no syntax tree".into()));
        if strict && tree.has_syntax_errors() {
            setup_error(format!("generated text has syntax errors: {:?}\n{}", tree.get_errors().iter().take(3).collect::<Vec<_>>(), db.get_vfs().get_file_content(&file_id).map(|s| s.to_string()).unwrap_or_default()));
        }
        let names: Vec<LuaLocalName> = tree.get_chunk_node().descendants::<LuaLocalName>().collect();
        let model = ws.analysis.compilation.get_semantic_model(file_id).unwrap_or_else(|| setup_error("no semantic model".into()));
        names.iter().map(|nm| {
            let tok = nm.get_name_token().unwrap_or_else(|| setup_error("no name token".into()));
            model.get_semantic_info(tok.syntax().clone().into()).unwrap_or_else(|| setup_error("no semantic info".into())).typ
        }).collect()
    }
    /// the way VirtualWorkspace::ty does it, many annotations in one file
    pub fn parse_all(ws: &mut VirtualWorkspace, annots: &[String]) -> Vec<LuaType> {
        if annots.is_empty() { return vec![]; }
        let src: String = annots.iter().enumerate().map(|(i, a)| format!("---@type {a}\nlocal v{i}\n")).collect();
        let fid = ws.def(&src);
        let r = local_types(ws, fid, true);
        if r.len() != annots.len() { setup_error(format!("{} annotations, {} locals", annots.len(), r.len())); }
        // a generated annotation that the doc analyzer does not understand would silently test `unknown`
        for (a, t) in annots.iter().zip(r.iter()) { if !a.contains("unknown") && format!("{t:?}").contains("Unknown") { setup_error(format!("annotation `{a}` was analysed to {t:?}")); } }
        r
    }
    fn parse1(ws: &mut VirtualWorkspace, a: &str) -> LuaType { parse_all(ws, &[a.to_string()]).remove(0) }
    /// the way VirtualWorkspace::expr_ty does it
    fn exprs_all(ws: &mut VirtualWorkspace, exprs: &[String]) -> Vec<LuaType> {
        if exprs.is_empty() { return vec![]; }
        let src: String = exprs.iter().enumerate().map(|(i, e)| format!("local e{i} = {e}\n")).collect();
        let fid = ws.def(&src);
        let r = local_types(ws, fid, true);
        if r.len() != exprs.len() { setup_error(format!("{} expressions, {} locals", exprs.len(), r.len())); }
        r
    }
    /// accepted = Ok from BOTH public entry points: SemanticModel::type_check (check_type_compact) and type_check_detail (the one the diagnostics use)
    fn check(w: &World, expected: &LuaType, value: &LuaType) -> Result<(), String> {
        let model = w.ws.analysis.compilation.get_semantic_model(w.probe).unwrap_or_else(|| setup_error("no semantic model".into()));
        model.type_check(expected, value).map_err(|e| format!("type_check: {e:?}"))?;
        model.type_check_detail(expected, value).map_err(|e| format!("type_check_detail: {e:?}"))
    }
    pub struct World { pub ws: VirtualWorkspace, probe: FileId, pub decls: Vec<Decl>, defs: BTreeMap<String, LuaType> }
    pub fn build_world(decls: &[Decl]) -> World {
        let mut ws = VirtualWorkspace::new();
        let probe = ws.def(PRELUDE);
        let mut defs = BTreeMap::new();
        for (f, text) in render_files(decls).iter().enumerate() {
            let fid = ws.def(text);
            let tys = local_types(&ws, fid, true);
            for (dd, t) in decls.iter().filter(|x| x.file == f).zip(tys) { defs.entry(dd.name.clone()).or_insert(t); }
        }
        World { ws, probe, decls: decls.to_vec(), defs }
    }

    // ------------------------------------------------------------------------------------------------ reporting
    #[derive(Default)]
    pub struct Report { found: BTreeMap<&'static str, Vec<String>>, hits: BTreeMap<&'static str, usize>, checks: BTreeMap<&'static str, usize>, notes: BTreeSet<String> }
    impl Report {
        fn count(&mut self, clause: &'static str, k: usize) { *self.checks.entry(clause).or_default() += k; }
        fn wants(&mut self, clause: &'static str) -> bool {
            *self.hits.entry(clause).or_default() += 1;
            self.found.get(clause).map_or(0, |v| v.len()) < if clause.ends_with("unstable-eq") { 2 } else { MAX_REPORTS_PER_CLAUSE }
        }
        fn found(&mut self, clause: &'static str, line: String) {
            let v = self.found.entry(clause).or_default();
            if !v.contains(&line) { println!("FOUND {clause} {line}"); v.push(line); }
        }
        fn note(&mut self, line: String) { if self.notes.insert(line.clone()) { println!("note   {line}"); } }
    }
    fn minimise<T: Clone>(start: T, cands: &dyn Fn(&T) -> Vec<T>, fails: &mut dyn FnMut(&T) -> bool) -> T {
        let mut cur = start;
        let mut budget = 400;
        'outer: loop {
            for c in cands(&cur) {
                if budget == 0 { return cur; }
                budget -= 1;
                if fails(&c) { cur = c; continue 'outer; }
            }
            return cur;
        }
    }

    // ------------------------------------------------------------------------------------------------ oracles: reflexive / any
    /// which reflexive / any checks fail for T (empty = none): parsed twice, plus the inferred constant for a literal
    fn refl_failures(w: &mut World, t: &Ty) -> Vec<String> {
        let a = t.render();
        let p = parse_all(&mut w.ws, &[a.clone(), a.clone()]);
        let mut out = Vec::new();
        if let Err(e) = check(w, &p[0], &p[0]) { out.push(format!("value `{a}` rejected where `{a}` is expected: {e}")); }
        else if let Err(e) = check(w, &p[0], &p[1]) { out.push(format!("value `{a}` (the same annotation parsed a second time) rejected where `{a}` is expected: {e}")); }
        if let Some(x) = t.literal_expr() {
            let v = exprs_all(&mut w.ws, &[x.clone()]).remove(0);
            if let Err(e) = check(w, &p[0], &v) { out.push(format!("the expression {x} (inferred {v:?}) rejected where `{a}` is expected: {e}")); }
        }
        out
    }
    fn any_failures(w: &mut World, t: &Ty) -> Vec<(&'static str, String)> {
        let a = t.render();
        let p = parse1(&mut w.ws, &a);
        let mut out = Vec::new();
        for (nm, anyt) in [("any", LuaType::Any), ("unknown", LuaType::Unknown)] {
            if let Err(e) = check(w, &anyt, &p) { out.push(("C16.any-accepts-everything", format!("value `{a}` rejected where `{nm}` is expected: {e}"))); }
            if let Err(e) = check(w, &p, &anyt) { out.push(("C16.any-is-accepted-everywhere", format!("value `{nm}` rejected where `{a}` is expected: {e}"))); }
        }
        out
    }
    fn run_reflexive_any(w: &mut World, types: &[Ty], rep: &mut Report) {
        let annots: Vec<String> = types.iter().map(|t| t.render()).collect();
        let twice: Vec<String> = annots.iter().chain(annots.iter()).cloned().collect();
        let p = parse_all(&mut w.ws, &twice);
        let lit: Vec<(usize, String)> = types.iter().enumerate().filter_map(|(i, t)| t.literal_expr().map(|x| (i, x))).collect();
        let lv = exprs_all(&mut w.ws, &lit.iter().map(|(_, x)| x.clone()).collect::<Vec<_>>());
        let k = types.len();
        for i in 0..k {
            let mut bad = check(w, &p[i], &p[i]).is_err() || check(w, &p[i], &p[i + k]).is_err();
            rep.count("C16.reflexive", 2);
            for (j, (li, _)) in lit.iter().enumerate() { if *li == i { rep.count("C16.reflexive", 1); bad |= check(w, &p[i], &lv[j]).is_err(); } }
            if bad && rep.wants("C16.reflexive") {
                let m = minimise(types[i].clone(), &|t: &Ty| t.shrinks(), &mut |t: &Ty| !refl_failures(w, t).is_empty());
                for l in refl_failures(w, &m) { rep.found("C16.reflexive", format!("{l}   [generated as `{}`]", annots[i])); }
            }
            rep.count("C16.any-accepts-everything", 2); rep.count("C16.any-is-accepted-everywhere", 2);
            let anybad = [LuaType::Any, LuaType::Unknown].iter().any(|a| check(w, a, &p[i]).is_err() || check(w, &p[i], a).is_err());
            if anybad && rep.wants("C16.any-accepts-everything") {
                let m = minimise(types[i].clone(), &|t: &Ty| t.shrinks(), &mut |t: &Ty| !any_failures(w, t).is_empty());
                for (c, l) in any_failures(w, &m) { rep.found(c, format!("{l}   [generated as `{}`]", annots[i])); }
            }
        }
    }

    // ------------------------------------------------------------------------------------------------ oracle: union members
    fn union_member_failures(w: &mut World, ms: &[Ty], idx: usize) -> Vec<String> {
        let u = Ty::Union(ms.to_vec()).render();
        let m = ms[idx].render();
        let p = parse_all(&mut w.ws, &[u.clone(), m.clone()]);
        let mut out = Vec::new();
        if let Err(e) = check(w, &p[0], &p[1]) { out.push(format!("value `{m}` (member {} of {}) rejected where `{u}` is expected: {e}", idx + 1, ms.len())); }
        if let Some(x) = ms[idx].literal_expr() {
            let v = exprs_all(&mut w.ws, &[x.clone()]).remove(0);
            if let Err(e) = check(w, &p[0], &v) { out.push(format!("the expression {x} (inferred {v:?}; member {} of {}) rejected where `{u}` is expected: {e}", idx + 1, ms.len())); }
        }
        out
    }
    fn run_unions(w: &mut World, unions: &[Vec<Ty>], rep: &mut Report) {
        let mut annots: Vec<String> = Vec::new();
        let mut exprs: Vec<String> = Vec::new();
        for ms in unions { annots.push(Ty::Union(ms.clone()).render()); for m in ms { annots.push(m.render()); if let Some(x) = m.literal_expr() { exprs.push(x); } } }
        let p = parse_all(&mut w.ws, &annots);
        let ev = exprs_all(&mut w.ws, &exprs);
        let (mut pi, mut ei) = (0, 0);
        for ms in unions {
            let u = p[pi].clone(); pi += 1;
            let mut annotation_level_failure = false;
            for (i, m) in ms.iter().enumerate() {
                let mv = &p[pi]; pi += 1;
                rep.count("C16.union-member", 1);
                let mut bad = check(w, &u, mv).is_err();
                if m.literal_expr().is_some() { rep.count("C16.union-member", 1); bad |= check(w, &u, &ev[ei]).is_err(); ei += 1; }
                annotation_level_failure |= bad;
                if bad && rep.wants("C16.union-member") {
                    let cands = |s: &(Vec<Ty>, usize)| -> Vec<(Vec<Ty>, usize)> {
                        let (ms, idx) = s;
                        let mut out = Vec::new();
                        if ms.len() > 2 { for j in 0..ms.len() { if j != *idx { let mut v = ms.clone(); v.remove(j); out.push((v, if j < *idx { idx - 1 } else { *idx })); } } }
                        for j in 0..ms.len() {
                            for s in ms[j].shrinks() { if matches!(s, Ty::Union(_)) { continue; } let mut v = ms.clone(); v[j] = s; out.push((v, *idx)); }
                            if j != *idx && !matches!(ms[j], Ty::Name(_)) { for r in ["integer", "nil"] { let mut v = ms.clone(); v[j] = n(r); out.push((v, *idx)); } }
                        }
                        out
                    };
                    let (mm, mi) = minimise((ms.clone(), i), &cands, &mut |s: &(Vec<Ty>, usize)| !union_member_failures(w, &s.0, s.1).is_empty());
                    for l in union_member_failures(w, &mm, mi) { rep.found("C16.union-member", format!("{l}   [generated as member {} of `{}`]", i + 1, Ty::Union(ms.clone()).render())); }
                }
            }
            // the member values of the parsed union itself (reported only when the separately parsed members all pass)
            for (j, mv) in members(&u).iter().enumerate() {
                rep.count("C16.union-member", 1);
                if let Err(e) = check(w, &u, mv) { if !annotation_level_failure && rep.wants("C16.union-member") {
                    rep.found("C16.union-member", format!("member value #{} {mv:?} of the parsed union rejected where `{}` is expected: {e}", j + 1, Ty::Union(ms.clone()).render()));
                } }
            }
        }
    }

    // ------------------------------------------------------------------------------------------------ oracle: ancestors
    /// value / expected spellings of one (class, ancestor annotation) pair that are rejected in a fresh world built from `decls`
    fn ancestor_failures(w: &mut World, cls: &str, anc: &str) -> Vec<String> {
        let generic = w.decls.iter().any(|d| d.name == cls && d.generic);
        let val_annot = if generic { format!("{cls}<integer>") } else { cls.to_string() };
        let p = parse_all(&mut w.ws, &[anc.to_string(), val_annot.clone()]);
        let mut values: Vec<(String, LuaType)> = vec![(format!("`{val_annot}`"), p[1].clone())];
        if !generic { if let Some(d) = w.defs.get(cls) { if matches!(d, LuaType::Def(_)) { values.push((format!("Def({cls}) (the local `{cls}` is declared on)"), d.clone())); } } }
        let mut expecteds: Vec<(String, LuaType)> = vec![(format!("`{anc}`"), p[0].clone())];
        if !anc.contains('<') { if let Some(d) = w.defs.get(anc) { if matches!(d, LuaType::Def(_)) { expecteds.push((format!("Def({anc})"), d.clone())); } } }
        let mut out = Vec::new();
        for (en, e) in &expecteds { for (vn, v) in &values {
            if let Err(err) = check(w, e, v) { out.push(format!("value {vn} rejected where its ancestor {en} is expected: {err}")); }
        } }
        out
    }
    fn run_ancestors(w: &mut World, rep: &mut Report) {
        let names: BTreeSet<String> = w.decls.iter().map(|d| d.name.clone()).collect();
        for cls in &names {
            for (anc, dist) in ancestors(&w.decls, cls) {
                rep.count("C16.ancestors", 4);
                let fails = ancestor_failures(w, cls, &anc);
                if fails.is_empty() || !rep.wants("C16.ancestors") { continue; }
                let (c2, a2) = (cls.clone(), anc.clone());
                let cands = |ds: &Vec<Decl>| -> Vec<Vec<Decl>> {
                    let mut out = Vec::new();
                    let anc_base = a2.split('<').next().unwrap_or("").to_string();
                    for i in 0..ds.len() {
                        if ds[i].name != c2 && ds[i].name != anc_base || ds.iter().filter(|x| x.name == ds[i].name).count() > 1 {
                            let mut v = ds.clone(); let gone = v.remove(i).name;
                            if !v.iter().any(|x| x.name == gone) { for x in v.iter_mut() { x.parents.retain(|(p, _)| p != &gone); } }
                            out.push(v);
                        }
                    }
                    for i in 0..ds.len() { for j in 0..ds[i].parents.len() { let mut v = ds.clone(); v[i].parents.remove(j); out.push(v); } }
                    for i in 0..ds.len() { if ds[i].field.is_some() { let mut v = ds.clone(); v[i].field = None; out.push(v); } }
                    for i in 0..ds.len() { if ds[i].file > 0 { let mut v = ds.clone(); v[i].file = 0; out.push(v); } }
                    out
                };
                let still = |ds: &Vec<Decl>| -> bool {
                    if !ds.iter().any(|d| d.name == c2) || !ancestors(ds, &c2).iter().any(|(a, _)| a == &a2) { return false; }
                    let mut w2 = build_world(ds);
                    !ancestor_failures(&mut w2, &c2, &a2).is_empty()
                };
                let mut still_mut = still;
                let md = minimise(w.decls.clone(), &cands, &mut still_mut);
                let mut w2 = build_world(&md);
                let d2 = ancestors(&md, cls).iter().find(|(a, _)| a == &anc).map_or(dist, |x| x.1);
                let ls = ancestor_failures(&mut w2, cls, &anc);
                if let Some(l) = ls.first() {
                    rep.found("C16.ancestors", format!("{l}{}   (distance {d2}); declarations: {}", if ls.len() > 1 { format!(" (and {} more of the value / expected spellings Ref, Def)", ls.len() - 1) } else { String::new() }, one_line(&md)));
                }
            }
        }
    }

    // ------------------------------------------------------------------------------------------------ oracle: batch union
    #[derive(Clone)]
    pub struct Item { label: String, ty: LuaType }
    fn batch_pool(w: &mut World, extra: &[Ty]) -> (Vec<Item>, usize) {
        let core_annots = ["nil", "boolean", "true", "false", "string", "\"a\"", "\"b\"", "integer", "1", "2", "number", "table", "function", "never", "any", "unknown"];
        let more = ["A<integer>", "{x: integer}", "table<string, integer>", "[integer, string]", "integer[]", "fun(): integer", "K0", "K1", "Animal", "ID", "AnyAlias", "Str",
                    "Color", "Level", "string?", "integer | string", "true | false", "self", "Maybe<string>", "{x: integer} | string", "[integer, string] | [string, string]"];
        let core_exprs = ["true", "false", "1", "2", "1.5", "1.0", "\"a\"", "\"b\"", "{}", "{}", "{x = 1}", "function() end"];
        let mut annots: Vec<String> = core_annots.iter().chain(more.iter()).map(|s| s.to_string()).collect();
        annots.extend(extra.iter().map(|t| t.render()));
        let twice: Vec<String> = annots.iter().chain(annots.iter()).cloned().collect();
        let p = parse_all(&mut w.ws, &twice);
        let e = exprs_all(&mut w.ws, &core_exprs.iter().map(|s| s.to_string()).collect::<Vec<_>>());
        let k = annots.len();
        let mut items: Vec<Item> = Vec::new();
        for (i, a) in core_annots.iter().enumerate() { items.push(Item { label: format!("`{a}`"), ty: p[i].clone() }); }
        for (i, x) in core_exprs.iter().enumerate() { items.push(Item { label: format!("expr {x}"), ty: e[i].clone() }); }
        let ncore = items.len();
        for i in core_annots.len()..core_annots.len() + more.len() {
            items.push(Item { label: format!("`{}`", annots[i]), ty: p[i].clone() });
            items.push(Item { label: format!("`{}` (2nd parse)", annots[i]), ty: p[i + k].clone() });
        }
        let nsys = items.len();
        for i in core_annots.len() + more.len()..k {
            items.push(Item { label: format!("`{}`", annots[i]), ty: p[i].clone() });
            items.push(Item { label: format!("`{}` (2nd parse)", annots[i]), ty: p[i + k].clone() });
        }
        let _ = ncore;
        (items, nsys)
    }
    fn batch_mismatch(db: &DbIndex, b: &[Item]) -> Option<(&'static str, LuaType, LuaType)> {
        let ts: Vec<LuaType> = b.iter().map(|i| i.ty.clone()).collect();
        let batch = TypeOps::union_all(db, ts.clone());
        let one = fold(db, &ts);
        if !same_union(&batch, &one) { return Some(("members", batch, one)); }
        if batch != one || one != batch { return Some(("eq", batch, one)); }
        None
    }
    /// in how many of `n` evaluations of the SAME batch the two results differ (0 or n on a tree whose `==` is a function of its operands)
    fn mismatch_rate(db: &DbIndex, b: &[Item], n: usize) -> (usize, Option<(&'static str, LuaType, LuaType)>) {
        let mut ex = None;
        let mut k = 0;
        for _ in 0..n { if let Some(m) = batch_mismatch(db, b) { k += 1; if ex.is_none() { ex = Some(m); } } }
        (k, ex)
    }
    const UNSTABLE_EVALS: usize = 300;
    fn check_batch(w: &World, b: &[Item], rep: &mut Report) {
        rep.count("C16.batch", 1);
        let db = w.ws.analysis.compilation.get_db();
        if batch_mismatch(db, b).is_none() { return; }
        let cands = |v: &Vec<Item>| -> Vec<Vec<Item>> { (0..v.len()).filter(|_| v.len() > 1).map(|i| { let mut x = v.clone(); x.remove(i); x }).collect() };
        let show = |m: &[Item]| m.iter().map(|i| i.label.clone()).collect::<Vec<_>>().join(", ");
        if mismatch_rate(db, b, 40).0 < 40 {
            // the same computation on the same operands gives different answers from one evaluation to the next
            if !rep.wants("C16.batch unstable-eq") { return; }
            let m = minimise(b.to_vec(), &cands, &mut |v: &Vec<Item>| { let (k, _) = mismatch_rate(db, v, UNSTABLE_EVALS); k > 0 && k < UNSTABLE_EVALS });
            let (k, ex) = mismatch_rate(db, &m, 4 * UNSTABLE_EVALS);
            let Some((_, batch, one)) = ex else { return };
            rep.found("C16.batch unstable-eq", format!("[{}]: union_all and one-at-a-time differ in {k} of {} evaluations of the SAME batch, e.g. union_all has {} member(s) and one-at-a-time {}",
                                                       show(&m), 4 * UNSTABLE_EVALS, members(&batch).len(), members(&one).len()));
            return;
        }
        if !rep.wants("C16.batch") { return; }
        let m = minimise(b.to_vec(), &cands, &mut |v: &Vec<Item>| mismatch_rate(db, v, 3).0 == 3);
        let Some((kind, batch, one)) = batch_mismatch(db, &m) else { return };
        let labels = show(&m);
        // E7 of the unit (documented, not under the clause): `never` is dropped before folding, but union(acc, never) is `any` when acc is a Ref to an alias of any
        if m.len() == 2 && matches!(m[1].ty, LuaType::Never) && matches!(m[0].ty, LuaType::Ref(_)) && matches!(get_real_type(db, &m[0].ty), Some(LuaType::Any)) {
            rep.note(format!("batch [{labels}]: batch = {batch:?}, one at a time = {one:?} (alias of any followed by never: the unit's E7, the same type written differently)"));
            *rep.hits.entry("C16.batch").or_default() -= 1;
            return;
        }
        rep.found("C16.batch", format!("[{labels}] ({}): union_all = {batch:?}   one at a time = {one:?}   [types: {:?}]",
                                       if kind == "eq" { "same members, but the two results are not `==`" } else { "different members" }, m.iter().map(|i| &i.ty).collect::<Vec<_>>()));
    }
    /// the same annotation analysed twice gives two structurally equal values in different allocations; a batch with both is evaluated many times
    fn run_twin_batches(w: &mut World, rep: &mut Report) {
        let twins = ["fun(p0: {x: integer} | string)", "(A<integer> | string)[]", "[{x: integer} | nil]", "{y: A<integer> | string}", "table<string, {x: integer} | A<integer>>", "A<integer> | string"];
        let annots: Vec<String> = twins.iter().chain(twins.iter()).map(|s| s.to_string()).chain(["string".to_string(), "function".to_string()]).collect();
        let p = parse_all(&mut w.ws, &annots);
        let k = twins.len();
        let db = w.ws.analysis.compilation.get_db();
        for i in 0..k {
            let a = Item { label: format!("`{}`", twins[i]), ty: p[i].clone() };
            let b = Item { label: format!("`{}` (2nd parse)", twins[i]), ty: p[i + k].clone() };
            let s = Item { label: "`string`".into(), ty: p[2 * k].clone() };
            let f = Item { label: "`function`".into(), ty: p[2 * k + 1].clone() };
            let eq_true = (0..2000).filter(|_| a.ty == b.ty).count();
            for batch in [vec![a.clone(), b.clone()], vec![a.clone(), s.clone(), b.clone()], vec![b.clone(), f.clone(), a.clone()]] {
                rep.count("C16.batch", 4 * UNSTABLE_EVALS);
                let (n, ex) = mismatch_rate(db, &batch, 4 * UNSTABLE_EVALS);
                let Some((_, bt, one)) = ex else { continue };
                if !rep.wants("C16.batch unstable-eq") { continue; }
                let labels = batch.iter().map(|i| i.label.clone()).collect::<Vec<_>>().join(", ");
                rep.found("C16.batch unstable-eq", format!("[{labels}]: union_all and one-at-a-time differ in {n} of {} evaluations of the SAME batch, e.g. union_all has {} member(s) and one-at-a-time {}; `==` of the two parses (structurally equal, different allocations) is true in {eq_true} of 2000 evaluations (LuaUnionType::eq compares Multi members through a HashSet while Hash for LuaType hashes Object / Generic / Union / TableGeneric ... by allocation address)",
                                                           4 * UNSTABLE_EVALS, members(&bt).len(), members(&one).len()));
            }
        }
    }
    fn run_batches(w: &mut World, rng: &mut Rng, extra: &[Ty], systematic: bool, rep: &mut Report) {
        let (pool, nsys) = batch_pool(w, extra);
        if systematic {
            for a in 0..nsys { check_batch(w, &[pool[a].clone()], rep); }
            for a in 0..nsys { for b in 0..nsys { check_batch(w, &[pool[a].clone(), pool[b].clone()], rep); } }
            for a in 0..nsys { for b in 0..nsys { for c in 0..nsys { check_batch(w, &[pool[a].clone(), pool[b].clone(), pool[c].clone()], rep); } } }
        }
        for _ in 0..RANDOM_BATCHES {
            let k = 1 + rng.below(5);
            let mut b: Vec<Item> = Vec::new();
            for _ in 0..k {
                let it = if !b.is_empty() && rng.chance(20) { rng.pick(&b).clone() } else if rng.chance(55) { pool[rng.below(28)].clone() } else { rng.pick(&pool).clone() };
                b.push(it);
            }
            check_batch(w, &b, rep);
        }
    }

    // ------------------------------------------------------------------------------------------------ driver
    fn systematic_unions() -> Vec<Vec<Ty>> {
        let tup = |v: &[&str]| Ty::Tup(v.iter().map(|s| n(s)).collect());
        let tuples = vec![tup(&["integer"]), tup(&["string"]), tup(&["integer", "string"]), tup(&["string", "string"]), tup(&["string", "integer"]),
                          tup(&["integer", "integer"]), tup(&["integer", "string", "boolean"]), tup(&["boolean"])];
        let obj = |v: &[(&str, &str)]| Ty::Obj(v.iter().map(|(k, t)| (k.to_string(), n(t))).collect());
        let objs = vec![obj(&[("x", "integer")]), obj(&[("x", "string")]), obj(&[("y", "string")]), obj(&[("x", "integer"), ("y", "string")]), obj(&[("x", "integer[]")])];
        let mut out = Vec::new();
        for set in [&tuples, &objs] { for a in set.iter() { for b in set.iter() { if a != b { out.push(vec![a.clone(), b.clone()]); } } } }
        for i in 0..tuples.len() { out.push(vec![tuples[i].clone(), tuples[(i + 3) % tuples.len()].clone(), tuples[(i + 5) % tuples.len()].clone()]); }
        for t in &tuples[..4] { for o in &objs[..3] { out.push(vec![t.clone(), o.clone()]); out.push(vec![o.clone(), t.clone(), n("string")]); } }
        out
    }
    fn systematic_types() -> Vec<Ty> {
        let mut v: Vec<Ty> = PRIMS.iter().chain(LITS.iter()).chain(NAMED.iter()).map(|s| n(s)).collect();
        v.extend(["never", "any", "unknown", "io", "global"].iter().map(|s| n(s)));
        v
    }
    pub fn world_inputs(rng: &mut Rng) -> (Vec<Decl>, Vec<Ty>, Vec<Vec<Ty>>) {
        let decls = gen_hierarchy(rng);
        let mut classes: Vec<String> = decls.iter().filter(|d| !d.generic).map(|d| d.name.clone()).collect();
        classes.sort(); classes.dedup();
        let types: Vec<Ty> = (0..RANDOM_TYPES).map(|_| gen_ty(rng, &classes, 3, true)).collect();
        let unions: Vec<Vec<Ty>> = (0..RANDOM_UNIONS).map(|_| match gen_union(rng, &classes, 3) { Ty::Union(ms) => ms, _ => unreachable!() }).collect();
        (decls, types, unions)
    }
    pub fn run(seed: u64, worlds: usize) {
        let t0 = std::time::Instant::now();
        let mut rng = Rng::new(seed);
        let mut rep = Report::default();
        for wi in 0..worlds.max(1) {
            let (decls, mut types, mut unions) = world_inputs(&mut rng);
            let mut w = build_world(&decls);
            if wi == 0 { types.splice(0..0, systematic_types()); unions.splice(0..0, systematic_unions()); }
            let as_types: Vec<Ty> = unions.iter().map(|ms| Ty::Union(ms.clone())).collect();
            run_ancestors(&mut w, &mut rep);
            types.extend(as_types);
            run_reflexive_any(&mut w, &types, &mut rep);
            run_unions(&mut w, &unions, &mut rep);
            let extra: Vec<Ty> = types.iter().take(40).cloned().collect();
            run_batches(&mut w, &mut rng, &extra, wi == 0, &mut rep);
            if wi == 0 { run_twin_batches(&mut w, &mut rep); }
        }
        let total: usize = rep.found.values().map(|v| v.len()).sum();
        let cov = rep.checks.iter().map(|(c, k)| format!("{} {k}", c.trim_start_matches("C16."))).collect::<Vec<_>>().join(", ");
        for (c, h) in &rep.hits { if *h > 0 { println!("  {c}: {h} failing generated input(s), {} distinct minimised report(s)", rep.found.get(c).map_or(0, |v| v.len())); } }
        if total > 0 {
            println!("C16 search seed={seed} worlds={worlds}: {total} violation(s) FOUND; checks: {cov}; {:.1}s", t0.elapsed().as_secs_f64());
            std::process::exit(1);
        }
        println!("C16 search seed={seed} worlds={worlds}: no violation found; checks: {cov}; {} note(s); {:.1}s", rep.notes.len(), t0.elapsed().as_secs_f64());
    }
    /// the generated inputs of world k, in full
    pub fn show(seed: u64, k: usize) {
        let mut rng = Rng::new(seed);
        for wi in 0..=k {
            let (decls, types, unions) = world_inputs(&mut rng);
            if wi == k {
                println!("{PRELUDE}");
                for (f, t) in render_files(&decls).iter().enumerate() { println!("-- file {f}\n{t}"); }
                let mut w = build_world(&decls);
                let all: Vec<Ty> = types.iter().cloned().chain(unions.iter().map(|u| Ty::Union(u.clone()))).collect();
                let p = parse_all(&mut w.ws, &all.iter().map(|t| t.render()).collect::<Vec<_>>());
                for (t, v) in all.iter().zip(p) { println!("{}  {}\n          analysed to {}", if matches!(t, Ty::Union(_)) { "union" } else { "type " }, t.render(), w.ws.humanize_type_detailed(v)); }
                return;
            }
            // keep the stream of random numbers aligned with `run`: the batches draw from the same generator
            let mut w = build_world(&decls);
            let extra: Vec<Ty> = types.iter().take(40).cloned().collect();
            let mut rep = Report::default();
            run_batches(&mut w, &mut rng, &extra, false, &mut rep);
        }
    }
}
