//! Looks at what the guarded hook `emmylua_ls::verif_hooks` of the tree under test re-exports and turns each
//! handler this driver can use into a cfg (`hook_<name>`), so that the search covers exactly what is reachable
//! and picks up the proposed add-only re-exports (proposed_hook_reexports.diff) as soon as they are in the tree.
use std::path::PathBuf;

fn main() {
    let manifest_dir = PathBuf::from(std::env::var("CARGO_MANIFEST_DIR").expect("manifest dir"));
    let manifest = std::fs::read_to_string(manifest_dir.join("Cargo.toml")).expect("Cargo.toml");
    // emmylua_ls = { path = "<dir>" }
    let ls_dir = manifest.lines().find(|l| l.trim_start().starts_with("emmylua_ls")).and_then(|l| l.split("path").nth(1))
        .and_then(|r| r.split('"').nth(1)).map(PathBuf::from).expect("path of the emmylua_ls dependency");
    let mod_rs = ls_dir.join("src").join("handlers").join("mod.rs");
    println!("cargo:rerun-if-changed={}", mod_rs.display());
    println!("cargo:rerun-if-changed=Cargo.toml");
    let text = std::fs::read_to_string(&mod_rs).unwrap_or_default();
    let hooks = text.split("pub mod verif_hooks").nth(1).unwrap_or("");
    let hooks = &hooks[..hooks.find("\n}").unwrap_or(hooks.len())];
    let exported = |name: &str| hooks.split(|c: char| !(c.is_alphanumeric() || c == '_')).any(|w| w == name);
    for (cfg, symbol) in [("hook_inlay_hint", "inlay_hint"), ("hook_context", "ServerContext"), ("hook_symbols", "on_document_symbol"),
        ("hook_folding", "on_folding_range_handler"), ("hook_selection", "on_document_selection_range_handle"),
        ("hook_semantic", "semantic_token"), ("hook_capabilities", "server_capabilities")] {
        println!("cargo:rustc-check-cfg=cfg({cfg})");
        if exported(symbol) { println!("cargo:rustc-cfg={cfg}"); }
    }
}
