//! C26 bounded witness search on the REAL request handlers of emmylua_ls (through the cfg-guarded hook
//! `emmylua_ls::verif_hooks`; build.rs turns every handler the hook of the tree under test re-exports into a cfg, so the
//! search covers what is reachable - the re-exports still missing are in proposed_hook_reexports.diff).
//! Decides nothing: a hit is a concrete (workspace, file, request, position) whose response contradicts C26.
//!
//! Generated multi-file workspaces (per seed): class files (`---@class` with `---@overload` call operators, fields, an
//! enum, a derived class overriding a method, doc comments whose descriptions are random sequences of ADJACENT markdown
//! items `**bold**` `*em*` `***both***` `[link](x)` `` `code` `` and non-ASCII text), user files with ANOTHER line
//! geometry (random padding, a long first line) that call those operators / functions through the global and through
//! `require`, multi-line strings and comments, non-ASCII and non-BMP text, nested functions and tables, `--region`s,
//! if/for/while/repeat blocks, and a markup file.
//! Oracles, on every response (a position is "in" a document when line < line count and character <= the number of
//! characters of that line of THAT document, the one named by the URI, as the server's VFS holds it):
//!   location      definition / implementation / references / hover / code action / rename / inlay-hint label locations
//!                 lie in the document named by their URI, start <= end
//!   hint-target   an inlay-hint label location covers, in the target document, the declaration it stands for: `new` /
//!                 `:call` = exactly the `overload ...` tag of a `---@overload` line, `<name>:` = the parameter `<name>`
//!                 (`varN:` = `...`), `override` = a declaration naming the overridden method, a type name = that name
//!   panic         no handler panics
//!   edits         the edits for one file of a WorkspaceEdit (rename, code action) lie in that file and never overlap
//!   completion    an item's main edit is a single-line range on the cursor line that contains the cursor
//!   selection     every range lies in the document; each parent contains its child and differs from it
//!   symbols       ranges in the document, selection range inside the range, children inside their parent
//!   folding       start <= end, both lines in the document
//!   tokens        semantic tokens decode to tokens inside the document, ordered, not overlapping, type and modifier
//!                 indices inside the legend of `server_capabilities` (the length 9999 that the split of a multi-line token
//!                 gives its non-last pieces is read as "to the end of the line" unless --strict-token-length)
//! Two open findings on the unchanged tree (known_open_findings.txt: F1 selection ranges over merged adjacent markup
//! delimiters, F2 overlapping comment tokens on the continuation line of a split multi-line token) are printed as
//! KNOWN-FINDING and do not fail the search; any other hit of the same oracles still does.
//! Bounds: 5 workspaces x 5 files (about 65 lines each; every third workspace has two CRLF files); inlay hints, semantic
//! tokens (split and multi-line), symbols and folding once per file; selection ranges at EVERY position of every file; the
//! position-taking requests at the first and second character of every identifier and at every position of a doc-comment
//! line (completion: after every `.`/`:` and at the end of every 3rd identifier); code actions for 3 codes on every line.
//!   replay files <a.lua> ... | replay text '<lua>' ...   the same checks on the given files as one workspace (replay of a hit)
//!   --all-findings         do not treat the open findings of known_open_findings.txt as known (they are printed as
//!                          KNOWN-FINDING and do not fail the search otherwise)
//!   --strict-token-length  also reports the sentinel length 9999 of split multi-line tokens as running past its line
//!   replay search [seed]   prints "FOUND <oracle> request=.. file=.. ..." (per oracle the hit with the smallest document,
//!                          with the texts involved) and exits 1; exit 0 otherwise; exit 2 when the workspace cannot be
//!                          set up (a generated call produced no `new` hint with a location, no tokens, ...)
#![allow(dead_code)] // the oracles of handlers the hook of the tree under test does not re-export
use emmylua_code_analysis::{EmmyLuaAnalysis, FileId, VirtualUrlGenerator};
use emmylua_ls::verif_hooks as h;
use lsp_types::*;
use std::collections::BTreeMap;
use tokio_util::sync::CancellationToken;

// ------------------------------------------------------------------------------------------------ generator
struct Rng(u64);
impl Rng {
    fn next(&mut self) -> u64 { self.0 ^= self.0 << 13; self.0 ^= self.0 >> 7; self.0 ^= self.0 << 17; self.0 }
    fn below(&mut self, n: usize) -> usize { (self.next() % n as u64) as usize }
    fn pick<'a>(&mut self, v: &[&'a str]) -> &'a str { v[self.below(v.len())] }
}
struct GenFile { name: String, text: String }

fn markup(rng: &mut Rng, n: usize) -> String {
    const ITEMS: &[&str] = &["**bold**", "*em*", "***both***", "[link](x)", "`code`", "plain", "文本", "😀", "`a`", "**b**", "[参](http://y.z)", "é"];
    let mut s = String::new();
    for i in 0..n {
        if i > 0 && rng.below(2) == 0 { s.push(' '); }   // otherwise ADJACENT items
        s.push_str(rng.pick(ITEMS));
    }
    s
}
fn padding(rng: &mut Rng, max: usize) -> String {
    let mut s = String::new();
    for _ in 0..rng.below(max + 1) { s.push_str("-- "); for _ in 0..rng.below(12) { s.push_str(rng.pick(&["pad ", "填充", "é ", "xx", "-"])); } s.push('\n'); }
    if !s.is_empty() { s.push('\n'); }
    s
}

fn gen_workspace(rng: &mut Rng, w: usize) -> Vec<GenFile> {
    let tag = format!("w{w}");
    let mut files = vec![];
    for i in 0..2 {
        let (c, d, e) = (format!("W{w}Shape{i}"), format!("W{w}Derived{i}"), format!("W{w}Color{i}"));
        let mut t = padding(rng, 5);
        t.push_str(&format!("---@class {c} {}\n---@field size number The `size` of **it**{}\n---@field name string 名字\n", markup(rng, 5), markup(rng, 2)));
        for _ in 0..rng.below(3) { t.push_str(&format!("---@field extra{} integer {}\n", rng.below(100), markup(rng, 3))); }
        t.push_str(&format!("---@overload fun(x: integer): {c}\n---@overload fun(x: integer, y: string): {c}\n{c} = {{}}\n\n"));
        t.push_str(&format!("--- Creates a {c}. {}\n--- {}\n---@param a number first `a`{}\n---@param b? string second **b**\n---@param ... any rest\n---@return {c}\n", markup(rng, 6), markup(rng, 7), markup(rng, 2)));
        t.push_str(&format!("function {c}.create(a, b, ...)\n    local inner = function(p, q)\n        return {{ p = p, q = q, nested = {{ deep = function() return {{ 1, 2, \"三😀\" }} end }} }}\n    end\n    return inner(a, b)\nend\n\n"));
        t.push_str(&format!("---@return number\nfunction {c}:area()\n    return self.size * 2\nend\n\n---@class {d} : {c}\n{d} = {{}}\n\nfunction {d}:area()\n    return 1\nend\n\n"));
        t.push_str(&format!("---@enum {e}\n{e} = {{ Red = 1, Green = 2 }}\n\nreturn {c}\n"));
        files.push(GenFile { name: format!("{tag}_shapes_{i}.lua"), text: t });
    }
    for i in 0..2 {
        let (c, e) = (format!("W{w}Shape{i}"), format!("W{w}Color{i}"));
        let other = format!("W{w}Shape{}", 1 - i);
        let mut t = format!("local a_rather_long_local_name_{}_to_make_the_first_line_long_{} = 1; local early = {other}(0)\n", "x".repeat(rng.below(30)), "é".repeat(rng.below(9)));
        t.push_str(&padding(rng, 7));
        t.push_str(&format!("local Lib = require(\"{tag}_shapes_{i}\")\n--region Construction 区域 😀\nlocal s1 = {c}(1)\nlocal s2 = {c}(2, \"two\")\nlocal viaRequire = Lib(3)\n{c}.create(1, \"b\", 3, 4)\nlocal made = Lib.create(5, \"é\")\n--endregion\n"));
        t.push_str("local str = [[\nmulti\nline 字符串 😀\n]]\n--[[ multi-line\ncomment 注释 ]]\nlocal t = { a = 1, b = { c = function(x) return x end }, \"é\", [10] = 2 }\n");
        t.push_str("local function outer(f)\n    local function innerfn(g)\n        return function(k) return f, g, k end\n    end\n    return innerfn\nend\n");
        t.push_str(&format!("local s = \"中文\" .. str .. 'é😀' -- trailing 注释 {}\n---@type string 描述\nlocal described = s\n", markup(rng, 3)));
        t.push_str(&format!("if s1 then\n    print(s1:area(), t.b.c(3), str, s2, viaRequire, made, outer, early, described, {e}.Red)\nelseif s2 then\n    for i = 1, 3 do print(i) end\nelse\n    while false do end\n    repeat until true\nend\n"));
        t.push_str("local m1, m2 = function() return 1 end, 2\nlocal obj = { method = function(self) return self end, [\"键\"] = { 1 } }\nobj:method():method()\nlocal long = [==[\na ]] b 长\n]==]\ndo local scoped = m1; print(scoped, m2, long) end\n");
        t.push_str("local arr = { \"x\", \"y\" }\nprint(arr[1], t[10], a_rather_long)");
        t.push_str("\nreturn t\n");
        files.push(GenFile { name: format!("{tag}_use_{i}.lua"), text: t });
    }
    let mut t = String::from("--- Some **bold** text and `code` here.\n");
    for _ in 0..4 { t.push_str(&format!("--- {}\n", markup(rng, 8))); }
    t.push_str(&format!("---@param p string the `p`**q**{}\n---@return string {}\nlocal function documented(p) return p end\n\n--- {}\nlocal value = documented(\"x\")\nreturn value\n", markup(rng, 3), markup(rng, 4), markup(rng, 6)));
    files.push(GenFile { name: format!("{tag}_markup.lua"), text: t });
    // every third workspace has CRLF line ends in its first class file and its first user file
    if w % 3 == 2 { for i in [0, 2] { files[i].text = files[i].text.replace('\n', "\r\n"); } }
    files
}

// ------------------------------------------------------------------------------------------------ oracles
#[derive(Clone)]
struct Hit { oracle: &'static str, request: String, file: String, pos: Option<Position>, detail: String, size: usize, texts: Vec<(String, String)> }
struct Check<'a> { analysis: &'a EmmyLuaAnalysis, hits: Vec<Hit>, stats: BTreeMap<&'static str, u64>, file: String, text: String }

fn lines_of(text: &str) -> Vec<&str> { text.split('\n').collect() }
fn pos_in(lines: &[&str], p: Position) -> bool { lines.get(p.line as usize).is_some_and(|l| p.character as usize <= l.chars().count()) }
fn le(a: Position, b: Position) -> bool { (a.line, a.character) <= (b.line, b.character) }
fn range_in(lines: &[&str], r: Range) -> bool { pos_in(lines, r.start) && pos_in(lines, r.end) && le(r.start, r.end) }
fn contains(outer: Range, inner: Range) -> bool { le(outer.start, inner.start) && le(inner.end, outer.end) }
fn show(r: Range) -> String { format!("{}:{}-{}:{}", r.start.line, r.start.character, r.end.line, r.end.character) }
fn cover(lines: &[&str], r: Range) -> String {
    let mut out = String::new();
    for l in r.start.line..=r.end.line {
        let Some(line) = lines.get(l as usize) else { break; };
        let from = if l == r.start.line { r.start.character as usize } else { 0 };
        let to = if l == r.end.line { r.end.character as usize } else { usize::MAX };
        out.extend(line.chars().skip(from).take(to.saturating_sub(from)));
        if l != r.end.line { out.push('\n'); }
    }
    out
}
fn is_ident(s: &str) -> bool { !s.is_empty() && s.chars().all(|c| c.is_alphanumeric() || c == '_') && !s.chars().next().is_some_and(|c| c.is_ascii_digit()) }

impl<'a> Check<'a> {
    fn count(&mut self, what: &'static str) { *self.stats.entry(what).or_default() += 1; }
    fn doc_text(&self, uri: &Uri) -> Option<String> {
        let id = self.analysis.get_file_id(uri)?;
        Some(self.analysis.compilation.get_db().get_vfs().get_document(&id)?.get_text().to_string())
    }
    fn hit(&mut self, oracle: &'static str, request: &str, pos: Option<Position>, detail: String, other: Option<(&Uri, &str)>) {
        let mut texts = vec![(self.file.clone(), self.text.clone())];
        if let Some((u, t)) = other { if t != self.text { texts.push((u.as_str().rsplit('/').next().unwrap_or("").to_string(), t.to_string())); } }
        let size = texts.iter().map(|t| t.1.len()).sum();
        self.hits.push(Hit { oracle, request: request.to_string(), file: self.file.clone(), pos, detail, size, texts });
    }
    /// a Location lies in the document named by its URI; returns that document's text
    fn location(&mut self, request: &str, pos: Option<Position>, loc: &Location) -> Option<String> {
        self.count("locations");
        let Some(text) = self.doc_text(&loc.uri) else { self.hit("location", request, pos, format!("location {} names {} which the server does not hold", show(loc.range), loc.uri.as_str()), None); return None; };
        if !range_in(&lines_of(&text), loc.range) {
            let line = lines_of(&text).get(loc.range.start.line as usize).map(|l| l.chars().count());
            self.hit("location", request, pos, format!("location {} lies outside the document named by its URI {} ({} lines, line {} has {:?} characters)", show(loc.range), loc.uri.as_str(), lines_of(&text).len(), loc.range.start.line, line), Some((&loc.uri, &text)));
            return None;
        }
        Some(text)
    }
    fn own_range(&mut self, oracle: &'static str, request: &str, pos: Option<Position>, r: Range, what: &str) -> bool {
        let ok = range_in(&lines_of(&self.text), r);
        if !ok { self.hit(oracle, request, pos, format!("{what} {} lies outside the document", show(r)), None); }
        ok
    }
    fn goto(&mut self, request: &str, pos: Position, r: Option<GotoDefinitionResponse>) {
        match r {
            Some(GotoDefinitionResponse::Scalar(l)) => { self.location(request, Some(pos), &l); }
            Some(GotoDefinitionResponse::Array(v)) => for l in v { self.location(request, Some(pos), &l); },
            Some(GotoDefinitionResponse::Link(v)) => for l in v {
                self.location(request, Some(pos), &Location::new(l.target_uri.clone(), l.target_range));
                self.location(request, Some(pos), &Location::new(l.target_uri.clone(), l.target_selection_range));
                if !contains(l.target_range, l.target_selection_range) { self.hit("location", request, Some(pos), format!("link selection range {} is not inside its target range {}", show(l.target_selection_range), show(l.target_range)), None); }
                if let Some(o) = l.origin_selection_range { self.own_range("location", request, Some(pos), o, "origin selection range"); }
            },
            None => {}
        }
    }
    fn text_edits(&mut self, request: &str, pos: Option<Position>, uri: &Uri, edits: &[TextEdit]) {
        self.count("edit sets");
        let Some(text) = self.doc_text(uri) else { self.hit("edits", request, pos, format!("edits for {} which the server does not hold", uri.as_str()), None); return; };
        let lines = lines_of(&text);
        for e in edits { if !range_in(&lines, e.range) { self.hit("edits", request, pos, format!("edit {} -> {:?} lies outside {}", show(e.range), e.new_text, uri.as_str()), Some((uri, &text))); return; } }
        let mut sorted: Vec<&TextEdit> = edits.iter().collect();
        sorted.sort_by_key(|e| (e.range.start.line, e.range.start.character, e.range.end.line, e.range.end.character));
        for p in sorted.windows(2) {
            let (a, b) = (p[0].range, p[1].range);
            let a_empty = a.start == a.end;
            if !le(a.end, b.start) || (a == b && !a_empty) { self.hit("edits", request, pos, format!("edits {} -> {:?} and {} -> {:?} of {} overlap", show(a), p[0].new_text, show(b), p[1].new_text, uri.as_str()), Some((uri, &text))); return; }
        }
    }
    fn workspace_edit(&mut self, request: &str, pos: Option<Position>, we: &WorkspaceEdit) {
        if let Some(changes) = &we.changes { for (uri, edits) in changes { self.text_edits(request, pos, uri, edits); } }
        if let Some(dc) = &we.document_changes {
            let docs: Vec<&TextDocumentEdit> = match dc { DocumentChanges::Edits(v) => v.iter().collect(), DocumentChanges::Operations(v) => v.iter().filter_map(|o| if let DocumentChangeOperation::Edit(e) = o { Some(e) } else { None }).collect() };
            let mut per: BTreeMap<String, (Uri, Vec<TextEdit>)> = BTreeMap::new();
            for d in docs { let e = per.entry(d.text_document.uri.as_str().to_string()).or_insert_with(|| (d.text_document.uri.clone(), vec![]));
                for x in &d.edits { e.1.push(match x { OneOf3::Left(t) => t.clone(), OneOf3::Middle(a) => a.text_edit.clone(), OneOf3::Right(sn) => TextEdit { range: sn.range, new_text: sn.snippet.clone() } }); } }
            for (_, (uri, edits)) in per { self.text_edits(request, pos, &uri, &edits); }
        }
    }
    fn completion(&mut self, pos: Position, r: Option<CompletionResponse>) {
        let items = match r { Some(CompletionResponse::Array(v)) => v, Some(CompletionResponse::List(l)) => l.items, None => return };
        for it in items {
            self.count("completion items");
            let ranges: Vec<Range> = match &it.text_edit { Some(CompletionTextEdit::Edit(e)) => vec![e.range], Some(CompletionTextEdit::InsertAndReplace(e)) => vec![e.insert, e.replace], None => vec![] };
            for r in ranges {
                if !self.own_range("completion", "completion", Some(pos), r, &format!("main edit of item {:?}", it.label)) { return; }
                if r.start.line != r.end.line || r.start.line != pos.line || !(r.start.character <= pos.character && pos.character <= r.end.character) {
                    self.hit("completion", "completion", Some(pos), format!("main edit {} of item {:?} is not a single-line range containing the cursor", show(r), it.label), None); return;
                }
            }
            if let Some(extra) = &it.additional_text_edits { for e in extra { if !self.own_range("completion", "completion", Some(pos), e.range, &format!("additional edit of item {:?}", it.label)) { return; } } }
        }
    }
    fn inlay_hints(&mut self, hints: Vec<InlayHint>) {
        let own = self.text.clone();
        let own_lines = lines_of(&own);
        for hint in hints {
            self.count("inlay hints");
            if !pos_in(&own_lines, hint.position) { self.hit("location", "inlayHint", None, format!("hint position {}:{} lies outside the document", hint.position.line, hint.position.character), None); continue; }
            let InlayHintLabel::LabelParts(parts) = &hint.label else { continue; };
            for part in parts {
                let Some(loc) = &part.location else { continue; };
                self.count("inlay hint label locations");
                let Some(target) = self.location(&format!("inlayHint label {:?}", part.value), Some(hint.position), loc) else { continue; };
                let tl = lines_of(&target);
                let t = cover(&tl, loc.range);
                let v = part.value.as_str();
                let bad = if v == "new" || v == ":call" {
                    self.count("meta-call hint locations");
                    let line = tl.get(loc.range.start.line as usize).copied().unwrap_or("");
                    let rest: String = line.trim_end_matches('\r').chars().skip(4).collect();
                    if line.starts_with("---@overload ") && loc.range.start.character == 4 && t == rest { None } else { Some(format!("expected exactly the `overload ...` tag of a `---@overload` line")) }
                } else if v == "override" {
                    let before: String = own_lines[hint.position.line as usize].chars().take(hint.position.character as usize).collect();
                    let name = before.rsplit('(').nth(1).map(|s| s.rsplit(|c: char| !(c.is_alphanumeric() || c == '_')).next().unwrap_or("").to_string()).unwrap_or_default();
                    if !name.is_empty() && !t.contains(&name) { Some(format!("expected a declaration naming the overridden method `{name}`")) } else { None }
                } else if hint.kind == Some(InlayHintKind::PARAMETER) && v.ends_with(':') {
                    let name = &v[..v.len() - 1];
                    let is_var = name.strip_prefix("var").is_some_and(|n| !n.is_empty() && n.chars().all(|c| c.is_ascii_digit()));
                    if t == name || (is_var && t == "...") { None } else { Some(format!("expected the parameter `{}`", if is_var { "..." } else { name })) }
                } else {
                    let name = v.trim_matches(|c: char| !(c.is_alphanumeric() || c == '_'));
                    if is_ident(name) && is_ident(&t) && name != t { Some(format!("expected the declaration of `{name}`")) } else { None }
                };
                if let Some(why) = bad {
                    self.hit("hint-target", &format!("inlayHint label {:?}", part.value), Some(hint.position), format!("label location {} in {} covers {:?}: {why}", show(loc.range), loc.uri.as_str().rsplit('/').next().unwrap_or(""), t), Some((&loc.uri, &target)));
                }
            }
        }
    }
    fn selection(&mut self, positions: &[Position], result: Option<Vec<SelectionRange>>) {
        let Some(result) = result else { return; };
        let aligned = result.len() == positions.len();
        for (i, sr) in result.iter().enumerate() {
            self.count("selection chains");
            let pos = if aligned { Some(positions[i]) } else { None };
            let mut cur = sr;
            if !self.own_range("selection", "selectionRange", pos, cur.range, "range") { continue; }
            while let Some(parent) = cur.parent.as_deref() {
                if !self.own_range("selection", "selectionRange", pos, parent.range, "range") { break; }
                if !contains(parent.range, cur.range) || parent.range == cur.range {
                    let (c, p) = (cover(&lines_of(&self.text), cur.range), cover(&lines_of(&self.text), parent.range));
                    // class of the hit: two ranges that cross each other where the inner one consists of markup delimiters only
                    // are two ADJACENT delimiters (the closing one of an item, the opening one of the next) reported as one item
                    let crossing = !le(parent.range.end, cur.range.start) && !le(cur.range.end, parent.range.start) && parent.range != cur.range;
                    let class = if crossing && c.chars().count() >= 2 && c.chars().all(|ch| "*`_~".contains(ch)) { " [merged adjacent markup delimiters]" } else { "" };
                    self.hit("selection", "selectionRange", pos, format!("parent {} ({:?}) does not strictly contain its child {} ({:?}){class}", show(parent.range), p.chars().take(40).collect::<String>(), show(cur.range), c.chars().take(40).collect::<String>()), None);
                    break;
                }
                cur = parent;
            }
        }
    }
    fn symbols(&mut self, syms: &[DocumentSymbol], parent: Option<Range>) {
        for s in syms {
            self.count("document symbols");
            if !self.own_range("symbols", "documentSymbol", None, s.range, &format!("range of symbol {:?}", s.name)) { continue; }
            if !self.own_range("symbols", "documentSymbol", None, s.selection_range, &format!("selection range of symbol {:?}", s.name)) { continue; }
            if !contains(s.range, s.selection_range) { self.hit("symbols", "documentSymbol", None, format!("selection range {} of symbol {:?} is not inside its range {}", show(s.selection_range), s.name, show(s.range)), None); }
            if let Some(p) = parent { if !contains(p, s.range) { self.hit("symbols", "documentSymbol", None, format!("symbol {:?} {} is not inside its parent {}", s.name, show(s.range), show(p)), None); } }
            if let Some(children) = &s.children { self.symbols(children, Some(s.range)); }
        }
    }
    fn folding(&mut self, folds: Vec<FoldingRange>) {
        let n = lines_of(&self.text).len() as u32;
        for f in folds {
            self.count("folding ranges");
            let bad = f.start_line > f.end_line || f.end_line >= n || (f.start_line == f.end_line && matches!((f.start_character, f.end_character), (Some(a), Some(b)) if a > b));
            if bad { self.hit("folding", "foldingRange", None, format!("folding range {}:{:?}-{}:{:?} (document has {n} lines)", f.start_line, f.start_character, f.end_line, f.end_character), None); }
        }
    }
    /// `strict` = false: the length 9999 that the split of a multi-line token gives to its non-last pieces (for clients
    /// without multi-line token support) is read as "to the end of the line", which is what it is documented to mean
    fn tokens(&mut self, request: &str, data: &[SemanticToken], multiline: bool, legend: Option<(usize, usize)>, strict: bool) {
        let text = self.text.clone();
        let lines = lines_of(&text);
        let (mut line, mut col) = (0u32, 0u32);
        let mut prev_end: Option<(u32, u32)> = None;
        // (line of the last piece of sentinel length, its type); (line and type of the last continuation piece of such a split)
        let mut last_sentinel: Option<(u32, u32)> = None;
        let mut prev_piece: Option<(u32, u32)> = None;
        let mut reported = 0;
        for (i, t) in data.iter().enumerate() {
            if reported >= 10 { return; }
            self.count("semantic tokens");
            line += t.delta_line;
            col = if t.delta_line == 0 { col + t.delta_start } else { t.delta_start };
            let here = format!("token #{i} line {line} col {col} len {} type {} mods {:#b}", t.length, t.token_type, t.token_modifiers_bitset);
            if DUMP.load(std::sync::atomic::Ordering::Relaxed) { println!("  {request} {here}"); }
            let Some(l) = lines.get(line as usize) else { self.hit("tokens", request, None, format!("{here}: the document has {} lines", lines.len()), None); return; };
            let len = l.chars().count() as u32;
            let sentinel = !multiline && !strict && t.length == 9999;
            if sentinel { self.count("semantic tokens of sentinel length 9999"); }
            if col > len || (!multiline && !sentinel && col.saturating_add(t.length) > len) { reported += 1; self.hit("tokens", request, None, format!("{here} runs past the end of its line ({len} characters): {l:?}"), None); }
            if let Some((pl, pe)) = prev_end { if (line, col) < (pl, pe) {
                // class of the hit: the previous token is a continuation piece of a split multi-line token and this token, of the
                // same type, starts inside it (the `--- ` prefix of a continuation line of a multi-line description)
                let class = if prev_piece == Some((line, t.token_type)) { " [piece of a split multi-line token overlaps a token of the same type]" } else { "" };
                reported += 1;
                self.hit("tokens", request, None, format!("{here} starts before the end {pl}:{pe} of the previous token: {l:?}{class}"), None);
            } }
            if let Some((types, mods)) = legend {
                if t.token_type as usize >= types || (t.token_modifiers_bitset as u64) >> mods != 0 { reported += 1; self.hit("tokens", request, None, format!("{here}: outside the legend ({types} types, {mods} modifiers)"), None); }
            }
            let is_piece = col == 0 && last_sentinel.is_some_and(|(sl, ty)| sl + 1 == line && ty == t.token_type);
            if is_piece { prev_piece = Some((line, t.token_type)); }
            if !multiline && t.length == 9999 { last_sentinel = Some((line, t.token_type)); } else if last_sentinel.is_some_and(|(sl, _)| line > sl + 1) { last_sentinel = None; }
            let end = if col.saturating_add(t.length) <= len { (line, col + t.length) } else { (line, len.max(col)) };
            prev_end = Some(match prev_end { Some(p) if p > end => p, _ => end });
        }
    }
}

fn ident_positions(text: &str) -> (Vec<Position>, Vec<Position>) {
    let (mut nav, mut comp) = (vec![], vec![]);
    let mut n = 0;
    for (l, line) in text.split('\n').enumerate() {
        let chars: Vec<char> = line.chars().collect();
        // doc comment lines: every position (descriptions, references, type expressions)
        if line.starts_with("---") { for c in 0..=chars.len() { nav.push(Position::new(l as u32, c as u32)); } }
        let mut c = 0;
        while c < chars.len() {
            if chars[c].is_alphabetic() || chars[c] == '_' {
                let s = c;
                while c < chars.len() && (chars[c].is_alphanumeric() || chars[c] == '_') { c += 1; }
                nav.push(Position::new(l as u32, s as u32));
                if c - s > 1 { nav.push(Position::new(l as u32, s as u32 + 1)); }
                n += 1;
                if n % 3 == 0 { comp.push(Position::new(l as u32, c as u32)); }
            } else {
                if chars[c] == '.' || chars[c] == ':' { comp.push(Position::new(l as u32, c as u32 + 1)); }
                c += 1;
            }
        }
    }
    (nav, comp)
}

// ------------------------------------------------------------------------------------------------ search
static LAST_TASK_PANIC: std::sync::Mutex<String> = std::sync::Mutex::new(String::new());
/// a synchronous handler entry: a panic is a hit of its own (the request task of the server would die)
macro_rules! guard { ($ck:expr, $req:expr, $pos:expr, $call:expr) => {
    match std::panic::catch_unwind(std::panic::AssertUnwindSafe(|| $call)) { Ok(v) => v,
        Err(_) => { let m = LAST_TASK_PANIC.lock().map(|g| g.clone()).unwrap_or_default(); $ck.hit("panic", $req, $pos, format!("the handler panicked: {}", m.chars().take(300).collect::<String>()), None); None } }
} }
/// an async handler entry, run as its own task like in the server
#[allow(unused_macros)]
macro_rules! task { ($ck:expr, $req:expr, $fut:expr) => {
    match tokio::spawn($fut).await { Ok(v) => v,
        Err(_) => { let m = LAST_TASK_PANIC.lock().map(|g| g.clone()).unwrap_or_default(); $ck.hit("panic", $req, None, format!("the request task panicked: {}", m.chars().take(300).collect::<String>()), None); None } }
} }
const WORKSPACES: usize = 5;
static DUMP: std::sync::atomic::AtomicBool = std::sync::atomic::AtomicBool::new(false);
fn load_known(all_findings: bool) -> Vec<(String, String)> {
    if all_findings { return vec![]; }
    include_str!("../../known_open_findings.txt").lines().filter(|l| !l.trim().is_empty() && !l.starts_with('#'))
        .filter_map(|l| l.split_once(' ').map(|(o, s)| (o.to_string(), s.trim().to_string()))).collect()
}

async fn search(seed: u64, given: Option<Vec<GenFile>>, strict: bool, known: Vec<(String, String)>) -> i32 {
    let t0 = std::time::Instant::now();
    let _ = strict;
    let (server_end, _client_end) = lsp_server::Connection::memory();
    let context = h::ServerContext::new(server_end, ClientCapabilities::default());
    let snap = context.snapshot();
    let generator = VirtualUrlGenerator::new();
    let mut rng = Rng(seed.wrapping_mul(0x9E3779B97F4A7C15) | 1);
    { let mut a = snap.analysis().write().await; a.add_main_workspace(generator.base.clone()); a.init_std_lib(None); }
    #[cfg(hook_capabilities)]
    let legend: Option<(usize, usize)> = match h::server_capabilities(&ClientCapabilities::default()).semantic_tokens_provider {
        Some(SemanticTokensServerCapabilities::SemanticTokensOptions(o)) => Some((o.legend.token_types.len(), o.legend.token_modifiers.len())),
        Some(SemanticTokensServerCapabilities::SemanticTokensRegistrationOptions(o)) => Some((o.semantic_tokens_options.legend.token_types.len(), o.semantic_tokens_options.legend.token_modifiers.len())),
        None => None };
    #[cfg(not(hook_capabilities))]
    let legend: Option<(usize, usize)> = None;
    let _ = &legend;
    let mut all_hits: Vec<Hit> = vec![];
    let mut stats: BTreeMap<&'static str, u64> = BTreeMap::new();
    let mut nfiles = 0;
    let vacuity_check = given.is_none();
    let workspaces: Vec<Vec<GenFile>> = match given { Some(files) => vec![files], None => (0..WORKSPACES).map(|w| gen_workspace(&mut rng, w)).collect() };
    let nws = workspaces.len();
    for files in workspaces {
        let mut ids: Vec<(Uri, FileId)> = vec![];
        {
            let mut a = snap.analysis().write().await;
            for f in &files { let uri = generator.new_uri(&f.name); let id = a.update_file_by_uri(&uri, Some(f.text.clone())).expect("file id"); ids.push((uri, id)); }
        }
        for (f, (uri, id)) in files.iter().zip(ids.iter()) {
            nfiles += 1;
            let analysis = snap.analysis().read().await;
            let mut ck = Check { analysis: &analysis, hits: vec![], stats: BTreeMap::new(), file: f.name.clone(), text: f.text.clone() };
            if ck.doc_text(uri).as_deref() != Some(f.text.as_str()) { println!("SETUP-FAILED the server's text of {} is not the generated text", f.name); return 2; }
            let tdi = TextDocumentIdentifier { uri: uri.clone() };
            let _ = &tdi;
            // document-wide requests
            #[cfg(hook_inlay_hint)]
            if let Some(hints) = guard!(ck, "inlayHint", None, h::inlay_hint(&analysis, *id, h::ClientId::VSCode)) { ck.inlay_hints(hints); }
            #[cfg(hook_semantic)]
            for multiline in [false, true] {
                if let Some(SemanticTokensResult::Tokens(t)) = guard!(ck, "semanticTokens", None, h::semantic_token(&analysis, *id, multiline, h::ClientId::VSCode)) { ck.tokens(if multiline { "semanticTokens(multiline)" } else { "semanticTokens" }, &t.data, multiline, legend, strict); }
            }
            #[cfg(hook_symbols)]
            if let Some(DocumentSymbolResponse::Nested(syms)) = task!(ck, "documentSymbol", h::on_document_symbol(snap.clone(), DocumentSymbolParams { text_document: tdi.clone(), work_done_progress_params: Default::default(), partial_result_params: Default::default() }, CancellationToken::new())) { ck.symbols(&syms, None); }
            #[cfg(hook_folding)]
            if let Some(folds) = task!(ck, "foldingRange", h::on_folding_range_handler(snap.clone(), FoldingRangeParams { text_document: tdi.clone(), work_done_progress_params: Default::default(), partial_result_params: Default::default() }, CancellationToken::new())) { ck.folding(folds); }
            #[cfg(hook_selection)]
            {
                let mut positions = vec![];
                for (l, line) in f.text.split('\n').enumerate() { for c in 0..=line.chars().count() { positions.push(Position::new(l as u32, c as u32)); } }
                // line by line: one unanswerable position must not hide the others
                let mut by_line: BTreeMap<u32, Vec<Position>> = BTreeMap::new();
                for p in positions { by_line.entry(p.line).or_default().push(p); }
                for (_, ps) in by_line {
                    let r = task!(ck, "selectionRange", h::on_document_selection_range_handle(snap.clone(), SelectionRangeParams { text_document: tdi.clone(), positions: ps.clone(), work_done_progress_params: Default::default(), partial_result_params: Default::default() }, CancellationToken::new()));
                    ck.selection(&ps, r);
                }
            }
            // position-taking requests
            let (nav, comp) = ident_positions(&f.text);
            for pos in nav {
                ck.count("navigation positions");
                let r = guard!(ck, "definition", Some(pos), h::definition(&analysis, *id, pos)); ck.goto("definition", pos, r);
                let r = guard!(ck, "implementation", Some(pos), h::implementation(&analysis, *id, pos)); ck.goto("implementation", pos, r);
                if let Some(locs) = guard!(ck, "references", Some(pos), h::references(&analysis, *id, pos, true)) { for l in locs { ck.location("references", Some(pos), &l); } }
                if let Some(hv) = guard!(ck, "hover", Some(pos), h::hover(&analysis, *id, pos)) { if let Some(r) = hv.range { ck.own_range("location", "hover", Some(pos), r, "hover range"); } }
                if let Some(we) = guard!(ck, "rename", Some(pos), h::rename(&analysis, *id, pos, "renamed_zz".to_string())) { ck.workspace_edit("rename", Some(pos), &we); }
            }
            for pos in comp {
                ck.count("completion positions");
                let r = guard!(ck, "completion", Some(pos), h::completion(&analysis, *id, pos, CompletionTriggerKind::INVOKED, CancellationToken::new()));
                ck.completion(pos, r);
            }
            for (l, line) in f.text.split('\n').enumerate() {
                for code in ["undefined-global", "need-check-nil", "unused"] {
                    let range = Range::new(Position::new(l as u32, 0), Position::new(l as u32, line.chars().count() as u32));
                    let d = Diagnostic { range, source: Some("EmmyLua".to_string()), code: Some(NumberOrString::String(code.to_string())), ..Default::default() };
                    if let Some(actions) = guard!(ck, "codeAction", Some(range.start), h::code_action(&analysis, *id, vec![d])) {
                        for a in actions { if let CodeActionOrCommand::CodeAction(ca) = a { if let Some(we) = &ca.edit { ck.workspace_edit(&format!("codeAction {code}"), Some(range.start), we); } } }
                    }
                }
            }
            for (k, v) in ck.stats { *stats.entry(k).or_default() += v; }
            all_hits.extend(ck.hits);
        }
        // the next workspace starts from an empty main workspace
        let mut a = snap.analysis().write().await;
        for (uri, _) in &ids { a.update_file_by_uri(uri, None); }
    }
    let hooks: Vec<&str> = [("inlay_hint", cfg!(hook_inlay_hint)), ("semantic_token", cfg!(hook_semantic)), ("on_document_symbol", cfg!(hook_symbols)), ("on_folding_range_handler", cfg!(hook_folding)),
        ("on_document_selection_range_handle", cfg!(hook_selection)), ("server_capabilities", cfg!(hook_capabilities))].iter().filter(|x| !x.1).map(|x| x.0).collect();
    let stat_line = stats.iter().map(|(k, v)| format!("{v} {k}")).collect::<Vec<_>>().join(", ");
    // open findings recorded next to this crate: printed as KNOWN-FINDING, they do not fail the search
    let is_known = |hit: &Hit| known.iter().any(|(o, sub)| (o == "*" || o == hit.oracle) && hit.detail.contains(sub.as_str()));
    let (known_hits, new_hits): (Vec<&Hit>, Vec<&Hit>) = all_hits.iter().partition(|x| is_known(x));
    for (label, hits) in [("KNOWN-FINDING", &known_hits), ("FOUND", &new_hits)] {
        let mut by_oracle: BTreeMap<&str, Vec<&Hit>> = BTreeMap::new();
        for hit in hits.iter() { by_oracle.entry(hit.oracle).or_default().push(*hit); }
        for (oracle, hits) in &by_oracle {
            let best = hits.iter().min_by_key(|x| (x.size, x.pos.map(|p| (p.line, p.character)))).expect("hit");
            println!("{label} {oracle} request={} file={} position={} (workspace generated by `replay search {seed}`; {} hits of this oracle): {}", best.request, best.file, best.pos.map(|p| format!("{}:{}", p.line, p.character)).unwrap_or_else(|| "-".to_string()), hits.len(), best.detail);
            for (name, text) in &best.texts { println!("  {name}: {text:?}"); }
        }
    }
    if !new_hits.is_empty() { return 1; }
    // vacuity: the scenarios the oracles are about must have occurred
    let need: &[(&'static str, bool)] = &[("locations", true), ("meta-call hint locations", cfg!(hook_inlay_hint)), ("inlay hint label locations", cfg!(hook_inlay_hint)), ("semantic tokens", cfg!(hook_semantic)), ("document symbols", cfg!(hook_symbols)),
        ("folding ranges", cfg!(hook_folding)), ("selection chains", cfg!(hook_selection)), ("completion items", true), ("edit sets", true)];
    for (k, wanted) in need { if vacuity_check && *wanted && stats.get(k).copied().unwrap_or(0) == 0 { println!("SETUP-FAILED the generated workspaces produced no {k} ({stat_line})"); return 2; } }
    println!("no violation: {nfiles} files in {nws} workspaces (seed {seed}): {stat_line}; {:.1} s", t0.elapsed().as_secs_f64());
    if !hooks.is_empty() { println!("NOT COVERED (not re-exported by verif_hooks of this tree, see proposed_hook_reexports.diff): {}", hooks.join(", ")); }
    0
}

#[tokio::main]
async fn main() {
    std::panic::set_hook(Box::new(|info| { if let Ok(mut g) = LAST_TASK_PANIC.lock() { *g = info.to_string().replace('\n', " "); } }));
    let a: Vec<String> = std::env::args().skip(1).collect();
    let strict = a.iter().any(|x| x == "--strict-token-length");
    if a.iter().any(|x| x == "--dump") { DUMP.store(true, std::sync::atomic::Ordering::Relaxed); }
    let known = load_known(a.iter().any(|x| x == "--all-findings"));
    let a: Vec<String> = a.into_iter().filter(|x| x != "--strict-token-length" && x != "--all-findings" && x != "--dump").collect();
    match a.first().map(|s| s.as_str()) {
        Some("search") | None => { let rc = search(a.get(1).and_then(|s| s.parse().ok()).unwrap_or(1), None, strict, known).await; std::process::exit(rc); }
        Some("files") if a.len() > 1 => {
            let files: Vec<GenFile> = a[1..].iter().map(|p| GenFile { name: p.rsplit('/').next().unwrap_or(p).to_string(), text: std::fs::read_to_string(p).expect("readable file") }).collect();
            let rc = search(0, Some(files), strict, known).await; std::process::exit(rc);
        }
        Some("text") if a.len() > 1 => {
            let files: Vec<GenFile> = a[1..].iter().enumerate().map(|(i, t)| GenFile { name: format!("text_{i}.lua"), text: t.replace("\\n", "\n") }).collect();
            let rc = search(0, Some(files), strict, known).await; std::process::exit(rc);
        }
        _ => { eprintln!("use: replay search [seed] | replay files <a.lua> ... | replay text '<lua text, \\n for a line break>' ...   [--strict-token-length]"); std::process::exit(2); }
    }
}
