//! C10 replay for unit c10_writers: call sites that do not establish a precondition of an index WRITER, so that
//! `remove(file)` leaves an object naming the removed file. Public API only: new analysis -> default config -> main workspace
//! /vp_c10w -> add file(s) -> remove one -> look for the removed FileId / class in the `Debug` rendering of the index concerned.
//!   [M]  member_current_owner entry of `t[k] = 1` (expression key: no member is created)      -- repaired in /repo 5c59cf7
//!   [T1] super clause attached, through `---@using`, to a class that another file declares    -- open (sweep in `remove` pending)
//!   [T2] root class that a `---@[constructor(name, root)]` call adds to a class of another file -- open (same)
//!   [P]  property_owners_map entry of the closure of `local function f() end`                  -- repaired in /repo d4b0e6c
//!   [L5] members of another file's table re-owned to a class of the removed file               -- open known finding
//! exit 1 = at least one trace of a removed file was found, exit 0 = clean.
//! run: cd /verif/replay/c10_writers_demo && CARGO_TARGET_DIR=/verif/build/replay-target cargo run --offline -q --bin replay
use emmylua_code_analysis::{EmmyLuaAnalysis, Emmyrc, FileId, file_path_to_uri};
use std::path::PathBuf;
use std::sync::Arc;

fn fresh() -> EmmyLuaAnalysis {
    let mut a = EmmyLuaAnalysis::new();
    a.update_config(Arc::new(Emmyrc::default()));
    a.add_main_workspace(PathBuf::from("/vp_c10w"));
    a
}
fn add(a: &mut EmmyLuaAnalysis, path: &str, text: &str) -> FileId {
    let uri = file_path_to_uri(&PathBuf::from(path)).expect("uri");
    a.update_file_by_uri(&uri, Some(text.to_string())).expect("file id")
}
fn remove(a: &mut EmmyLuaAnalysis, path: &str) {
    let uri = file_path_to_uri(&PathBuf::from(path)).expect("uri");
    a.remove_file_by_uri(&uri);
}
/// the `field: {...}` part of a Debug rendering (up to the next top-level field name given)
fn field(s: &str, name: &str, next: &str) -> String {
    match s.find(&format!("{name}: ")) {
        Some(p) => { let rest = &s[p..]; let e = rest.find(&format!(", {next}: ")).unwrap_or(rest.len()); rest[..e].to_string() }
        None => format!("<{name} not found>"),
    }
}
fn main() {
    let mut bad = 0;
    // ---- M: member_current_owner entry for an index expression with an expression key ---------------------------------
    {
        let mut a = fresh();
        let f = add(&mut a, "/vp_c10w/m.lua", "local t = {}\nlocal k = \"x\"\nt[k] = 1\n");
        let before = format!("{:?}", a.compilation.get_db().get_member_index());
        remove(&mut a, "/vp_c10w/m.lua");
        let after = format!("{:?}", a.compilation.get_db().get_member_index());
        let mco = field(&after, "member_current_owner", "zzz");
        let leak = mco.contains(&format!("{:?}", f));
        println!("[M] file {:?}: member_current_owner before: {}", f, field(&before, "member_current_owner", "zzz"));
        println!("[M] after remove: {}  -> names removed file: {leak}", mco);
        if leak { bad += 1; }
    }
    // ---- T1: a super type attached (through `---@using`) to a class declared in another file ------------------------------
    {
        let mut a = fresh();
        let fa = add(&mut a, "/vp_c10w/a.lua", "---@namespace M\n---@class Foo\n");
        let fb = add(&mut a, "/vp_c10w/b.lua", "---@using M\n---@class Bar\n---@class Foo: Bar\n");
        let before = format!("{:?}", a.compilation.get_db().get_type_index());
        remove(&mut a, "/vp_c10w/b.lua");
        let after = format!("{:?}", a.compilation.get_db().get_type_index());
        let sup = field(&after, "supers", "types");
        let leak = sup.contains(&format!("file_id: {:?}", fb));
        println!("[T1] a={:?} b={:?}: supers before: {}", fa, fb, field(&before, "supers", "types"));
        println!("[T1] after remove(b): {}  -> names removed file: {leak}", sup);
        if leak { bad += 1; }
    }
    // ---- P: property_owners_map entry of the closure of `local function f() end` ------------------------------------------
    {
        let mut a = fresh();
        let f = add(&mut a, "/vp_c10w/p.lua", "local function f() end\n");
        remove(&mut a, "/vp_c10w/p.lua");
        let after = format!("{:?}", a.compilation.get_db().get_property_index());
        let pom = field(&after, "property_owners_map", "id_count");
        let leak = pom.contains(&format!("{:?}", f));
        println!("[P] after remove({:?}): {}  -> names removed file: {leak}", f, pom);
        if leak { bad += 1; }
    }
    // ---- T2: the root class that a `---@[constructor(name, root)]` call adds to a class declared in ANOTHER file -------------
    {
        let mut a = fresh();
        add(&mut a, "/vp_c10w/3_meta.lua", "---@class Attribute\n---@class constructor: Attribute\n---@overload fun(name: string, root_class?: string, strip_self?: boolean, return_mode?: \"self\"|\"doc\"|\"default\")\n\n---@class class\n---@field is_class true\n\n---@generic T\n---@[constructor(\"init\", \"class\")]\n---@param class `T`\n---@return T\nfunction meta(class) return {} end\n");
        let fc = add(&mut a, "/vp_c10w/2_cls.lua", "---@class MyClass\n");
        let fu = add(&mut a, "/vp_c10w/1_use.lua", "local MyClass = meta(\"MyClass\")\n---@param name string\nfunction MyClass:init(name)\nend\n");
        let before = format!("{:?}", a.compilation.get_db().get_type_index());
        remove(&mut a, "/vp_c10w/1_use.lua");
        let after = format!("{:?}", a.compilation.get_db().get_type_index());
        let sup = field(&after, "supers", "types");
        let leak = sup.contains(&format!("file_id: {:?}", fu));
        println!("[T2] cls={:?} use={:?}: supers before: {}", fc, fu, field(&before, "supers", "types"));
        println!("[T2] after remove(use): {}  -> names removed file: {leak}", sup);
        if leak { bad += 1; }
    }
    // ---- L5: members of another file's table re-owned to a class of the removed file ----------------------------------------
    {
        let mut a = fresh();
        let fb = add(&mut a, "/vp_c10w/b.lua", "T = { x = 1 }\n");
        let fa = add(&mut a, "/vp_c10w/a.lua", "---@class GD\nlocal GD = T\n");
        let before = format!("{:?}", a.compilation.get_db().get_member_index());
        remove(&mut a, "/vp_c10w/a.lua");
        let after = format!("{:?}", a.compilation.get_db().get_member_index());
        let class_alive = format!("{:?}", a.compilation.get_db().get_type_index()).contains("full_name_type_map: {LuaTypeDeclId { id: Global(\"GD\")");
        let om = field(&after, "owner_members", "member_current_owner");
        let mco = field(&after, "member_current_owner", "zzz");
        let leak = om.contains("Global(\"GD\")") || mco.contains("Global(\"GD\")");
        println!("[L5] a={:?} b={:?}: owner_members before: {}", fa, fb, field(&before, "owner_members", "member_current_owner"));
        println!("[L5] after remove(a): class GD still declared: {class_alive}; {}; {}  -> member index still names class GD of the removed file: {leak}", om, mco);
        if leak { bad += 1; }
    }
    std::process::exit(if bad > 0 { 1 } else { 0 });
}
