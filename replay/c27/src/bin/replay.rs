//! C27 replay: "text-document notifications take effect in message order", observed on the REAL server (the binary re-executes itself as
//! the language server: `--server` = emmylua_ls::run_ls over stdio, exactly what the emmylua_ls binary's main does).
//!   replay open-change [rounds]   per round a fresh document: didOpen(u, t1) + didChange(u, t2) in ONE write, then — after the server is quiet —
//!                                 a documentSymbol request reveals which text the analysis holds (t1 defines `only_in_open_text`, t2 defines
//!                                 `only_in_change_text`; the client's document is t2). FOUND = a round ended on t1.
//!   replay open-close [rounds]    didOpen(u, t1) + didClose(u) in ONE write for a document that is not on disk, then documentSymbol:
//!                                 FOUND = the closed document is still in the analysis.
//!   replay version-restart        document versions are advisory for a full-sync server, the property speaks about MESSAGE order: (restart) didOpen v1,
//!                                 didChange v2..v5, didClose, didOpen v1 (new text), didChange v2 (newer text); (constant) every message v1;
//!                                 (decreasing) v10, v9, v8, v7 — each time the analysed text must be the one of the last message.
//!   replay init-queue             a generated 30-file workspace; `initialized` + didOpen + N x (didChange, hover request) in ONE write, i.e. while the
//!                                 server is still initializing (the messages wait in its queue), N = 3, 8, 21, 30: afterwards the analysed text must
//!                                 be the LAST change.
//!   replay reload-overlap [rounds] an open workspace document; `.emmyrc.json` is rewritten and announced (workspace/didChangeWatchedFiles) so that the
//!                                 server reloads its workspace; the didChange of the open document is sent WHILE the reload is in flight (the client sees
//!                                 the reload's `window/workDoneProgress/create` request and answers it a random 30-300 ms later, the didChange goes out in
//!                                 between); after the reload has settled (text stable for 1.5 s) the analysed text must be that didChange.
//!   replay all [rounds]           all five
//! env: VERIF_SEED (random delays of reload-overlap), VR_C27_OPEN_KB (size of the didOpen text, default 64), VR_C27_SETTLE_MS (default 600). exit 1 = FOUND, 0 = every round in message order.
//! The client plumbing (Server, frame, req, notif) is copied from replay/c24.
use serde_json::{Value, json};
use std::collections::BTreeMap;
use std::io::{BufRead, BufReader, Read, Write};
use std::process::{Child, ChildStdin, Command, Stdio};
use std::sync::mpsc::{Receiver, channel};
use std::time::{Duration, Instant};

fn server_main() {
    use emmylua_ls::cmd_args::*;
    let args = CmdArgs {
        communication: Communication::Stdio, ip: "127.0.0.1".to_string(), port: 5007, log_level: if std::env::var("VR_C27_TRACE").is_ok() { LogLevel::Info } else { LogLevel::Error },
        log_path: NoneableString(Some(std::env::var("VR_C27_LOGDIR").unwrap_or(std::env::temp_dir().join("vr_c27_logs").to_string_lossy().to_string()))),
        resources_path: NoneableString(None), load_stdlib: CmdBool(false), editor: None,
    };
    let rt = tokio::runtime::Builder::new_multi_thread().enable_all().build().unwrap();
    let r = rt.block_on(emmylua_ls::run_ls(args));
    if let Err(e) = &r { eprintln!("run_ls returned Err: {e}"); }
    std::process::exit(if r.is_ok() { 0 } else { 3 });
}

struct Server { child: Child, stdin: ChildStdin, rx: Receiver<Value>, responses: BTreeMap<String, Vec<Value>>,
                /// reload-overlap: do not answer the next `window/workDoneProgress/create` for the LoadWorkspace task at once; its id is kept here
                hold_load_progress: bool, held: Vec<Value> }

fn frame(v: &Value) -> Vec<u8> { let body = v.to_string(); format!("Content-Length: {}\r\n\r\n{}", body.len(), body).into_bytes() }

impl Server {
    fn start() -> Server {
        let mut child = Command::new(std::env::current_exe().unwrap()).arg("--server")
            .stdin(Stdio::piped()).stdout(Stdio::piped()).stderr(Stdio::piped()).spawn().unwrap();
        let stdin = child.stdin.take().unwrap();
        let mut out = BufReader::new(child.stdout.take().unwrap());
        let err = BufReader::new(child.stderr.take().unwrap());
        std::thread::spawn(move || { for l in err.lines().map_while(Result::ok) { if l.contains("panicked") || l.contains("returned Err") { println!("  server stderr: {l}"); } } });
        let (tx, rx) = channel();
        std::thread::spawn(move || loop {
            let mut len = None;
            loop {
                let mut line = String::new();
                if out.read_line(&mut line).unwrap_or(0) == 0 { return; }
                let line = line.trim_end();
                if line.is_empty() { break; }
                if let Some(v) = line.strip_prefix("Content-Length: ") { len = v.parse::<usize>().ok(); }
            }
            let mut buf = vec![0u8; len.unwrap_or(0)];
            if out.read_exact(&mut buf).is_err() { return; }
            if let Ok(v) = serde_json::from_slice::<Value>(&buf) { if tx.send(v).is_err() { return; } }
        });
        Server { child, stdin, rx, responses: BTreeMap::new(), hold_load_progress: false, held: Vec::new() }
    }
    fn send(&mut self, v: Value) -> bool { self.send_all(&[v]) }
    /// several messages in ONE write: they reach the server back to back
    fn send_all(&mut self, vs: &[Value]) -> bool {
        let mut bytes = Vec::new();
        for v in vs { bytes.extend(frame(v)); }
        self.stdin.write_all(&bytes).and_then(|_| self.stdin.flush()).is_ok()
    }
    fn take(&mut self, m: Value) {
        if std::env::var("VR_C27_TRACE").is_ok() { let t = m.to_string(); println!("    <- {}", t.chars().take(160).collect::<String>()); }
        if m.get("method").is_some() {
            // a request FROM the server (configuration, registerCapability, progress): answered with null
            if self.hold_load_progress && m["method"] == json!("window/workDoneProgress/create") && m["params"]["token"] == json!(0) {
                if let Some(id) = m.get("id") { self.held.push(id.clone()); }
                return;
            }
            if let Some(id) = m.get("id") { let r = json!({"jsonrpc": "2.0", "id": id.clone(), "result": null}); let _ = self.stdin.write_all(&frame(&r)).and_then(|_| self.stdin.flush()); }
        } else if let Some(id) = m.get("id") {
            self.responses.entry(id.to_string()).or_default().push(m);
        }
    }
    /// read until `id` has a response (or `timeout`)
    fn wait_for(&mut self, id: i64, timeout: Duration) -> Option<Value> {
        let end = Instant::now() + timeout;
        while Instant::now() < end && !self.responses.contains_key(&id.to_string()) {
            if let Ok(m) = self.rx.recv_timeout(Duration::from_millis(20)) { self.take(m); }
            if self.exited().is_some() && self.rx.try_recv().map(|m| { self.take(m); }).is_err() { break; }
        }
        self.responses.get(&id.to_string()).and_then(|v| v.first().cloned())
    }
    /// keep answering the server's own requests for `d`
    fn settle(&mut self, d: Duration) {
        let end = Instant::now() + d;
        while Instant::now() < end { if let Ok(m) = self.rx.recv_timeout(Duration::from_millis(20)) { self.take(m); } }
    }
    fn answer_held(&mut self) {
        for id in std::mem::take(&mut self.held) { let r = json!({"jsonrpc": "2.0", "id": id, "result": null}); let _ = self.stdin.write_all(&frame(&r)).and_then(|_| self.stdin.flush()); }
    }
    fn exited(&mut self) -> Option<String> { self.child.try_wait().ok().flatten().map(|s| format!("{s}")) }
    fn stop(&mut self) {
        if self.exited().is_none() {
            self.send(req(9999, "shutdown", None));
            self.wait_for(9999, Duration::from_secs(3));
            self.send(json!({"jsonrpc": "2.0", "method": "exit"}));
            std::thread::sleep(Duration::from_millis(300));
        }
        let _ = self.child.kill();
        let _ = self.child.wait();
    }
}

fn req(id: i64, method: &str, params: Option<Value>) -> Value {
    match params { Some(p) => json!({"jsonrpc": "2.0", "id": id, "method": method, "params": p}), None => json!({"jsonrpc": "2.0", "id": id, "method": method}) }
}
fn notif(method: &str, params: Option<Value>) -> Value {
    match params { Some(p) => json!({"jsonrpc": "2.0", "method": method, "params": p}), None => json!({"jsonrpc": "2.0", "method": method}) }
}

fn env_usize(name: &str, default: usize) -> usize { std::env::var(name).ok().and_then(|v| v.parse().ok()).unwrap_or(default) }

/// a server that has finished its initialization: requests wait until the workspace is loaded, so the first ANSWER tells that the
/// notifications sent afterwards are handled by the running main loop (not queued by wait_for_initialization)
fn started() -> Option<Server> {
    let mut s = Server::start();
    s.send(req(1, "initialize", Some(json!({"processId": null, "rootUri": null, "capabilities": {}}))));
    if s.wait_for(1, Duration::from_secs(30)).is_none() { println!("UNDECIDED no initialize response"); return None; }
    s.send(notif("initialized", Some(json!({}))));
    s.send(req(2, "textDocument/hover", Some(json!({"textDocument": {"uri": "file:///vr_c27/none.lua"}, "position": {"line": 0, "character": 0}}))));
    if s.wait_for(2, Duration::from_secs(120)).is_none() { println!("UNDECIDED the server did not finish its initialization"); return None; }
    Some(s)
}

fn names(v: Option<&Value>, out: &mut Vec<String>) {
    if let Some(Value::Array(a)) = v {
        for x in a {
            if let Some(n) = x.get("name").and_then(|n| n.as_str()) { out.push(n.to_string()); }
            names(x.get("children"), out);
        }
    }
}

/// the function names the analysis reports for `uri` (documentSymbol); None = no answer
fn symbols(s: &mut Server, id: i64, uri: &str) -> Option<Vec<String>> {
    s.send(req(id, "textDocument/documentSymbol", Some(json!({"textDocument": {"uri": uri}}))));
    let m = s.wait_for(id, Duration::from_secs(60))?;
    let mut out = Vec::new();
    names(m.get("result"), &mut out);
    Some(out)
}

fn padding() -> String {
    let kb = env_usize("VR_C27_OPEN_KB", 64);
    (0..kb * 1024 / 64).map(|i| format!("-- padding line {i:07} ..........................................\n")).collect()
}

fn open_change(rounds: usize) -> Option<usize> {
    println!("== open-change: didOpen(u, t1) + didChange(u, t2) in ONE write, {rounds} rounds ==");
    let mut s = started()?;
    let settle = Duration::from_millis(env_usize("VR_C27_SETTLE_MS", 600) as u64);
    let pad = padding();
    let mut found = 0;
    for r in 0..rounds {
        let uri = format!("file:///vr_c27/doc_{r}.lua");
        let t1 = format!("{pad}function only_in_open_text() end\n");
        let t2 = "function only_in_change_text() end\n";
        s.send_all(&[
            notif("textDocument/didOpen", Some(json!({"textDocument": {"uri": uri, "languageId": "lua", "version": 1, "text": t1}}))),
            notif("textDocument/didChange", Some(json!({"textDocument": {"uri": uri, "version": 2}, "contentChanges": [{"text": t2}]}))),
        ]);
        s.settle(settle);      // both notifications have long been taken from the pipe and every task they started has run
        let Some(got) = symbols(&mut s, 100 + r as i64, &uri) else { println!("UNDECIDED round {r}: no documentSymbol answer"); s.stop(); return None; };
        let stale = got.iter().any(|n| n == "only_in_open_text");
        let fresh = got.iter().any(|n| n == "only_in_change_text");
        if stale { println!("FOUND round {r}: didOpen(t1, {} KiB) + didChange(t2) in one write -> the analysis holds the didOpen text {got:?}; the client's document is t2", t1.len() / 1024); found += 1; }
        else if fresh { println!("ok    round {r}: the analysis holds the didChange text {got:?}"); }
        else { println!("FOUND round {r}: the open document is analysed with NEITHER text: {got:?}"); found += 1; }
    }
    println!("open-change: {found} of {rounds} rounds did not end on the text of the last notification");
    s.stop();
    Some(found)
}

fn open_close(rounds: usize) -> Option<usize> {
    println!("== open-close: didOpen(u, t1) + didClose(u) in ONE write, the file is not on disk, {rounds} rounds ==");
    let mut s = started()?;
    let settle = Duration::from_millis(env_usize("VR_C27_SETTLE_MS", 600) as u64);
    let pad = padding();
    let mut found = 0;
    for r in 0..rounds {
        let uri = format!("file:///vr_c27/ghost_{r}.lua");
        let t1 = format!("{pad}function closed_document() end\n");
        s.send_all(&[
            notif("textDocument/didOpen", Some(json!({"textDocument": {"uri": uri, "languageId": "lua", "version": 1, "text": t1}}))),
            notif("textDocument/didClose", Some(json!({"textDocument": {"uri": uri}}))),
        ]);
        s.settle(settle);
        let Some(got) = symbols(&mut s, 1000 + r as i64, &uri) else { println!("UNDECIDED round {r}: no documentSymbol answer"); s.stop(); return None; };
        if got.iter().any(|n| n == "closed_document") { println!("FOUND round {r}: didOpen + didClose in one write -> the CLOSED document (not on disk) is still in the analysis {got:?}"); found += 1; }
        else { println!("ok    round {r}: the closed document is gone from the analysis {got:?}"); }
    }
    // control: the probe does see a document that is open (otherwise "gone" above would mean nothing)
    let uri = "file:///vr_c27/control.lua";
    s.send(notif("textDocument/didOpen", Some(json!({"textDocument": {"uri": uri, "languageId": "lua", "version": 1, "text": "function control_document() end\n"}}))));
    s.settle(settle);
    match symbols(&mut s, 1999, uri) {
        Some(got) if got.iter().any(|n| n == "control_document") => {}
        other => { println!("UNDECIDED the probe does not see an open document: {other:?}"); s.stop(); return None; }
    }
    println!("open-close: {found} of {rounds} rounds left a closed document in the analysis");
    s.stop();
    Some(found)
}

fn did_open(uri: &str, version: i64, text: &str) -> Value {
    notif("textDocument/didOpen", Some(json!({"textDocument": {"uri": uri, "languageId": "lua", "version": version, "text": text}})))
}
fn did_change(uri: &str, version: i64, text: &str) -> Value {
    notif("textDocument/didChange", Some(json!({"textDocument": {"uri": uri, "version": version}, "contentChanges": [{"text": text}]})))
}
fn did_close(uri: &str) -> Value { notif("textDocument/didClose", Some(json!({"textDocument": {"uri": uri}}))) }
/// the text of step `k` of a scenario: it defines exactly one function, `<tag>_<k>`
fn step_text(tag: &str, k: usize) -> String { format!("function {tag}_{k}() end\n") }

fn version_restart() -> Option<usize> {
    println!("== version-restart: the analysed text follows MESSAGE order whatever the document versions say ==");
    let mut s = started()?;
    let settle = Duration::from_millis(env_usize("VR_C27_SETTLE_MS", 600) as u64);
    let mut found = 0;
    // (name, messages as (kind, version): 'o' didOpen, 'c' didChange, 'x' didClose); step k carries the text step_text(name, k)
    let scenarios: Vec<(&str, Vec<(char, i64)>)> = vec![
        ("restart", vec![('o', 1), ('c', 2), ('c', 3), ('c', 4), ('c', 5), ('x', 0), ('o', 1), ('c', 2)]),
        ("restart_twice", vec![('o', 7), ('c', 8), ('c', 9), ('x', 0), ('o', 1), ('c', 2), ('x', 0), ('o', 1), ('c', 1)]),
        ("constant", vec![('o', 1), ('c', 1), ('c', 1), ('c', 1)]),
        ("decreasing", vec![('o', 10), ('c', 9), ('c', 8), ('c', 7)]),
        ("zero", vec![('o', 0), ('c', 0), ('c', -1)]),
    ];
    for (round, one_write) in [(0, true), (1, false)] {
        for (i, (name, msgs)) in scenarios.iter().enumerate() {
            let uri = format!("file:///vr_c27/versions_{name}_{round}.lua");
            let batch: Vec<Value> = msgs.iter().enumerate().map(|(k, (kind, v))| match kind {
                'o' => did_open(&uri, *v, &step_text(name, k)), 'c' => did_change(&uri, *v, &step_text(name, k)), _ => did_close(&uri) }).collect();
            if one_write { s.send_all(&batch); } else { for m in &batch { s.send(m.clone()); s.settle(Duration::from_millis(40)); } }
            s.settle(settle);
            let want = format!("{name}_{}", msgs.len() - 1);
            let Some(got) = symbols(&mut s, 2000 + (round * 100 + i) as i64, &uri) else { println!("UNDECIDED {name}: no documentSymbol answer"); s.stop(); return None; };
            let seq: Vec<String> = msgs.iter().map(|(k, v)| match k { 'o' => format!("didOpen v{v}"), 'c' => format!("didChange v{v}"), _ => "didClose".to_string() }).collect();
            if got.iter().any(|n| *n == want) && got.len() == 1 { println!("ok    {name} ({}): {} -> {got:?}", if one_write { "one write" } else { "one by one" }, seq.join(", ")); }
            else { println!("FOUND {name} ({}): {} -> the analysis holds {got:?}, the last message carries `{want}`", if one_write { "one write" } else { "one by one" }, seq.join(", ")); found += 1; }
        }
    }
    println!("version-restart: {found} of {} sequences did not end on the text of the last message", 2 * scenarios.len());
    s.stop();
    Some(found)
}

fn lua_module(i: usize, funcs: usize) -> String {
    let mut t = format!("---@class Mod{i}\nlocal M = {{}}\n");
    for f in 0..funcs {
        t.push_str(&format!("---@param a number\n---@param b string\n---@return number\nfunction M.f{f}(a, b)\n    local t = {{ x = a, y = b, z = {{ a, b, {f} }} }}\n    if a > {f} then return t.x + #b end\n    for k = 1, a do t.x = t.x + k * {f} end\n    return t.x\nend\n"));
    }
    t.push_str("return M\n");
    t
}

/// a generated workspace on disk (as replay/c24's session mode): `files` modules + a.lua; returns (dir, root uri)
fn workspace(tag: &str, files: usize, funcs: usize) -> (std::path::PathBuf, String) {
    let ws = std::env::temp_dir().join(format!("vr_c27_{tag}_{}", std::process::id()));
    let _ = std::fs::remove_dir_all(&ws);
    std::fs::create_dir_all(&ws).unwrap();
    for i in 0..files { std::fs::write(ws.join(format!("m{i}.lua")), lua_module(i, funcs)).unwrap(); }
    std::fs::write(ws.join("a.lua"), "function on_disk() end\n").unwrap();
    let root = format!("file://{}", ws.to_string_lossy());
    (ws, root)
}

fn init_queue() -> Option<usize> {
    println!("== init-queue: `initialized` + didOpen + N x (didChange, hover) in ONE write while the server initializes (30-file workspace) ==");
    let mut found = 0;
    let counts = [3usize, 8, 21, 30];
    for n in counts {
        let (ws, root) = workspace(&format!("queue{n}"), env_usize("VR_C27_FILES", 30), 40);
        let uri = format!("{root}/a.lua");
        let mut s = Server::start();
        s.send(req(1, "initialize", Some(json!({"processId": null, "rootUri": root, "workspaceFolders": [{"uri": root, "name": "ws"}], "capabilities": {"workspace": {"configuration": false}}}))));
        if s.wait_for(1, Duration::from_secs(30)).is_none() { println!("UNDECIDED no initialize response"); return None; }
        let mut batch = vec![notif("initialized", Some(json!({}))), did_open(&uri, 1, &step_text("queued", 0))];
        for k in 1..=n {
            batch.push(did_change(&uri, 1 + k as i64, &step_text("queued", k)));
            batch.push(req(10 + k as i64, "textDocument/hover", Some(json!({"textDocument": {"uri": uri}, "position": {"line": 0, "character": 10}}))));
        }
        let t0 = Instant::now();
        s.send_all(&batch);
        // every queued request is answered after the initialization; wait for all of them, then let the loop go quiet
        let mut all = true;
        for k in 1..=n { if s.wait_for(10 + k as i64, Duration::from_secs(90)).is_none() { all = false; break; } }
        let waited = t0.elapsed().as_millis();
        if !all { println!("UNDECIDED N={n}: a queued request was not answered; {:?}", s.exited()); s.stop(); let _ = std::fs::remove_dir_all(&ws); return None; }
        s.settle(Duration::from_millis(env_usize("VR_C27_SETTLE_MS", 600) as u64));
        let got = symbols(&mut s, 5000, &uri);
        let want = format!("queued_{n}");
        match got {
            Some(got) if got.len() == 1 && got[0] == want => println!("ok    N={n}: {} messages queued during initialization (answers after {waited} ms) -> {got:?}", 1 + 2 * n),
            Some(got) => { println!("FOUND N={n}: didOpen + {n} didChange interleaved with {n} requests, queued during initialization -> the analysis holds {got:?}, the last didChange carries `{want}`"); found += 1; }
            None => { println!("UNDECIDED N={n}: no documentSymbol answer"); s.stop(); let _ = std::fs::remove_dir_all(&ws); return None; }
        }
        s.stop();
        let _ = std::fs::remove_dir_all(&ws);
    }
    println!("init-queue: {found} of {} queue lengths did not end on the last didChange", counts.len());
    Some(found)
}

/// poll documentSymbol until the answer has been the same for `stable`; returns the stable answer
fn stable_symbols(s: &mut Server, first_id: i64, uri: &str, stable: Duration, timeout: Duration) -> Option<Vec<String>> {
    let end = Instant::now() + timeout;
    let mut id = first_id;
    let mut last: Option<Vec<String>> = None;
    let mut since = Instant::now();
    while Instant::now() < end {
        let got = symbols(s, id, uri)?;
        id += 1;
        if last.as_ref() != Some(&got) { last = Some(got); since = Instant::now(); }
        else if since.elapsed() >= stable { return last; }
        s.settle(Duration::from_millis(150));
    }
    last
}

fn reload_overlap(rounds: usize) -> Option<usize> {
    println!("== reload-overlap: a didChange of an open document while a workspace reload (config file changed) is in flight, {rounds} rounds ==");
    let mut rng: u64 = std::env::var("VERIF_SEED").ok().and_then(|v| v.parse().ok()).unwrap_or(0u64).wrapping_mul(0x9E3779B97F4A7C15) ^ 0xC27C27C27;
    let mut rand = |lo: u64, hi: u64| { rng ^= rng << 13; rng ^= rng >> 7; rng ^= rng << 17; lo + rng % (hi - lo + 1) };
    let (ws, root) = workspace("reload", 6, 10);
    let uri = format!("{root}/a.lua");
    let rc = format!("{root}/.emmyrc.json");
    let mut s = Server::start();
    s.send(req(1, "initialize", Some(json!({"processId": null, "rootUri": root, "workspaceFolders": [{"uri": root, "name": "ws"}],
        "capabilities": {"window": {"workDoneProgress": true}, "workspace": {"configuration": false}}}))));
    if s.wait_for(1, Duration::from_secs(30)).is_none() { println!("UNDECIDED no initialize response"); return None; }
    s.send(notif("initialized", Some(json!({}))));
    s.send(req(2, "textDocument/hover", Some(json!({"textDocument": {"uri": uri}, "position": {"line": 0, "character": 0}}))));
    if s.wait_for(2, Duration::from_secs(120)).is_none() { println!("UNDECIDED the server did not finish its initialization"); s.stop(); return None; }
    s.send(did_open(&uri, 1, &step_text("edit", 0)));
    s.settle(Duration::from_millis(300));
    let mut found = 0;
    let mut overlapped = 0;
    for r in 1..=rounds {
        // a plain edit first (no reload in flight), so that the open-file table holds a text the reload will snapshot
        s.send(did_change(&uri, (2 * r) as i64, &step_text("before_reload", r)));
        s.settle(Duration::from_millis(100));
        s.hold_load_progress = true;
        // the reload starts after the server's 2 s debounce: it snapshots the open files, then asks the client for a progress token.
        // (observed on the unchanged server: now and then a config change is debounced away and no reload follows; the trigger is repeated then)
        for attempt in 0..3 {
            std::fs::write(ws.join(".emmyrc.json"), format!("{{\"diagnostics\": {{\"globals\": [\"vr_c27_round_{r}_{attempt}\"]}}}}\n")).unwrap();
            s.send(notif("workspace/didChangeWatchedFiles", Some(json!({"changes": [{"uri": rc, "type": if r == 1 && attempt == 0 { 1 } else { 2 }}]}))));
            let end = Instant::now() + Duration::from_secs(5);
            while s.held.is_empty() && Instant::now() < end { s.settle(Duration::from_millis(20)); }
            if !s.held.is_empty() { break; }
        }
        let in_flight = !s.held.is_empty();
        let (d1, d2) = (rand(0, 40), rand(30, 300));
        std::thread::sleep(Duration::from_millis(d1));
        let want = format!("during_reload_{r}");
        s.send(did_change(&uri, (2 * r + 1) as i64, &step_text("during_reload", r)));
        s.settle(Duration::from_millis(d2));
        s.hold_load_progress = false;
        s.answer_held();
        if in_flight { overlapped += 1; }
        let got = stable_symbols(&mut s, 7000 + 100 * r as i64, &uri, Duration::from_millis(1500), Duration::from_secs(25));
        match got {
            Some(got) if got.len() == 1 && got[0] == want => println!("ok    round {r}: didChange sent {d1} ms after the reload's progress request, answered {d2} ms later{} -> {got:?}", if in_flight { "" } else { " (NO reload seen: no overlap in this round)" }),
            Some(got) => { println!("FOUND round {r}: the didChange `{want}` was sent while the workspace reload was in flight ({d1} ms after its progress request, answered {d2} ms later); after the reload settled the analysis holds {got:?}"); found += 1; }
            None => { println!("UNDECIDED round {r}: no documentSymbol answer"); s.stop(); let _ = std::fs::remove_dir_all(&ws); return None; }
        }
    }
    println!("reload-overlap: {found} of {rounds} rounds ended on an older text ({overlapped} rounds really overlapped a reload)");
    s.stop();
    let _ = std::fs::remove_dir_all(&ws);
    if overlapped == 0 { println!("UNDECIDED no round overlapped a reload"); return None; }
    Some(found)
}

fn main() {
    let mode = std::env::args().nth(1).unwrap_or("all".to_string());
    if mode == "--server" { return server_main(); }
    let rounds: usize = std::env::args().nth(2).and_then(|v| v.parse().ok()).unwrap_or(10);
    let t0 = Instant::now();
    let mut found = 0;
    let mut undecided = false;
    if mode == "open-change" || mode == "all" { match open_change(rounds) { Some(n) => found += n, None => undecided = true } }
    if mode == "open-close" || mode == "all" { match open_close(rounds) { Some(n) => found += n, None => undecided = true } }
    if mode == "version-restart" || mode == "all" { match version_restart() { Some(n) => found += n, None => undecided = true } }
    if mode == "init-queue" || mode == "all" { match init_queue() { Some(n) => found += n, None => undecided = true } }
    if mode == "reload-overlap" || mode == "all" { match reload_overlap(if mode == "all" { 4 } else { rounds.min(40) }) { Some(n) => found += n, None => undecided = true } }
    println!("({} s)", t0.elapsed().as_secs());
    if found > 0 { std::process::exit(1); }
    if undecided { std::process::exit(2); }
    println!("every round ended on the state of the last notification in message order");
}
