//! C27 replay: "text-document notifications take effect in message order", observed on the REAL server (the binary re-executes itself as
//! the language server: `--server` = emmylua_ls::run_ls over stdio, exactly what the emmylua_ls binary's main does).
//!   replay open-change [rounds]   per round a fresh document: didOpen(u, t1) + didChange(u, t2) in ONE write, then — after the server is quiet —
//!                                 a documentSymbol request reveals which text the analysis holds (t1 defines `only_in_open_text`, t2 defines
//!                                 `only_in_change_text`; the client's document is t2). FOUND = a round ended on t1.
//!   replay open-close [rounds]    didOpen(u, t1) + didClose(u) in ONE write for a document that is not on disk, then documentSymbol:
//!                                 FOUND = the closed document is still in the analysis.
//!   replay all [rounds]           both
//! env: VR_C27_OPEN_KB (size of the didOpen text, default 64), VR_C27_SETTLE_MS (default 600). exit 1 = FOUND, 0 = every round in message order.
//! The client plumbing (Server, frame, req, notif) is copied from replay/c24.
use serde_json::{Value, json};
use std::collections::BTreeMap;
use std::io::{BufRead, BufReader, Read, Write};
use std::process::{Child, ChildStdin, Command, Stdio};
use std::sync::mpsc::{Receiver, channel};
use std::time::{Duration, Instant};

fn server_main() {
    use emmylua_ls::cmd_args::*;
    let args = CmdArgs {
        communication: Communication::Stdio, ip: "127.0.0.1".to_string(), port: 5007, log_level: LogLevel::Error,
        log_path: NoneableString(Some(std::env::var("VR_C27_LOGDIR").unwrap_or(std::env::temp_dir().join("vr_c27_logs").to_string_lossy().to_string()))),
        resources_path: NoneableString(None), load_stdlib: CmdBool(false), editor: None,
    };
    let rt = tokio::runtime::Builder::new_multi_thread().enable_all().build().unwrap();
    let r = rt.block_on(emmylua_ls::run_ls(args));
    if let Err(e) = &r { eprintln!("run_ls returned Err: {e}"); }
    std::process::exit(if r.is_ok() { 0 } else { 3 });
}

struct Server { child: Child, stdin: ChildStdin, rx: Receiver<Value>, responses: BTreeMap<String, Vec<Value>> }

fn frame(v: &Value) -> Vec<u8> { let body = v.to_string(); format!("Content-Length: {}\r\n\r\n{}", body.len(), body).into_bytes() }

impl Server {
    fn start() -> Server {
        let mut child = Command::new(std::env::current_exe().unwrap()).arg("--server")
            .stdin(Stdio::piped()).stdout(Stdio::piped()).stderr(Stdio::piped()).spawn().unwrap();
        let stdin = child.stdin.take().unwrap();
        let mut out = BufReader::new(child.stdout.take().unwrap());
        let err = BufReader::new(child.stderr.take().unwrap());
        std::thread::spawn(move || { for l in err.lines().map_while(Result::ok) { if l.contains("panicked") || l.contains("returned Err") { println!("  server stderr: {l}"); } } });
        let (tx, rx) = channel();
        std::thread::spawn(move || loop {
            let mut len = None;
            loop {
                let mut line = String::new();
                if out.read_line(&mut line).unwrap_or(0) == 0 { return; }
                let line = line.trim_end();
                if line.is_empty() { break; }
                if let Some(v) = line.strip_prefix("Content-Length: ") { len = v.parse::<usize>().ok(); }
            }
            let mut buf = vec![0u8; len.unwrap_or(0)];
            if out.read_exact(&mut buf).is_err() { return; }
            if let Ok(v) = serde_json::from_slice::<Value>(&buf) { if tx.send(v).is_err() { return; } }
        });
        Server { child, stdin, rx, responses: BTreeMap::new() }
    }
    fn send(&mut self, v: Value) -> bool { self.send_all(&[v]) }
    /// several messages in ONE write: they reach the server back to back
    fn send_all(&mut self, vs: &[Value]) -> bool {
        let mut bytes = Vec::new();
        for v in vs { bytes.extend(frame(v)); }
        self.stdin.write_all(&bytes).and_then(|_| self.stdin.flush()).is_ok()
    }
    fn take(&mut self, m: Value) {
        if m.get("method").is_some() {
            // a request FROM the server (configuration, registerCapability, progress): answered with null
            if let Some(id) = m.get("id") { let r = json!({"jsonrpc": "2.0", "id": id.clone(), "result": null}); let _ = self.stdin.write_all(&frame(&r)).and_then(|_| self.stdin.flush()); }
        } else if let Some(id) = m.get("id") {
            self.responses.entry(id.to_string()).or_default().push(m);
        }
    }
    /// read until `id` has a response (or `timeout`)
    fn wait_for(&mut self, id: i64, timeout: Duration) -> Option<Value> {
        let end = Instant::now() + timeout;
        while Instant::now() < end && !self.responses.contains_key(&id.to_string()) {
            if let Ok(m) = self.rx.recv_timeout(Duration::from_millis(20)) { self.take(m); }
            if self.exited().is_some() && self.rx.try_recv().map(|m| { self.take(m); }).is_err() { break; }
        }
        self.responses.get(&id.to_string()).and_then(|v| v.first().cloned())
    }
    /// keep answering the server's own requests for `d`
    fn settle(&mut self, d: Duration) {
        let end = Instant::now() + d;
        while Instant::now() < end { if let Ok(m) = self.rx.recv_timeout(Duration::from_millis(20)) { self.take(m); } }
    }
    fn exited(&mut self) -> Option<String> { self.child.try_wait().ok().flatten().map(|s| format!("{s}")) }
    fn stop(&mut self) {
        if self.exited().is_none() {
            self.send(req(9999, "shutdown", None));
            self.wait_for(9999, Duration::from_secs(3));
            self.send(json!({"jsonrpc": "2.0", "method": "exit"}));
            std::thread::sleep(Duration::from_millis(300));
        }
        let _ = self.child.kill();
        let _ = self.child.wait();
    }
}

fn req(id: i64, method: &str, params: Option<Value>) -> Value {
    match params { Some(p) => json!({"jsonrpc": "2.0", "id": id, "method": method, "params": p}), None => json!({"jsonrpc": "2.0", "id": id, "method": method}) }
}
fn notif(method: &str, params: Option<Value>) -> Value {
    match params { Some(p) => json!({"jsonrpc": "2.0", "method": method, "params": p}), None => json!({"jsonrpc": "2.0", "method": method}) }
}

fn env_usize(name: &str, default: usize) -> usize { std::env::var(name).ok().and_then(|v| v.parse().ok()).unwrap_or(default) }

/// a server that has finished its initialization: requests wait until the workspace is loaded, so the first ANSWER tells that the
/// notifications sent afterwards are handled by the running main loop (not queued by wait_for_initialization)
fn started() -> Option<Server> {
    let mut s = Server::start();
    s.send(req(1, "initialize", Some(json!({"processId": null, "rootUri": null, "capabilities": {}}))));
    if s.wait_for(1, Duration::from_secs(30)).is_none() { println!("UNDECIDED no initialize response"); return None; }
    s.send(notif("initialized", Some(json!({}))));
    s.send(req(2, "textDocument/hover", Some(json!({"textDocument": {"uri": "file:///vr_c27/none.lua"}, "position": {"line": 0, "character": 0}}))));
    if s.wait_for(2, Duration::from_secs(120)).is_none() { println!("UNDECIDED the server did not finish its initialization"); return None; }
    Some(s)
}

fn names(v: Option<&Value>, out: &mut Vec<String>) {
    if let Some(Value::Array(a)) = v {
        for x in a {
            if let Some(n) = x.get("name").and_then(|n| n.as_str()) { out.push(n.to_string()); }
            names(x.get("children"), out);
        }
    }
}

/// the function names the analysis reports for `uri` (documentSymbol); None = no answer
fn symbols(s: &mut Server, id: i64, uri: &str) -> Option<Vec<String>> {
    s.send(req(id, "textDocument/documentSymbol", Some(json!({"textDocument": {"uri": uri}}))));
    let m = s.wait_for(id, Duration::from_secs(60))?;
    let mut out = Vec::new();
    names(m.get("result"), &mut out);
    Some(out)
}

fn padding() -> String {
    let kb = env_usize("VR_C27_OPEN_KB", 64);
    (0..kb * 1024 / 64).map(|i| format!("-- padding line {i:07} ..........................................\n")).collect()
}

fn open_change(rounds: usize) -> Option<usize> {
    println!("== open-change: didOpen(u, t1) + didChange(u, t2) in ONE write, {rounds} rounds ==");
    let mut s = started()?;
    let settle = Duration::from_millis(env_usize("VR_C27_SETTLE_MS", 600) as u64);
    let pad = padding();
    let mut found = 0;
    for r in 0..rounds {
        let uri = format!("file:///vr_c27/doc_{r}.lua");
        let t1 = format!("{pad}function only_in_open_text() end\n");
        let t2 = "function only_in_change_text() end\n";
        s.send_all(&[
            notif("textDocument/didOpen", Some(json!({"textDocument": {"uri": uri, "languageId": "lua", "version": 1, "text": t1}}))),
            notif("textDocument/didChange", Some(json!({"textDocument": {"uri": uri, "version": 2}, "contentChanges": [{"text": t2}]}))),
        ]);
        s.settle(settle);      // both notifications have long been taken from the pipe and every task they started has run
        let Some(got) = symbols(&mut s, 100 + r as i64, &uri) else { println!("UNDECIDED round {r}: no documentSymbol answer"); s.stop(); return None; };
        let stale = got.iter().any(|n| n == "only_in_open_text");
        let fresh = got.iter().any(|n| n == "only_in_change_text");
        if stale { println!("FOUND round {r}: didOpen(t1, {} KiB) + didChange(t2) in one write -> the analysis holds the didOpen text {got:?}; the client's document is t2", t1.len() / 1024); found += 1; }
        else if fresh { println!("ok    round {r}: the analysis holds the didChange text {got:?}"); }
        else { println!("FOUND round {r}: the open document is analysed with NEITHER text: {got:?}"); found += 1; }
    }
    println!("open-change: {found} of {rounds} rounds did not end on the text of the last notification");
    s.stop();
    Some(found)
}

fn open_close(rounds: usize) -> Option<usize> {
    println!("== open-close: didOpen(u, t1) + didClose(u) in ONE write, the file is not on disk, {rounds} rounds ==");
    let mut s = started()?;
    let settle = Duration::from_millis(env_usize("VR_C27_SETTLE_MS", 600) as u64);
    let pad = padding();
    let mut found = 0;
    for r in 0..rounds {
        let uri = format!("file:///vr_c27/ghost_{r}.lua");
        let t1 = format!("{pad}function closed_document() end\n");
        s.send_all(&[
            notif("textDocument/didOpen", Some(json!({"textDocument": {"uri": uri, "languageId": "lua", "version": 1, "text": t1}}))),
            notif("textDocument/didClose", Some(json!({"textDocument": {"uri": uri}}))),
        ]);
        s.settle(settle);
        let Some(got) = symbols(&mut s, 1000 + r as i64, &uri) else { println!("UNDECIDED round {r}: no documentSymbol answer"); s.stop(); return None; };
        if got.iter().any(|n| n == "closed_document") { println!("FOUND round {r}: didOpen + didClose in one write -> the CLOSED document (not on disk) is still in the analysis {got:?}"); found += 1; }
        else { println!("ok    round {r}: the closed document is gone from the analysis {got:?}"); }
    }
    // control: the probe does see a document that is open (otherwise "gone" above would mean nothing)
    let uri = "file:///vr_c27/control.lua";
    s.send(notif("textDocument/didOpen", Some(json!({"textDocument": {"uri": uri, "languageId": "lua", "version": 1, "text": "function control_document() end\n"}}))));
    s.settle(settle);
    match symbols(&mut s, 1999, uri) {
        Some(got) if got.iter().any(|n| n == "control_document") => {}
        other => { println!("UNDECIDED the probe does not see an open document: {other:?}"); s.stop(); return None; }
    }
    println!("open-close: {found} of {rounds} rounds left a closed document in the analysis");
    s.stop();
    Some(found)
}

fn main() {
    let mode = std::env::args().nth(1).unwrap_or("all".to_string());
    if mode == "--server" { return server_main(); }
    let rounds: usize = std::env::args().nth(2).and_then(|v| v.parse().ok()).unwrap_or(12);
    let t0 = Instant::now();
    let mut found = 0;
    let mut undecided = false;
    if mode == "open-change" || mode == "all" { match open_change(rounds) { Some(n) => found += n, None => undecided = true } }
    if mode == "open-close" || mode == "all" { match open_close(rounds) { Some(n) => found += n, None => undecided = true } }
    println!("({} s)", t0.elapsed().as_secs());
    if found > 0 { std::process::exit(1); }
    if undecided { std::process::exit(2); }
    println!("every round ended on the state of the last notification in message order");
}
