#!/usr/bin/env python3
"""C27 replay on the REAL server over stdio: didOpen(t1) + didChange(t2) for the same document in ONE write, then (after the server is
quiet) a documentSymbol request reveals which text the analysis holds. t1 defines `only_in_open_text`, t2 defines `only_in_change_text`.
The LSP client's document is t2 from then on; an answer that names `only_in_open_text` means the analysis was left on the didOpen text.

  replay.py <server-cmd...>     e.g.  replay.py /repo/target/debug/emmylua_ls      or   replay.py <vr_c24 replay binary> --server
  env: C27_ROUNDS (default 6), C27_OPEN_KB (size of the didOpen text, default 64)
exit 1 = FOUND (some round ended on the didOpen text), 0 = every round ended on the didChange text."""
import json, os, subprocess, sys, threading, queue, time

def frame(v):
    b = json.dumps(v).encode()
    return b'Content-Length: %d\r\n\r\n' % len(b) + b

class Server:
    def __init__(self, cmd):
        self.p = subprocess.Popen(cmd, stdin=subprocess.PIPE, stdout=subprocess.PIPE, stderr=subprocess.DEVNULL)
        self.q = queue.Queue()
        threading.Thread(target=self.reader, daemon=True).start()
    def reader(self):
        o = self.p.stdout
        while True:
            n = None
            while True:
                line = o.readline()
                if not line: return
                line = line.strip()
                if not line: break
                if line.lower().startswith(b'content-length:'): n = int(line.split(b':')[1])
            body = o.read(n or 0)
            try: self.q.put(json.loads(body))
            except Exception: pass
    def write(self, *msgs):
        self.p.stdin.write(b''.join(frame(m) for m in msgs)); self.p.stdin.flush()
    def wait(self, rid, timeout=60):
        end = time.time() + timeout
        while time.time() < end:
            try: m = self.q.get(timeout=0.05)
            except queue.Empty: continue
            if 'method' in m and 'id' in m:      # a request FROM the server: answered with null
                self.write({'jsonrpc': '2.0', 'id': m['id'], 'result': None}); continue
            if m.get('id') == rid and 'method' not in m: return m
        return None

def names(sym, out):
    for s in sym or []:
        out.append(s.get('name', '')); names(s.get('children'), out)
    return out

def main():
    cmd = sys.argv[1:] or ['/repo/target/debug/emmylua_ls']
    rounds = int(os.environ.get('C27_ROUNDS', '6')); kb = int(os.environ.get('C27_OPEN_KB', '64'))
    s = Server(cmd)
    s.write({'jsonrpc': '2.0', 'id': 1, 'method': 'initialize', 'params': {'processId': None, 'rootUri': None, 'capabilities': {}}})
    assert s.wait(1), 'no initialize response'
    s.write({'jsonrpc': '2.0', 'method': 'initialized', 'params': {}})
    # requests wait until the workspace is loaded: the first answer tells that the notifications below are handled by the running loop
    s.write({'jsonrpc': '2.0', 'id': 2, 'method': 'textDocument/hover', 'params': {'textDocument': {'uri': 'file:///c27/none.lua'}, 'position': {'line': 0, 'character': 0}}})
    assert s.wait(2, 120), 'server did not finish initialization'
    pad = ''.join('-- padding line %07d ..........................................\n' % i for i in range(kb * 1024 // 64))
    found = 0
    for r in range(rounds):
        uri = 'file:///c27/doc_%d.lua' % r
        t1 = pad + 'function only_in_open_text() end\n'
        t2 = 'function only_in_change_text() end\n'
        s.write({'jsonrpc': '2.0', 'method': 'textDocument/didOpen', 'params': {'textDocument': {'uri': uri, 'languageId': 'lua', 'version': 1, 'text': t1}}},
                {'jsonrpc': '2.0', 'method': 'textDocument/didChange', 'params': {'textDocument': {'uri': uri, 'version': 2}, 'contentChanges': [{'text': t2}]}})
        time.sleep(1.0)      # both notifications have long been taken from the pipe and every task has run
        rid = 100 + r
        s.write({'jsonrpc': '2.0', 'id': rid, 'method': 'textDocument/documentSymbol', 'params': {'textDocument': {'uri': uri}}})
        m = s.wait(rid, 60)
        got = names((m or {}).get('result'), [])
        stale = 'only_in_open_text' in got
        print('%s round %d: didOpen(t1 %d KiB) + didChange(t2) in one write -> documentSymbol names %s' % ('FOUND' if stale else 'ok   ', r, len(t1) // 1024, [g for g in got if g.startswith('only_in')] or got[:3]))
        found += stale
    # scenario 2: didOpen and didClose are both spawned — a document (not on disk) opened and closed at once
    found2 = 0
    for r in range(rounds):
        uri = 'file:///c27/ghost_%d.lua' % r
        t1 = pad + 'function closed_document() end\n'
        s.write({'jsonrpc': '2.0', 'method': 'textDocument/didOpen', 'params': {'textDocument': {'uri': uri, 'languageId': 'lua', 'version': 1, 'text': t1}}},
                {'jsonrpc': '2.0', 'method': 'textDocument/didClose', 'params': {'textDocument': {'uri': uri}}})
        time.sleep(1.0)
        rid = 1000 + r
        s.write({'jsonrpc': '2.0', 'id': rid, 'method': 'textDocument/documentSymbol', 'params': {'textDocument': {'uri': uri}}})
        m = s.wait(rid, 60)
        got = names((m or {}).get('result'), [])
        bad = 'closed_document' in got
        print('%s close round %d: didOpen(t1) + didClose in one write (file not on disk) -> documentSymbol names %s' % ('FOUND' if bad else 'ok   ', r, got[:3] if got else 'nothing (removed)'))
        found2 += bad
    print('C27 replay: %d of %d open+close rounds left the CLOSED document (not on disk) in the analysis' % (found2, rounds))
    found += found2
    s.write({'jsonrpc': '2.0', 'id': 9999, 'method': 'shutdown'}); s.wait(9999, 5); s.write({'jsonrpc': '2.0', 'method': 'exit'})
    time.sleep(0.2); s.p.kill()
    print('C27 replay: %d of %d rounds left the analysis on the didOpen text (the client\'s document is the didChange text)' % (found, rounds))
    sys.exit(1 if found else 0)

main()
