//! C01 / C02 replay and witness search on the real parser. Decides nothing; only turns a failed
//! obligation into a concrete input.
//!   replay hex <utf8-bytes-in-hex>...   parse each text, exit 1 if tree text != input or a panic occurs
//!   replay search <seed> <count>        token-soup search (plus a fixed corpus), prints the first
//!                                       failing input as hex and exits 1; exit 0 if none found
use emmylua_parser::{LuaParser, ParserConfig};

fn lossless(text: &str) -> Result<(), String> {
    let t = text.to_string();
    let r = std::panic::catch_unwind(move || {
        let tree = LuaParser::parse(&t, ParserConfig::default());
        tree.get_red_root().text().to_string()
    });
    match r {
        Err(_) => Err("PANIC while parsing".to_string()),
        Ok(out) if out != text => Err(format!("tree text {:?} != input {:?}", out, text)),
        Ok(_) => Ok(()),
    }
}

fn hex(s: &str) -> String { s.bytes().map(|b| format!("{b:02x}")).collect() }
fn unhex(h: &str) -> String {
    let bytes: Vec<u8> = (0..h.len() / 2).map(|i| u8::from_str_radix(&h[2 * i..2 * i + 2], 16).unwrap()).collect();
    String::from_utf8(bytes).expect("utf8")
}

const CORPUS: &[&str] = &["a\0b", "\0", "x--region\n;", "{;do", "{,end", "\u{feff}local a = 1", "--[[ a\0b ]] c",
    "---@class A\n---@field x number\nlocal A = {}\n", "local x = 'é😀'\r\nreturn x", "#!shebang\nprint(1)", ""];
const ATOMS: &[&str] = &["x", " ", "\n", ";", "{", "}", "(", ")", ",", "do", "end", "if", "then", "--region", "--", "---@type T", "'s'", "\0",
    "1", "=", "local", "function", "é", "\r\n", "[[", "]]", "--[[", "::", ".", ":", "return", "\t", "\u{feff}", "~", "@"];

fn main() {
    std::panic::set_hook(Box::new(|_| {}));
    let a: Vec<String> = std::env::args().skip(1).collect();
    match a.first().map(|s| s.as_str()) {
        Some("hex") => {
            let mut bad = 0;
            for h in &a[1..] {
                let t = unhex(h);
                match lossless(&t) { Ok(()) => println!("{t:?}: lossless"), Err(e) => { println!("{t:?}: {e}"); bad += 1; } }
            }
            std::process::exit(if bad > 0 { 1 } else { 0 });
        }
        Some("search") => {
            let mut s: u64 = a.get(1).and_then(|x| x.parse().ok()).unwrap_or(1) | 1;
            let n: u64 = a.get(2).and_then(|x| x.parse().ok()).unwrap_or(20000);
            for t in CORPUS {
                if let Err(e) = lossless(t) { println!("FOUND hex={} {e}", hex(t)); std::process::exit(1); }
            }
            for _ in 0..n {
                let mut t = String::new();
                s ^= s << 13; s ^= s >> 7; s ^= s << 17;
                let len = 1 + (s % 6) as usize;
                for _ in 0..len {
                    s ^= s << 13; s ^= s >> 7; s ^= s << 17;
                    t.push_str(ATOMS[(s % ATOMS.len() as u64) as usize]);
                }
                if let Err(e) = lossless(&t) { println!("FOUND hex={} {e}", hex(&t)); std::process::exit(1); }
            }
            println!("no failing input among the corpus and {n} token-soup texts");
            std::process::exit(0);
        }
        _ => { eprintln!("usage: replay hex <hex>... | replay search <seed> <count>"); std::process::exit(2); }
    }
}
