//! C01 / C02 replay and witness search on the real parser. Decides nothing; only turns a failed
//! obligation into a concrete input.
//!   replay hex <utf8-bytes-in-hex>...   parse each text, exit 1 if tree text != input or a panic occurs
//!   replay search <seed> <count>        token-soup search (plus a fixed corpus), prints the first
//!                                       failing input as hex and exits 1; exit 0 if none found
use emmylua_parser::{LuaLanguageLevel, LuaParser, ParserConfig};

/// the configurations of the property's quantifier: default (5.5, doc on), doc off, Lua 5.1, LuaJIT
fn config(k: usize) -> (&'static str, ParserConfig<'static>) {
    match k {
        0 => ("default", ParserConfig::default()),
        1 => { let mut c = ParserConfig::default(); c.enable_emmylua_doc = false; ("doc-off", c) }
        2 => ("lua5.1", ParserConfig::with_level(LuaLanguageLevel::Lua51)),
        _ => ("luajit", ParserConfig::with_level(LuaLanguageLevel::LuaJIT)),
    }
}
const NCONFIG: usize = 4;

/// C02 "never hangs": the input being parsed and when its parse started; a watchdog thread reports a parse that
/// has been running for more than HANG_SECS (every input here is < 20 kB and parses in milliseconds) as a failing input
static CURRENT: std::sync::Mutex<Option<(std::time::Instant, String, &'static str)>> = std::sync::Mutex::new(None);
const HANG_SECS: u64 = 20;

fn start_watchdog() {
    std::thread::spawn(|| loop {
        std::thread::sleep(std::time::Duration::from_millis(500));
        let g = CURRENT.lock().unwrap();
        if let Some((t0, text, name)) = g.as_ref() {
            if t0.elapsed().as_secs() >= HANG_SECS {
                println!("FOUND hex={} [config {name}] HANG: the parse has not returned after {HANG_SECS} s", hex(text));
                std::process::exit(1);
            }
        }
    });
}

fn lossless(text: &str) -> Result<(), String> {
    for k in 0..NCONFIG {
        *CURRENT.lock().unwrap() = Some((std::time::Instant::now(), text.to_string(), config(k).0));
        let t = text.to_string();
        let r = std::panic::catch_unwind(move || {
            let (_, c) = config(k);
            let tree = LuaParser::parse(&t, c);
            tree.get_red_root().text().to_string()
        });
        *CURRENT.lock().unwrap() = None;
        let name = config(k).0;
        let show = |s: &str| if s.len() > 80 { format!("{:?}… ({} bytes)", &s[..s.char_indices().nth(60).map(|x| x.0).unwrap_or(s.len())], s.len()) } else { format!("{s:?}") };
        match r {
            Err(_) => return Err(format!("[config {name}] PANIC while parsing")),
            Ok(out) if out != text => return Err(format!("[config {name}] tree text {} != input {}", show(&out), show(text))),
            Ok(_) => {}
        }
    }
    Ok(())
}

/// inputs with very many syntax errors (lexer errors at an old language level, stray block closers)
fn heavy_corpus() -> Vec<String> {
    let mut v = Vec::new();
    v.push(format!("{}local x = 1\n", "end\n".repeat(700)));
    v.push(format!("{}return 1\n", "local a = 1 // 2 & 3 << 4\n".repeat(400)));
    v.push(format!("{}x = 1\n", "until else ) ] }\n".repeat(300)));
    v.push(format!("{}", "---@type\n".repeat(600)));
    v
}

/// C02 "roughly linear time": the same number of statements with and without a syntax error in each must not differ by more
/// than a generous constant factor (a quadratic pass over the error list shows as 40x and more at this size). Fastest of three
/// runs each, so that load on the machine cancels out; decides nothing below the factor.
fn roughly_linear() -> Result<(), String> {
    let n = 30000;
    let ok: String = "local x = 1\n".repeat(n);
    let bad: String = "x = = 1\n".repeat(n);
    let time = |t: &str| -> f64 {
        let mut best = f64::MAX;
        for _ in 0..3 {
            *CURRENT.lock().unwrap() = None;   // the hang watchdog is for the small inputs
            let t0 = std::time::Instant::now();
            let tree = LuaParser::parse(t, ParserConfig::default());
            std::hint::black_box(tree.get_errors().len());
            best = best.min(t0.elapsed().as_secs_f64());
        }
        best
    };
    let (t_ok, t_bad) = (time(&ok), time(&bad));
    if t_bad > 25.0 * t_ok + 1.0 {
        return Err(format!("[linear-time] {n} statements with one syntax error each take {t_bad:.2} s, {n} valid statements {t_ok:.2} s (factor {:.0}): parse time is not roughly linear in the input size", t_bad / t_ok.max(1e-9)));
    }
    Ok(())
}

fn hex(s: &str) -> String { s.bytes().map(|b| format!("{b:02x}")).collect() }
fn unhex(h: &str) -> String {
    let bytes: Vec<u8> = (0..h.len() / 2).map(|i| u8::from_str_radix(&h[2 * i..2 * i + 2], 16).unwrap()).collect();
    String::from_utf8(bytes).expect("utf8")
}

const CORPUS: &[&str] = &["a\0b", "\0", "x--region\n;", "{;do", "{,end", "\u{feff}local a = 1", "--[[ a\0b ]] c",
    "---@class A\n---@field x number\nlocal A = {}\n", "-- c\nlocal t", "\u{feff}", "\u{feff}#!sh\n", "x = 1 -- c \n\n\n-- d\n", "local t = {[", "{[)", "return { a = 1, [ * 2", "global", "global.x 1", "f(function(1) end).x 2", "local x = 'é😀'\r\nreturn x", "#!shebang\nprint(1)", ""];
const ATOMS: &[&str] = &["x", " ", "\n", ";", "{", "}", "(", ")", ",", "do", "end", "if", "then", "--region", "--", "---@type T", "'s'", "\0",
    "1", "=", "local", "function", "é", "[", "]", "*", "global", "const", "continue", "..", "+", "\r\n", "[[", "]]", "--[[", "::", ".", ":", "return", "\t", "\u{feff}", "~", "@"];

fn main() {
    std::panic::set_hook(Box::new(|_| {}));
    start_watchdog();
    let a: Vec<String> = std::env::args().skip(1).collect();
    match a.first().map(|s| s.as_str()) {
        Some("hex") => {
            let mut bad = 0;
            for h in &a[1..] {
                let t = unhex(h);
                match lossless(&t) { Ok(()) => println!("{t:?}: lossless"), Err(e) => { println!("{t:?}: {e}"); bad += 1; } }
            }
            std::process::exit(if bad > 0 { 1 } else { 0 });
        }
        Some("search") => {
            let mut s: u64 = a.get(1).and_then(|x| x.parse().ok()).unwrap_or(1) | 1;
            let n: u64 = a.get(2).and_then(|x| x.parse().ok()).unwrap_or(20000);
            for t in CORPUS {
                if let Err(e) = lossless(t) { println!("FOUND hex={} {e}", hex(t)); std::process::exit(1); }
            }
            for t in heavy_corpus() {
                if let Err(e) = lossless(&t) { println!("FOUND hex={} {e}", hex(&t)); std::process::exit(1); }
            }
            if let Err(e) = roughly_linear() { println!("FOUND {e}"); std::process::exit(1); }
            for _ in 0..n {
                let mut t = String::new();
                s ^= s << 13; s ^= s >> 7; s ^= s << 17;
                let len = 1 + (s % 6) as usize;
                for _ in 0..len {
                    s ^= s << 13; s ^= s >> 7; s ^= s << 17;
                    t.push_str(ATOMS[(s % ATOMS.len() as u64) as usize]);
                }
                if let Err(e) = lossless(&t) { println!("FOUND hex={} {e}", hex(&t)); std::process::exit(1); }
            }
            println!("no failing input among the corpus and {n} token-soup texts x {NCONFIG} parser configurations");
            std::process::exit(0);
        }
        _ => { eprintln!("usage: replay hex <hex>... | replay search <seed> <count>"); std::process::exit(2); }
    }
}
