//! C36 bounded witness search on the REAL `emmylua_check::run_check`: generated workspaces on disk, every combination of
//! `--severity` x `--warnings-as-errors` x output format, compared with an expectation computed independently of
//! emmylua_check (the same workspace loaded through the public loader API, `EmmyLuaAnalysis::diagnose_file` on every
//! generated main file, then the severity filter).  Decides nothing: a hit is a concrete (workspace, flags).
//!
//! Oracle, per run:
//!   exit     run_check returns Err("exit code: ..") iff a diagnostic that passes the filter is an error, or a warning
//!            under --warnings-as-errors
//!   report   JSON: the multiset of (file, range, code, severity) equals the expectation, every file entry is a generated
//!            main file and occurs once (library files never); SARIF: the multiset of (artifact uri, region, ruleId,
//!            level); text: the multiset of (file of the enclosing `--- file` header, `--> file:line:col`, code, level),
//!            the per-file header counts and the summary counts
//!   no hang  a run that takes more than 120 s is reported
//! Bounds: workspaces of N = 1, 5, 31, 32, 33, 40, 75 main files ("mixed": every file has a hint, every 3rd an error
//! (undefined global, some on the last line of the file, some after non-ASCII text), every 3rd a warning), plus
//! warnings-only (N = 1, 33), hints-only (N = 5) and clean (N = 5) workspaces, each with a library directory configured in
//! .emmyrc.json (a sibling directory; for N = 5 nested inside the main directory) whose files contain errors;
//! x severity {none, error, warn} (N = 33 also hint) x warnings-as-errors {no, yes} x format {json, sarif, text}
//! (the auxiliary 33-file, hints-only and clean workspaces with the subsets that matter for them): 174 runs.
//! Every run is a child process (`replay one ...`, the text report goes to stdout), 6 at a time.
//!   replay search [seed]     prints "FOUND <oracle> ..." (smallest workspace first, one line per oracle and format) and exits 1;
//!                            exit 0 otherwise; exit 2 when a workspace cannot be set up.  The seed rotates which files carry what.
//!   replay one <main dir> <json|sarif|text> <none|error|warn|info|hint> <0|1> <output file>
use emmylua_check::{CmdArgs, DiagnosticSeverityFilter, OutputDestination, OutputFormat, run_check};
use emmylua_code_analysis::{EmmyLuaAnalysis, WorkspaceFolder, build_workspace_folders, collect_workspace_files, file_path_to_uri, load_configs, uri_to_file_path};
use lsp_types::{Diagnostic, NumberOrString};
use std::collections::{BTreeMap, VecDeque};
use std::path::{Path, PathBuf};
use std::sync::{Arc, Mutex};
use tokio_util::sync::CancellationToken;

#[derive(Clone, Copy, PartialEq, Debug)]
enum Profile { Mixed, WarnOnly, HintOnly, Clean }

struct Ws { name: String, main: PathBuf, files: Vec<PathBuf>, n: usize }

fn file_text(i: usize, n: usize, profile: Profile, seed: usize) -> String {
    let k = i + seed;
    let mut s = format!("local M = {{}}\n-- file {i} of {n}, 内容 ünï\nlocal unused_{i} = 1\n");
    if profile == Profile::Clean { return format!("local M = {{}}\nM.value = {i}\nreturn M\n"); }
    if profile == Profile::Mixed && k % 3 == 0 {
        if k % 2 == 0 { s.push_str(&format!("M.a = {{ \"世界 é\", undefined_global_{i} }}\n")); } else { s.push_str(&format!("M.a = undefined_global_{i}\n")); }
    }
    if (profile == Profile::Mixed && k % 3 == 1) || profile == Profile::WarnOnly {
        s.push_str(&format!("---@type NoSuchType_{i}\nM.b = nil\n"));
    }
    s.push_str(&format!("function M.f{i}(x) return x end\n"));
    // a diagnostic that starts on the last line of the file, with and without a final newline
    if profile == Profile::Mixed && k % 6 == 0 { s.push_str(&format!("M.z = last_line_global_{i}")); if k % 12 == 0 { s.push('\n'); } }
    else { s.push_str("return M\n"); }
    s
}

fn gen_workspace(root: &Path, name: &str, n: usize, profile: Profile, nested_lib: bool, seed: usize) -> std::io::Result<Ws> {
    let dir = root.join(name);
    let _ = std::fs::remove_dir_all(&dir);
    let main = dir.join("main");
    let lib = if nested_lib { main.join("vendor_lib") } else { dir.join("lib") };
    std::fs::create_dir_all(main.join("sub").join("deep"))?;
    std::fs::create_dir_all(&lib)?;
    let mut files = vec![];
    for i in 0..n {
        let p = match i % 4 { 1 => main.join("sub").join(format!("mod_{i:03}.lua")), 3 => main.join("sub").join("deep").join(format!("mod_{i:03}.lua")), _ => main.join(format!("mod_{i:03}.lua")) };
        std::fs::write(&p, file_text(i, n, profile, seed))?;
        files.push(p);
    }
    for i in 0..3 { std::fs::write(lib.join(format!("libmod_{i}.lua")), format!("local L = {{}}\nlocal lib_unused_{i} = 1\nL.x = lib_undefined_global_{i}\n---@type LibNoSuchType_{i}\nL.y = nil\nreturn L\n"))?; }
    std::fs::write(main.join(".emmyrc.json"), serde_json::to_string_pretty(&serde_json::json!({"workspace": {"library": [lib.to_string_lossy()]}})).unwrap())?;
    Ok(Ws { name: name.to_string(), main, files, n })
}

#[derive(Clone, Debug, PartialEq, Eq, PartialOrd, Ord)]
struct Rec { file: PathBuf, sl: u32, sc: u32, el: u32, ec: u32, code: String, sev: u32 }
fn sev_num(d: &Diagnostic) -> u32 {
    match d.severity { Some(lsp_types::DiagnosticSeverity::ERROR) => 1, Some(lsp_types::DiagnosticSeverity::WARNING) => 2, Some(lsp_types::DiagnosticSeverity::INFORMATION) => 3, Some(lsp_types::DiagnosticSeverity::HINT) => 4, _ => 0 }
}
fn code_of(d: &Diagnostic) -> String { match &d.code { Some(NumberOrString::String(s)) => s.clone(), Some(NumberOrString::Number(n)) => n.to_string(), None => "unknown".to_string() } }

/// the expectation: public loader API + diagnose_file on every generated main file (nothing of emmylua_check is used)
fn expectation(ws: &Ws) -> Result<Vec<Rec>, String> {
    let mut emmyrc = load_configs(vec![ws.main.join(".emmyrc.json")], None);
    emmyrc.pre_process_emmyrc(&ws.main);
    let mut analysis = EmmyLuaAnalysis::new();
    analysis.update_config(Arc::new(emmyrc.clone()));
    analysis.init_std_lib(None);
    let folders = build_workspace_folders(&[WorkspaceFolder::new(ws.main.clone(), false)], &emmyrc);
    if !folders.iter().any(|f| f.is_library) { return Err("the configured library directory did not become a library workspace".to_string()); }
    for f in &folders { if f.is_library { analysis.add_library_workspace(f); } else { analysis.add_main_workspace(f.root.clone()); } }
    let infos = collect_workspace_files(&folders, &analysis.emmyrc, None, None);
    analysis.update_files_by_path(infos.into_iter().map(|f| f.into_tuple()).collect());
    let mut out = vec![];
    for p in &ws.files {
        let uri = file_path_to_uri(p).ok_or("uri")?;
        let id = analysis.get_file_id(&uri).ok_or(format!("{} was not loaded", p.display()))?;
        for d in analysis.diagnose_file(id, CancellationToken::new()).unwrap_or_default() {
            out.push(Rec { file: p.clone(), sl: d.range.start.line, sc: d.range.start.character, el: d.range.end.line, ec: d.range.end.character, code: code_of(&d), sev: sev_num(&d) });
        }
    }
    out.sort();
    Ok(out)
}

const FORMATS: &[&str] = &["json", "sarif", "text"];
const SEVS: &[(&str, u32)] = &[("none", 4), ("error", 1), ("warn", 2), ("hint", 4)];

async fn one(a: &[String]) -> i32 {
    let fmt = match a[1].as_str() { "json" => OutputFormat::Json, "sarif" => OutputFormat::Sarif, _ => OutputFormat::Text };
    let severity = match a[2].as_str() { "error" => Some(DiagnosticSeverityFilter::Error), "warn" => Some(DiagnosticSeverityFilter::Warn), "info" => Some(DiagnosticSeverityFilter::Info), "hint" => Some(DiagnosticSeverityFilter::Hint), _ => None };
    let args = CmdArgs { config: None, workspace: vec![PathBuf::from(&a[0])], ignore: None, output_format: fmt, output: OutputDestination::File(PathBuf::from(&a[4])),
        warnings_as_errors: a[3] == "1", severity, verbose: false };
    match run_check(args).await {
        Ok(()) => { eprintln!("RESULT ok"); 0 }
        Err(e) => { let m = e.to_string(); eprintln!("RESULT err {m}"); if m.starts_with("exit code") { 1 } else { 3 } }
    }
}

#[derive(Clone)]
struct Job { ws: usize, fmt: &'static str, sev: &'static str, max_sev: u32, wae: bool }
struct Outcome { job: Job, rc: Option<i32>, stdout: String, stderr: String, report: String, secs: f64 }

fn run_job(exe: &Path, ws: &Ws, out_dir: &Path, job: &Job, idx: usize) -> Outcome {
    let base = out_dir.join(format!("run_{idx}"));
    let (so, se, rep) = (base.with_extension("stdout"), base.with_extension("stderr"), base.with_extension("report"));
    let _ = std::fs::remove_file(&rep);
    let t0 = std::time::Instant::now();
    let mut child = std::process::Command::new(exe).arg("one").arg(&ws.main).arg(job.fmt).arg(job.sev).arg(if job.wae { "1" } else { "0" }).arg(&rep)
        .stdin(std::process::Stdio::null()).stdout(std::fs::File::create(&so).expect("stdout file")).stderr(std::fs::File::create(&se).expect("stderr file")).spawn().expect("spawn child");
    let rc = loop {
        match child.try_wait() { Ok(Some(st)) => break st.code().or(Some(-1)), Ok(None) => {}, Err(_) => break Some(-1) }
        if t0.elapsed().as_secs() > 120 { let _ = child.kill(); let _ = child.wait(); break None; }
        std::thread::sleep(std::time::Duration::from_millis(15));
    };
    let rd = |p: &Path| std::fs::read_to_string(p).unwrap_or_default();
    Outcome { job: job.clone(), rc, stdout: rd(&so), stderr: rd(&se), report: rd(&rep), secs: t0.elapsed().as_secs_f64() }
}

fn multiset_diff<T: Ord + Clone + std::fmt::Debug>(expected: &[T], actual: &[T]) -> (Vec<T>, Vec<T>) {
    let mut e: BTreeMap<T, i64> = BTreeMap::new();
    for x in expected { *e.entry(x.clone()).or_default() += 1; }
    for x in actual { *e.entry(x.clone()).or_default() -= 1; }
    let mut missing = vec![]; let mut extra = vec![];
    for (k, v) in e { if v > 0 { for _ in 0..v { missing.push(k.clone()); } } else { for _ in 0..(-v) { extra.push(k.clone()); } } }
    (missing, extra)
}
fn diff_text<T: std::fmt::Debug>(missing: &[T], extra: &[T]) -> String {
    let mut s = String::new();
    if !missing.is_empty() { s.push_str(&format!("{} expected diagnostics are missing, first {:?}", missing.len(), missing[0])); }
    if !extra.is_empty() { if !s.is_empty() { s.push_str("; "); } s.push_str(&format!("{} reported diagnostics are not expected (or reported twice), first {:?}", extra.len(), extra[0])); }
    s
}

/// violations of one run as (oracle kind, detail)
fn check(ws: &Ws, all: &[Rec], o: &Outcome) -> Vec<(String, String)> {
    let mut v = vec![];
    let Some(rc) = o.rc else { return vec![("hang".to_string(), "the run did not finish within 120 s".to_string())]; };
    if rc != 0 && rc != 1 { return vec![("crash".to_string(), format!("the run ended with status {rc}: {}", o.stderr.lines().rev().take(3).collect::<Vec<_>>().join(" | ")))]; }
    let expected: Vec<Rec> = all.iter().filter(|r| r.sev != 0 && r.sev <= o.job.max_sev).cloned().collect();
    let expect_fail = expected.iter().any(|r| r.sev == 1 || (r.sev == 2 && o.job.wae));
    let (ne, nw, ni, nh) = (expected.iter().filter(|r| r.sev == 1).count(), expected.iter().filter(|r| r.sev == 2).count(), expected.iter().filter(|r| r.sev == 3).count(), expected.iter().filter(|r| r.sev == 4).count());
    if (rc == 1) != expect_fail {
        v.push(("exit".to_string(), format!("run_check returned {} but the filtered diagnostics hold {ne} errors and {nw} warnings (warnings-as-errors={})", if rc == 1 { "Err(exit code: 1)" } else { "Ok" }, o.job.wae)));
    }
    match o.job.fmt {
        "json" => {
            let Ok(serde_json::Value::Array(entries)) = serde_json::from_str::<serde_json::Value>(&o.report) else { return vec![("report".to_string(), format!("the JSON report is not an array: {:?}", o.report.chars().take(80).collect::<String>()))]; };
            let mut actual = vec![]; let mut seen: BTreeMap<PathBuf, usize> = BTreeMap::new();
            for e in &entries {
                let file = PathBuf::from(e["file"].as_str().unwrap_or(""));
                *seen.entry(file.clone()).or_default() += 1;
                if !ws.files.contains(&file) { v.push(("report-file".to_string(), format!("the JSON report has an entry for {} which is not a main-workspace file", file.display()))); }
                for d in e["diagnostics"].as_array().cloned().unwrap_or_default() {
                    let g = |a: &str, b: &str| d["range"][a][b].as_u64().unwrap_or(u64::MAX) as u32;
                    actual.push(Rec { file: file.clone(), sl: g("start", "line"), sc: g("start", "character"), el: g("end", "line"), ec: g("end", "character"),
                        code: d["code"].as_str().map(|s| s.to_string()).unwrap_or_else(|| "unknown".to_string()), sev: d["severity"].as_u64().unwrap_or(0) as u32 });
                }
            }
            if let Some((f, c)) = seen.iter().find(|(_, c)| **c > 1) { v.push(("report-file".to_string(), format!("{} has {c} entries in the JSON report", f.display()))); }
            let (m, x) = multiset_diff(&expected, &actual);
            if !m.is_empty() || !x.is_empty() { v.push(("report".to_string(), diff_text(&m, &x))); }
        }
        "sarif" => {
            let Ok(doc) = serde_json::from_str::<serde_json::Value>(&o.report) else { return vec![("report".to_string(), "the SARIF report is not JSON".to_string())]; };
            let level = |s: u32| match s { 1 => "error", 2 => "warning", _ => "note" };
            let exp: Vec<(PathBuf, u32, u32, u32, u32, String, String)> = expected.iter().map(|r| (r.file.clone(), r.sl, r.sc, r.el, r.ec, r.code.clone(), level(r.sev).to_string())).collect();
            let mut actual = vec![];
            let runs = doc["runs"].as_array().cloned().unwrap_or_default();
            if runs.len() != 1 { v.push(("report".to_string(), format!("the SARIF report has {} runs", runs.len()))); }
            for run in runs { for r in run["results"].as_array().cloned().unwrap_or_default() {
                let loc = &r["locations"][0]["physicalLocation"];
                let uri = loc["artifactLocation"]["uri"].as_str().unwrap_or("");
                let file = uri.parse::<lsp_types::Uri>().ok().and_then(|u| uri_to_file_path(&u)).unwrap_or_else(|| PathBuf::from(uri));
                let g = |k: &str| (loc["region"][k].as_u64().unwrap_or(0) as u32).wrapping_sub(1);
                actual.push((file, g("startLine"), g("startColumn"), g("endLine"), g("endColumn"), r["ruleId"].as_str().unwrap_or("").to_string(), r["level"].as_str().unwrap_or("").to_string()));
            } }
            if let Some(a) = actual.iter().find(|a| !ws.files.contains(&a.0)) { v.push(("report-file".to_string(), format!("the SARIF report has a result in {} which is not a main-workspace file", a.0.display()))); }
            let (m, x) = multiset_diff(&exp, &actual);
            if !m.is_empty() || !x.is_empty() { v.push(("report".to_string(), diff_text(&m, &x))); }
        }
        _ => {
            let level = |s: u32| match s { 1 => "error", 2 => "warning", 3 => "info", _ => "hint" };
            let rel = |p: &Path| p.strip_prefix(&ws.main).unwrap_or(p).to_string_lossy().to_string();
            let exp: Vec<(String, String, u32, u32, String, String)> = expected.iter().map(|r| (rel(&r.file), rel(&r.file), r.sl + 1, r.sc + 1, r.code.clone(), level(r.sev).to_string())).collect();
            let mut actual = vec![]; let mut header = String::new(); let mut headers: Vec<(String, String)> = vec![]; let mut prev = "";
            for line in o.stdout.lines() {
                if let Some(rest) = line.strip_prefix("--- ") {
                    let (path, counts) = match rest.rfind(" [") { Some(i) if rest.ends_with(']') => (&rest[..i], &rest[i + 2..rest.len() - 1]), _ => (rest.trim_end(), "") };
                    header = path.to_string(); headers.push((header.clone(), counts.to_string()));
                } else if let Some(loc) = line.strip_prefix("  --> ") {
                    let mut it = loc.rsplitn(3, ':');
                    let col: u32 = it.next().and_then(|s| s.parse().ok()).unwrap_or(0); let ln: u32 = it.next().and_then(|s| s.parse().ok()).unwrap_or(0); let path = it.next().unwrap_or("").to_string();
                    let lvl = prev.split(':').next().unwrap_or("").to_string();
                    let code = match (prev.rfind(" ["), prev.ends_with(']')) { (Some(i), true) => prev[i + 2..prev.len() - 1].to_string(), _ => "unknown".to_string() };
                    actual.push((header.clone(), path, ln, col, code, lvl));
                }
                prev = line;
            }
            let (m, x) = multiset_diff(&exp, &actual);
            if !m.is_empty() || !x.is_empty() { v.push(("report".to_string(), diff_text(&m, &x))); }
            // per-file header counts
            let mut per: BTreeMap<String, [usize; 4]> = BTreeMap::new();
            for r in &expected { per.entry(rel(&r.file)).or_default()[(r.sev - 1) as usize] += 1; }
            let counts_text = |c: &[usize; 4]| { let mut p = vec![]; if c[0] > 0 { p.push(format!("{} error{}", c[0], if c[0] > 1 { "s" } else { "" })); } if c[1] > 0 { p.push(format!("{} warning{}", c[1], if c[1] > 1 { "s" } else { "" })); }
                if c[2] > 0 { p.push(format!("{} info", c[2])); } if c[3] > 0 { p.push(format!("{} hint{}", c[3], if c[3] > 1 { "s" } else { "" })); } p.join(", ") };
            let exp_headers: Vec<(String, String)> = per.iter().map(|(f, c)| (f.clone(), counts_text(c))).collect();
            let (m, x) = multiset_diff(&exp_headers, &headers);
            if !m.is_empty() || !x.is_empty() { v.push(("report-file".to_string(), format!("file headers of the text report: {}", diff_text(&m, &x)))); }
            // summary
            let summary: Vec<&str> = o.stdout.lines().skip_while(|l| *l != "Summary").skip(1).take_while(|l| l.starts_with("  ")).map(|l| l.trim()).collect();
            let exp_summary = counts_text(&[ne, nw, ni, nh]);
            if expected.is_empty() { if !o.stdout.contains("No issues found") { v.push(("summary".to_string(), "no diagnostic passes the filter but the text report does not say \"No issues found\"".to_string())); } }
            else if summary.join(", ") != exp_summary { v.push(("summary".to_string(), format!("summary of the text report is {:?}, expected {:?}", summary.join(", "), exp_summary))); }
        }
    }
    v
}

fn search(seed: usize) -> i32 {
    let t0 = std::time::Instant::now();
    let root = if Path::new("/verif/build").is_dir() { PathBuf::from("/verif/build/c36_ws") } else { std::env::temp_dir().join("c36_ws") }.join(format!("p{}", std::process::id()));
    let out_dir = root.join("out");
    if std::fs::create_dir_all(&out_dir).is_err() { println!("SETUP-FAILED cannot create {}", out_dir.display()); return 2; }
    let root = root.canonicalize().unwrap_or(root);
    let out_dir = root.join("out");
    let mut specs: Vec<(String, usize, Profile, bool)> = [1usize, 5, 31, 32, 33, 40, 75].iter().map(|n| (format!("mixed_{n}"), *n, Profile::Mixed, *n == 5)).collect();
    specs.extend([("warnonly_1".to_string(), 1, Profile::WarnOnly, false), ("warnonly_33".to_string(), 33, Profile::WarnOnly, false), ("hintonly_5".to_string(), 5, Profile::HintOnly, false), ("clean_5".to_string(), 5, Profile::Clean, true)]);
    let mut wss = vec![]; let mut exps = vec![];
    for (name, n, profile, nested) in &specs {
        let ws = match gen_workspace(&root, name, *n, *profile, *nested, seed) { Ok(w) => w, Err(e) => { println!("SETUP-FAILED cannot write workspace {name}: {e}"); return 2; } };
        let exp = match expectation(&ws) { Ok(e) => e, Err(e) => { println!("SETUP-FAILED workspace {name}: {e}"); return 2; } };
        let has = |s: u32| exp.iter().any(|r| r.sev == s);
        let ok = match profile { Profile::Mixed => has(4) && (*n < 2 || (has(1) && has(2))), Profile::WarnOnly => has(2) && !has(1), Profile::HintOnly => has(4) && !has(1) && !has(2), Profile::Clean => exp.is_empty() };
        if !ok { println!("SETUP-FAILED workspace {name}: the generated files do not produce the intended severities: {:?}", exp.iter().map(|r| (r.code.clone(), r.sev)).collect::<std::collections::BTreeSet<_>>()); return 2; }
        if *profile == Profile::Mixed && exp.iter().map(|r| &r.file).collect::<std::collections::BTreeSet<_>>().len() != *n { println!("SETUP-FAILED workspace {name}: not every file has a diagnostic"); return 2; }
        wss.push(ws); exps.push(exp);
    }
    let mut jobs = VecDeque::new();
    for (w, ws) in wss.iter().enumerate() {
        for fmt in FORMATS { for (sev, max_sev) in SEVS { for wae in [false, true] {
            // the "hint" filter (same set as no filter) only on the 33-file workspace; the large warnings-only workspace only
            // under the filter that removes all of its warnings
            if ws.name != "mixed_33" && *sev == "hint" { continue; }
            if ws.name == "warnonly_33" && *sev != "error" { continue; }
            // hints-only and clean workspaces: nothing can fail the check; unfiltered, and filtered with the flag
            if (ws.name == "hintonly_5" || ws.name == "clean_5") && !(*sev == "none" || (*sev == "warn" && wae)) { continue; }
            jobs.push_back(Job { ws: w, fmt, sev, max_sev: *max_sev, wae });
        } } }
    }
    let njobs = jobs.len();
    let exe = std::env::current_exe().expect("current exe");
    let queue = Arc::new(Mutex::new((jobs, 0usize)));
    let wss = Arc::new(wss);
    let outcomes: Arc<Mutex<Vec<Outcome>>> = Arc::new(Mutex::new(vec![]));
    let workers: Vec<_> = (0..6).map(|_| { let (queue, wss, outcomes, exe, out_dir) = (queue.clone(), wss.clone(), outcomes.clone(), exe.clone(), out_dir.clone());
        std::thread::spawn(move || loop {
            let (job, idx) = { let mut q = queue.lock().unwrap(); let Some(j) = q.0.pop_front() else { return; }; q.1 += 1; (j, q.1) };
            let o = run_job(&exe, &wss[job.ws], &out_dir, &job, idx);
            outcomes.lock().unwrap().push(o);
        }) }).collect();
    for w in workers { let _ = w.join(); }
    let outcomes = outcomes.lock().unwrap();
    // smallest workspace first; one line per (oracle kind, format)
    let mut hits: Vec<(usize, String, String, String)> = vec![];
    for o in outcomes.iter() {
        let ws = &wss[o.job.ws];
        for (kind, detail) in check(ws, &exps[o.job.ws], o) {
            hits.push((ws.n, format!("{kind}/{}", o.job.fmt), kind.clone(), format!("workspace={} ({} main files, generated by `replay search {seed}`) format={} severity={} warnings-as-errors={}: {detail}", ws.name, ws.n, o.job.fmt, o.job.sev, o.job.wae)));
        }
    }
    hits.sort();
    let mut printed = std::collections::BTreeSet::new();
    for (_, key, kind, line) in &hits { if printed.insert(key.clone()) { println!("FOUND {kind} {line}"); } }
    let slowest = outcomes.iter().map(|o| o.secs).fold(0.0, f64::max);
    if !hits.is_empty() {
        println!("{} violating runs out of {njobs} ({} distinct oracle/format pairs printed); workspaces are kept in {}", hits.iter().map(|h| &h.3).collect::<std::collections::BTreeSet<_>>().len(), printed.len(), root.display());
        return 1;
    }
    let _ = std::fs::remove_dir_all(&root);
    println!("no violation: {njobs} runs of run_check over {} workspaces (sizes 1, 5, 31, 32, 33, 40, 75; slowest run {slowest:.1} s), {:.1} s", wss.len(), t0.elapsed().as_secs_f64());
    0
}

fn main() {
    let a: Vec<String> = std::env::args().skip(1).collect();
    match a.first().map(|s| s.as_str()) {
        Some("one") if a.len() == 6 => {
            let rt = tokio::runtime::Builder::new_multi_thread().enable_all().build().expect("runtime");
            let rc = rt.block_on(one(&a[1..]));
            std::process::exit(rc);
        }
        Some("search") | None => std::process::exit(search(a.get(1).and_then(|s| s.parse().ok()).unwrap_or(0))),
        _ => { eprintln!("use: replay search [seed] | replay one <main dir> <json|sarif|text> <none|error|warn|info|hint> <0|1> <output file>"); std::process::exit(2); }
    }
}
