//! C10 replay: a document that is not on disk (`untitled:` uri) is opened, edited and closed.
//! After it is closed (removed) no file of the analysis may still hold its text. exit 1 = traces remain.
use emmylua_code_analysis::EmmyLuaAnalysis;
use lsp_types::Uri;
use std::str::FromStr;

fn main() {
    let mut a = EmmyLuaAnalysis::new();
    let uri = Uri::from_str("untitled:Untitled-1").expect("uri");
    let id1 = a.update_file_by_uri(&uri, Some("VP_C10_GLOBAL_ONE = 1\n".to_string()));
    let id2 = a.update_file_by_uri(&uri, Some("VP_C10_GLOBAL_TWO = 2\n".to_string()));
    println!("didOpen -> file id {id1:?}; didChange (same uri) -> file id {id2:?}");
    let removed = a.remove_file_by_uri(&uri);
    println!("didClose: remove_file_by_uri -> {removed:?}");
    let db = a.compilation.get_db();
    let ids = db.get_vfs().get_all_file_ids();
    let mut left = 0;
    for id in &ids {
        if let Some(text) = db.get_vfs().get_file_content(id) {
            if text.contains("VP_C10_GLOBAL") { left += 1; println!("file {id:?} still holds {text:?}"); }
        }
    }
    println!("{left} file(s) of the closed document remain in the analysis (0 expected)");
    std::process::exit(if left > 0 { 1 } else { 0 });
}
