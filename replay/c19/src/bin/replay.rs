//! C19 bounded witness search on the real analysis (decides nothing; a hit is a concrete program on which
//! suppression comments do not affect exactly their scope).
//! Programs: a statement `local vN = gN` on each of 5 lines (each reports `undefined-global` for gN and
//! `unused` for vN on its line), one suppression comment placed before / at the end of one of them,
//! with every code list of LISTS. Oracle = the statement of C19.
//!   replay search            all generated programs; exit 1 + "FOUND hex=<program>" on the first mismatch
//!   replay hex <utf8 hex>    re-run one program and print what is reported
use emmylua_code_analysis::VirtualWorkspace;
use lsp_types::NumberOrString;
use tokio_util::sync::CancellationToken;

const LISTS: &[Option<&str>] = &[None, Some("undefined-global"), Some("unused"), Some("undefined-global, unused"),
    Some("no-such-code"), Some("unusedd, lowercase-global"), Some("lowercase-global, unused")];

fn hex(s: &str) -> String { s.bytes().map(|b| format!("{b:02x}")).collect() }
fn unhex(h: &str) -> String {
    let bytes: Vec<u8> = (0..h.len() / 2).map(|i| u8::from_str_radix(&h[2 * i..2 * i + 2], 16).unwrap()).collect();
    String::from_utf8(bytes).expect("utf8")
}

fn diagnose(ws: &mut VirtualWorkspace, name: &str, text: &str) -> Vec<(String, u32)> {
    let file_id = ws.def_file(name, text);
    let mut out: Vec<(String, u32)> = ws.analysis.diagnose_file(file_id, CancellationToken::new()).unwrap_or_default()
        .into_iter()
        .filter_map(|d| match d.code { Some(NumberOrString::String(code)) => Some((code, d.range.start.line)), _ => None })
        .filter(|(c, _)| c == "undefined-global" || c == "unused")
        .collect();
    out.sort();
    out
}

fn listed(list: Option<&str>, code: &str) -> bool {
    match list { None => true, Some(l) => l.split(',').any(|c| c.trim() == code) }
}

fn main() {
    let a: Vec<String> = std::env::args().skip(1).collect();
    let mut ws = VirtualWorkspace::new();
    if a.first().map(|s| s.as_str()) == Some("hex") {
        let t = unhex(&a[1]);
        println!("{t}\n-> {:?}", diagnose(&mut ws, "replay.lua", &t));
        return;
    }
    let mut n = 0;
    for kind in ["disable-next-line", "disable-line", "disable-in-block"] {
        for list in LISTS {
            for target in 0..5usize {
                // build the program; stmt_line[i] = line number of statement i
                let mut lines: Vec<String> = Vec::new();
                let mut stmt_line = vec![0u32; 5];
                let tag = |l: &Option<&str>, k: &str| match l { None => format!("---@diagnostic {k}"), Some(c) => format!("---@diagnostic {k}: {c}") };
                let mut in_scope = vec![false; 5];
                for i in 0..5 {
                    let stmt = format!("local v{i} = g{i}");
                    match kind {
                        "disable-next-line" if i == target => { lines.push(tag(list, "disable-next-line")); stmt_line[i] = lines.len() as u32; lines.push(stmt); in_scope[i] = true; }
                        "disable-line" if i == target => { stmt_line[i] = lines.len() as u32; lines.push(format!("{stmt} {}", tag(list, "disable-line"))); in_scope[i] = true; }
                        "disable-in-block" if i == target => {
                            lines.push("do".to_string()); lines.push(format!("    {}", tag(list, "disable")));
                            stmt_line[i] = lines.len() as u32; lines.push(format!("    {stmt}")); lines.push("end".to_string()); in_scope[i] = true;
                        }
                        _ => { stmt_line[i] = lines.len() as u32; lines.push(stmt); }
                    }
                }
                let text = lines.join("\n") + "\n";
                let mut want: Vec<(String, u32)> = Vec::new();
                for i in 0..5 {
                    for code in ["undefined-global", "unused"] {
                        if !(in_scope[i] && listed(*list, code)) { want.push((code.to_string(), stmt_line[i])); }
                    }
                }
                want.sort();
                n += 1;
                let got = diagnose(&mut ws, &format!("p{n}.lua"), &text);
                if got != want {
                    println!("FOUND hex={} {kind} list={list:?} at statement {target}: reported {got:?}, C19 demands {want:?}", hex(&text));
                    std::process::exit(1);
                }
            }
        }
    }
    println!("no mismatch among {n} programs (3 suppression forms x {} code lists x 5 positions; codes undefined-global, unused)", LISTS.len());
}
