//! C23 replay: LSP positions count UTF-16 code units and lines end at \n, \r\n and lone \r.
//! Prints what the real LineIndex does on the two recorded witnesses; exit 1 = deviates from the LSP rules.
use emmylua_parser::LineIndex;
use rowan::TextSize;

fn main() {
    let mut bad = 0;
    // witness 1: column after an astral-plane character
    let t = "😀x";
    let li = LineIndex::parse(t);
    let got = li.get_line_col(TextSize::from(4), t);
    let want = Some((0usize, "😀".encode_utf16().count()));
    println!("get_line_col({t:?}, offset 4) = {got:?}; LSP (UTF-16) = {want:?}");
    if got != want { bad += 1; }
    // witness 2: CR-only line ending
    let t = "a\rb";
    let li = LineIndex::parse(t);
    println!("LineIndex::parse({t:?}).line_count() = {}; LSP = 2", li.line_count());
    if li.line_count() != 2 { bad += 1; }
    std::process::exit(if bad > 0 { 1 } else { 0 });
}
