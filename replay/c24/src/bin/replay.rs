//! C24 replay: "every request id receives exactly one response", observed on the REAL server's stdout.
//!   replay dispatch     a registered method with malformed / missing params, an unknown method, a well-formed request
//!   replay initialize   an `initialize` whose capabilities do not deserialize, then a well-formed one
//!   replay session      one long session on a generated workspace: requests sent while the server is still initializing + a
//!                       `$/cancelRequest` for one of them; a request that is IN FLIGHT (it waits for the analysis lock held by a big
//!                       didOpen) + `$/cancelRequest` while it runs; malformed notifications of every registered method, each
//!                       followed by a well-formed request; responses counted per id over the whole session
//!   replay all          all three
//! exit 1 = some request id got 0 or >1 responses (the line starts with FOUND), 0 = every id was answered exactly once.
use serde_json::{Value, json};
use std::collections::BTreeMap;
use std::io::{BufRead, BufReader, Read, Write};
use std::process::{Child, ChildStdin, Command, Stdio};
use std::sync::mpsc::{Receiver, channel};
use std::time::{Duration, Instant};

fn server_main() {
    use emmylua_ls::cmd_args::*;
    let args = CmdArgs {
        communication: Communication::Stdio, ip: "127.0.0.1".to_string(), port: 5007, log_level: LogLevel::Error,
        log_path: NoneableString(Some(std::env::var("VR_C24_LOGDIR").unwrap_or(std::env::temp_dir().join("vr_c24_logs").to_string_lossy().to_string()))),
        resources_path: NoneableString(None), load_stdlib: CmdBool(false), editor: None,
    };
    let rt = tokio::runtime::Builder::new_multi_thread().enable_all().build().unwrap();
    let r = rt.block_on(emmylua_ls::run_ls(args));
    if let Err(e) = &r { eprintln!("run_ls returned Err: {e}"); }
    std::process::exit(if r.is_ok() { 0 } else { 3 });
}

struct Server { child: Child, stdin: ChildStdin, rx: Receiver<Value>, responses: BTreeMap<String, Vec<Value>>, verbose: bool }

fn frame(v: &Value) -> Vec<u8> { let body = v.to_string(); format!("Content-Length: {}\r\n\r\n{}", body.len(), body).into_bytes() }
fn short(v: &Value) -> String { let s = v.to_string(); if s.len() > 200 { format!("{}…({} bytes)", s.chars().take(200).collect::<String>(), s.len()) } else { s } }

impl Server {
    fn start() -> Server {
        let mut child = Command::new(std::env::current_exe().unwrap()).arg("--server")
            .stdin(Stdio::piped()).stdout(Stdio::piped()).stderr(Stdio::piped()).spawn().unwrap();
        let stdin = child.stdin.take().unwrap();
        let mut out = BufReader::new(child.stdout.take().unwrap());
        let err = BufReader::new(child.stderr.take().unwrap());
        std::thread::spawn(move || { for l in err.lines().map_while(Result::ok) { if l.contains("panicked") || l.contains("returned Err") { println!("  server stderr: {l}"); } } });
        let (tx, rx) = channel();
        std::thread::spawn(move || loop {
            let mut len = None;
            loop {
                let mut line = String::new();
                if out.read_line(&mut line).unwrap_or(0) == 0 { return; }
                let line = line.trim_end();
                if line.is_empty() { break; }
                if let Some(v) = line.strip_prefix("Content-Length: ") { len = v.parse::<usize>().ok(); }
            }
            let mut buf = vec![0u8; len.unwrap_or(0)];
            if out.read_exact(&mut buf).is_err() { return; }
            if let Ok(v) = serde_json::from_slice::<Value>(&buf) { if tx.send(v).is_err() { return; } }
        });
        Server { child, stdin, rx, responses: BTreeMap::new(), verbose: true }
    }
    fn send(&mut self, v: Value) -> bool { self.send_all(&[v]) }
    /// several messages in ONE write: they reach the server back to back
    fn send_all(&mut self, vs: &[Value]) -> bool {
        let mut bytes = Vec::new();
        for v in vs { if self.verbose { println!("  --> {}", short(v)); } bytes.extend(frame(v)); }
        self.stdin.write_all(&bytes).and_then(|_| self.stdin.flush()).is_ok()
    }
    fn take(&mut self, m: Value) -> Option<String> {
        if m.get("method").is_some() {
            // a request FROM the server (configuration, registerCapability, progress): answered with null
            if let Some(id) = m.get("id") { let r = json!({"jsonrpc": "2.0", "id": id.clone(), "result": null}); let _ = self.stdin.write_all(&frame(&r)).and_then(|_| self.stdin.flush()); }
            None
        } else if let Some(id) = m.get("id") {
            if self.verbose { println!("  <-- {}", short(&m)); }
            let key = id.to_string();
            self.responses.entry(key.clone()).or_default().push(m);
            Some(key)
        } else { None }
    }
    /// read until every id of `ids` has a response (or `timeout`), then `settle` more (a duplicate would follow its twin at once)
    fn wait_for(&mut self, ids: &[i64], timeout: Duration, settle: Duration) {
        let end = Instant::now() + timeout;
        while Instant::now() < end && !ids.iter().all(|i| self.count(*i) > 0) {
            if let Ok(m) = self.rx.recv_timeout(Duration::from_millis(20)) { self.take(m); }
            if !ids.is_empty() && self.exited().is_some() && self.rx.try_recv().map(|m| { self.take(m); }).is_err() { break; }
        }
        let end = Instant::now() + settle;
        while Instant::now() < end { if let Ok(m) = self.rx.recv_timeout(Duration::from_millis(20)) { self.take(m); } }
    }
    fn count(&self, id: i64) -> usize { self.responses.get(&id.to_string()).map(|v| v.len()).unwrap_or(0) }
    fn error_code(&self, id: i64) -> Option<i64> { self.responses.get(&id.to_string())?.first()?.get("error")?.get("code")?.as_i64() }
    fn codes(&self, id: i64) -> String {
        self.responses.get(&id.to_string()).map(|v| v.iter().map(|m| m.get("error").and_then(|e| e.get("code")).map(|c| format!("error {c}")).unwrap_or("result".to_string())).collect::<Vec<_>>().join(" + ")).unwrap_or_default()
    }
    fn exited(&mut self) -> Option<String> { self.child.try_wait().ok().flatten().map(|s| format!("{s}")) }
    fn state(&mut self) -> String { self.exited().map(|s| format!("server process ended ({s})")).unwrap_or("server process still running".to_string()) }
    fn stop(&mut self) {
        if self.exited().is_none() {
            self.send(req(9999, "shutdown", None));
            self.wait_for(&[9999], Duration::from_secs(3), Duration::from_millis(0));
            self.send(json!({"jsonrpc": "2.0", "method": "exit"}));
            std::thread::sleep(Duration::from_millis(300));
        }
        let _ = self.child.kill();
        let _ = self.child.wait();
    }
}

fn req(id: i64, method: &str, params: Option<Value>) -> Value {
    match params { Some(p) => json!({"jsonrpc": "2.0", "id": id, "method": method, "params": p}), None => json!({"jsonrpc": "2.0", "id": id, "method": method}) }
}
fn notif(method: &str, params: Option<Value>) -> Value {
    match params { Some(p) => json!({"jsonrpc": "2.0", "method": method, "params": p}), None => json!({"jsonrpc": "2.0", "method": method}) }
}

/// every id of `sent` must have exactly one response
fn verdict(s: &mut Server, sent: &[(i64, String)]) -> usize {
    let mut found = 0;
    for (id, what) in sent {
        let n = s.count(*id);
        if n == 1 { println!("ok    id={id} {what}: 1 response ({})", s.codes(*id)); }
        else { println!("FOUND id={id} {what}: {n} responses{}; {}", if n > 1 { format!(" ({})", s.codes(*id)) } else { String::new() }, s.state()); found += 1; }
    }
    found
}

fn dispatch() -> usize {
    println!("== dispatch: malformed / missing params, unknown method, well-formed request ==");
    let mut s = Server::start();
    s.send(req(1, "initialize", Some(json!({"processId": null, "rootUri": null, "capabilities": {}}))));
    s.wait_for(&[1], Duration::from_secs(20), Duration::from_millis(0));
    s.send(notif("initialized", Some(json!({}))));
    let hover_ok = json!({"textDocument": {"uri": "file:///nowhere/a.lua"}, "position": {"line": 0, "character": 0}});
    let sent: Vec<(i64, &str, Option<Value>, &str)> = vec![
        (7, "textDocument/hover", Some(json!({"bogus": true})), "registered method, MALFORMED params"),
        (8, "textDocument/hover", None, "registered method, MISSING params"),
        (9, "bogus/unknownMethod", Some(json!({})), "unknown method"),
        (10, "textDocument/hover", Some(hover_ok.clone()), "registered method, well-formed params"),
        (11, "textDocument/completion", Some(json!([1, 2, 3])), "registered method, MALFORMED params"),
        (12, "textDocument/hover", Some(hover_ok), "registered method, well-formed params (sent last)"),
    ];
    for (id, m, p, _) in &sent { s.send(req(*id, m, p.clone())); }
    s.wait_for(&[7, 8, 9, 10, 11, 12], Duration::from_secs(6), Duration::from_millis(700));
    let list: Vec<(i64, String)> = sent.iter().map(|(id, m, p, what)| (*id, format!("{m} params={} ({what})", p.as_ref().map(short).unwrap_or("<absent>".to_string())))).collect();
    let mut found = verdict(&mut s, &list);
    if s.error_code(9) != Some(-32601) { println!("FOUND id=9 unknown method: not answered with MethodNotFound (-32601)"); found += 1; }
    s.stop();
    found
}

fn initialize() -> usize {
    println!("== initialize whose capabilities do not deserialize, then a well-formed one ==");
    let mut s = Server::start();
    s.send(req(1, "initialize", Some(json!({"processId": null, "rootUri": null, "capabilities": 5}))));
    s.wait_for(&[1], Duration::from_secs(5), Duration::from_millis(300));
    if s.exited().is_none() {
        // "the server keeps serving": a well-formed initialize afterwards must still be answered
        s.send(req(2, "initialize", Some(json!({"processId": null, "rootUri": null, "capabilities": {}}))));
        s.wait_for(&[2], Duration::from_secs(10), Duration::from_millis(300));
    }
    let found = verdict(&mut s, &[(1, "initialize params={\"capabilities\":5}".to_string()), (2, "initialize (well-formed, sent after the malformed one)".to_string())]);
    let _ = s.child.kill();
    found
}

fn lua_module(i: usize, funcs: usize) -> String {
    let mut t = format!("---@class Mod{i}\nlocal M = {{}}\n");
    for f in 0..funcs {
        t.push_str(&format!("---@param a number\n---@param b string\n---@return number\nfunction M.f{f}(a, b)\n    local t = {{ x = a, y = b, z = {{ a, b, {f} }} }}\n    if a > {f} then return t.x + #b end\n    for k = 1, a do t.x = t.x + k * {f} end\n    return t.x\nend\n"));
    }
    t.push_str("return M\n");
    t
}

fn session() -> usize {
    println!("== session: requests during initialization + cancel, cancel of an in-flight request, malformed notifications ==");
    let ws = std::env::temp_dir().join(format!("vr_c24_ws_{}", std::process::id()));
    let _ = std::fs::remove_dir_all(&ws);
    std::fs::create_dir_all(&ws).unwrap();
    let files: usize = std::env::var("VR_C24_FILES").ok().and_then(|v| v.parse().ok()).unwrap_or(30);
    for i in 0..files { std::fs::write(ws.join(format!("m{i}.lua")), lua_module(i, 40)).unwrap(); }
    std::fs::write(ws.join("a.lua"), "local M = {}\nfunction M.foo(x) return x end\nreturn M\n").unwrap();
    let root = format!("file://{}", ws.to_string_lossy());
    let uri = |n: &str| format!("{root}/{n}");
    let hover = |n: &str| json!({"textDocument": {"uri": uri(n)}, "position": {"line": 1, "character": 12}});
    let mut s = Server::start();
    let mut sent: Vec<(i64, String)> = Vec::new();
    let mut found = 0;

    // ---- phase 1: requests that arrive while the server is still initializing (workspace load), one of them cancelled meanwhile
    s.send(req(1, "initialize", Some(json!({"processId": null, "rootUri": root, "workspaceFolders": [{"uri": root, "name": "ws"}],
        "capabilities": {"workspace": {"configuration": false}}}))));
    s.wait_for(&[1], Duration::from_secs(20), Duration::from_millis(0));
    sent.push((1, "initialize".to_string()));
    let t0 = Instant::now();
    s.send_all(&[
        notif("initialized", Some(json!({}))),
        req(21, "textDocument/hover", Some(hover("a.lua"))),
        req(22, "textDocument/documentSymbol", Some(json!({"textDocument": {"uri": uri("a.lua")}}))),
        req(23, "bogus/unknownMethod", Some(json!({}))),
        notif("$/cancelRequest", Some(json!({"id": 21}))),
        notif("textDocument/didChange", Some(json!({"textDocument": {"uri": uri("a.lua"), "version": 2}, "contentChanges": [{"text": "local M = {}\nfunction M.foo(x) return x end\nreturn M\n"}]}))),
        req(24, "textDocument/hover", Some(hover("a.lua"))),
    ]);
    s.wait_for(&[21, 22, 23, 24], Duration::from_secs(40), Duration::from_millis(500));
    println!("  (the four requests were sent in one write right after `initialized`; the last answer came {} ms later: they were queued while the workspace loaded)", t0.elapsed().as_millis());
    for (id, what) in [(21, "hover sent during initialization, `$/cancelRequest` id=21 sent during initialization too"), (22, "documentSymbol sent during initialization"),
                       (23, "unknown method sent during initialization"), (24, "hover sent during initialization, after the cancel")] { sent.push((id, what.to_string())); }
    found += verdict(&mut s, &sent[1..]);
    let mut checked = sent.len();

    // ---- phase 2: `$/cancelRequest` for a request that is in flight: a big didOpen holds the analysis write lock, the hover waits for it
    if s.exited().is_none() {
        let mut funcs = std::env::var("VR_C24_BIG").ok().and_then(|v| v.parse().ok()).unwrap_or(3000usize);
        for attempt in 0..3i64 {
            let (h, h2) = (31 + 2 * attempt, 32 + 2 * attempt);
            let name = format!("big{attempt}.lua");
            s.verbose = false;
            s.send(notif("textDocument/didOpen", Some(json!({"textDocument": {"uri": uri(&name), "languageId": "lua", "version": 1, "text": lua_module(9000 + attempt as usize, funcs)}}))));
            s.verbose = true;
            println!("  --> textDocument/didOpen {name} ({funcs} functions): its task holds the analysis write lock while it indexes");
            std::thread::sleep(Duration::from_millis(150));
            s.send_all(&[req(h, "textDocument/hover", Some(hover(&name))), notif("$/cancelRequest", Some(json!({"id": h}))), req(h2, "textDocument/hover", Some(hover("a.lua")))]);
            s.wait_for(&[h, h2], Duration::from_secs(40), Duration::from_millis(500));
            sent.push((h, format!("hover on {name} while the didOpen is being indexed, `$/cancelRequest` id={h} sent right behind it")));
            sent.push((h2, "hover sent behind the cancel (not cancelled)".to_string()));
            if s.error_code(h) == Some(-32800) || s.count(h) != 1 || s.exited().is_some() { break; }
            println!("  (id={h} was answered before the cancel was seen: not in flight; retrying with a bigger document)");
            funcs *= 3;
        }
        found += verdict(&mut s, &sent[checked..]);
        let in_flight = sent[checked..].iter().any(|(id, _)| s.responses.get(&id.to_string()).map(|v| v.iter().any(|m| m["error"]["code"] == json!(-32800))).unwrap_or(false));
        println!("  (in-flight cancellation observed: {})", if in_flight { "yes, RequestCanceled (-32800) came back" } else { "NO — the cancel never hit a running request in this run" });
        checked = sent.len();
    }

    // ---- phase 3: malformed notifications of every registered method, each followed by a well-formed request
    let bad: Vec<(&str, Option<Value>, &str)> = vec![
        ("textDocument/didChange", Some(json!({"textDocument": {"uri": uri("a.lua"), "version": 3}, "contentChanges": "not an array"})), "contentChanges not an array"),
        ("textDocument/didChange", Some(json!({"textDocument": {"uri": uri("a.lua")}, "contentChanges": []})), "version missing"),
        ("textDocument/didChange", None, "params absent"),
        ("textDocument/didOpen", Some(json!({"textDocument": {"uri": uri("a.lua"), "languageId": "lua", "version": 1}})), "text missing"),
        ("textDocument/didSave", Some(json!(17)), "params a number"),
        ("textDocument/didClose", Some(json!({})), "textDocument missing"),
        ("workspace/didChangeWatchedFiles", Some(json!({"changes": 5})), "changes not an array"),
        ("$/setTrace", Some(json!({"value": 7})), "value not a trace level"),
        ("workspace/didChangeConfiguration", None, "params absent"),
        ("workspace/didRenameFiles", Some(json!({"files": "x"})), "files not an array"),
        ("$/cancelRequest", Some(json!({"id": {"no": "id"}})), "id an object"),
        ("bogus/unknownNotification", Some(json!([])), "unknown notification"),
    ];
    let mut id = 100;
    for (m, p, what) in &bad {
        if s.exited().is_some() { break; }
        id += 1;
        s.send_all(&[notif(m, p.clone()), req(id, "textDocument/hover", Some(hover("a.lua")))]);
        s.wait_for(&[id], Duration::from_secs(6), Duration::from_millis(100));
        sent.push((id, format!("hover sent right after the malformed notification {m} ({what})")));
        if s.count(id) != 1 { break; }
    }
    s.wait_for(&[], Duration::from_secs(0), Duration::from_millis(500));
    found += verdict(&mut s, &sent[checked..]);

    // ---- the whole session: no id answered that was never asked, none twice
    let asked: Vec<String> = sent.iter().map(|(i, _)| i.to_string()).collect();
    for (k, v) in &s.responses { if !asked.contains(k) && k != "9999" { println!("FOUND a response for id={k}, which was never requested ({} of them)", v.len()); found += 1; } }
    println!("  session: {} request ids, {} responses in total", sent.len(), s.responses.values().map(|v| v.len()).sum::<usize>());
    s.stop();
    let _ = std::fs::remove_dir_all(&ws);
    found
}

fn main() {
    let mode = std::env::args().nth(1).unwrap_or("all".to_string());
    if mode == "--server" { return server_main(); }
    let t0 = Instant::now();
    let mut found = 0;
    if mode == "dispatch" || mode == "all" { found += dispatch(); }
    if mode == "initialize" || mode == "all" { found += initialize(); }
    if mode == "session" || mode == "all" { found += session(); }
    println!("({} s)", t0.elapsed().as_secs());
    if found > 0 { std::process::exit(1); }
    println!("every request id was answered exactly once");
}
