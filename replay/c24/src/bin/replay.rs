//! C24 replay: "every request id receives exactly one response", observed on the server's stdout.
//!   replay dispatch     a registered method with malformed / missing params, an unknown method, a well-formed request
//!   replay initialize   an `initialize` whose capabilities do not deserialize
//!   replay all          both
//! exit 1 = a request id that never got a response was observed (the line starts with FOUND), 0 = every id answered exactly once.
use serde_json::{Value, json};
use std::collections::BTreeMap;
use std::io::{BufRead, BufReader, Read, Write};
use std::process::{Child, ChildStdin, Command, Stdio};
use std::sync::mpsc::{Receiver, channel};
use std::time::{Duration, Instant};

fn server_main() {
    use emmylua_ls::cmd_args::*;
    let args = CmdArgs {
        communication: Communication::Stdio, ip: "127.0.0.1".to_string(), port: 5007, log_level: LogLevel::Error,
        log_path: NoneableString(None), resources_path: NoneableString(None), load_stdlib: CmdBool(false), editor: None,
    };
    let rt = tokio::runtime::Builder::new_multi_thread().enable_all().build().unwrap();
    let r = rt.block_on(emmylua_ls::run_ls(args));
    std::process::exit(if r.is_ok() { 0 } else { 3 });
}

struct Server { child: Child, stdin: ChildStdin, rx: Receiver<Value>, responses: BTreeMap<String, Vec<Value>> }

impl Server {
    fn start() -> Server {
        let mut child = Command::new(std::env::current_exe().unwrap()).arg("--server")
            .stdin(Stdio::piped()).stdout(Stdio::piped()).stderr(Stdio::piped()).spawn().unwrap();
        let stdin = child.stdin.take().unwrap();
        let mut out = BufReader::new(child.stdout.take().unwrap());
        let err = BufReader::new(child.stderr.take().unwrap());
        std::thread::spawn(move || { for l in err.lines().map_while(Result::ok) { if l.contains("panicked") { println!("  server stderr: {l}"); } } });
        let (tx, rx) = channel();
        std::thread::spawn(move || loop {
            let mut len = None;
            loop {
                let mut line = String::new();
                if out.read_line(&mut line).unwrap_or(0) == 0 { return; }
                let line = line.trim_end();
                if line.is_empty() { break; }
                if let Some(v) = line.strip_prefix("Content-Length: ") { len = v.parse::<usize>().ok(); }
            }
            let mut buf = vec![0u8; len.unwrap_or(0)];
            if out.read_exact(&mut buf).is_err() { return; }
            if let Ok(v) = serde_json::from_slice::<Value>(&buf) { if tx.send(v).is_err() { return; } }
        });
        Server { child, stdin, rx, responses: BTreeMap::new() }
    }
    fn send(&mut self, v: Value) -> bool {
        let body = v.to_string();
        println!("  --> {body}");
        write!(self.stdin, "Content-Length: {}\r\n\r\n{}", body.len(), body).and_then(|_| self.stdin.flush()).is_ok()
    }
    /// read server messages until `quiet` passes without one (or `until` is answered); requests FROM the server are answered with null
    fn pump(&mut self, quiet: Duration, until: Option<&str>) {
        let mut last = Instant::now();
        loop {
            match self.rx.recv_timeout(Duration::from_millis(50)) {
                Ok(m) => {
                    last = Instant::now();
                    if m.get("method").is_some() {
                        if let Some(id) = m.get("id") { let id = id.clone(); self.send_quiet(json!({"jsonrpc": "2.0", "id": id, "result": null})); }
                    } else if let Some(id) = m.get("id") {
                        println!("  <-- {m}");
                        let key = id.to_string();
                        self.responses.entry(key.clone()).or_default().push(m);
                        if until == Some(key.as_str()) { return; }
                    }
                }
                Err(_) => { if last.elapsed() > quiet { return; } }
            }
        }
    }
    fn send_quiet(&mut self, v: Value) {
        let body = v.to_string();
        let _ = write!(self.stdin, "Content-Length: {}\r\n\r\n{}", body.len(), body).and_then(|_| self.stdin.flush());
    }
    fn count(&self, id: i64) -> usize { self.responses.get(&id.to_string()).map(|v| v.len()).unwrap_or(0) }
    fn error_code(&self, id: i64) -> Option<i64> { self.responses.get(&id.to_string())?.first()?.get("error")?.get("code")?.as_i64() }
    fn exited(&mut self) -> Option<String> { self.child.try_wait().ok().flatten().map(|s| format!("{s}")) }
}

fn req(id: i64, method: &str, params: Option<Value>) -> Value {
    match params { Some(p) => json!({"jsonrpc": "2.0", "id": id, "method": method, "params": p}), None => json!({"jsonrpc": "2.0", "id": id, "method": method}) }
}

fn dispatch() -> usize {
    println!("== dispatch: malformed / missing params, unknown method, well-formed request ==");
    let mut s = Server::start();
    s.send(req(1, "initialize", Some(json!({"processId": null, "rootUri": null, "capabilities": {}}))));
    s.pump(Duration::from_secs(20), Some("1"));
    s.send(json!({"jsonrpc": "2.0", "method": "initialized", "params": {}}));
    s.pump(Duration::from_secs(2), None);
    let hover_ok = json!({"textDocument": {"uri": "file:///nowhere/a.lua"}, "position": {"line": 0, "character": 0}});
    let sent: Vec<(i64, &str, Option<Value>, &str)> = vec![
        (7, "textDocument/hover", Some(json!({"bogus": true})), "registered method, MALFORMED params"),
        (8, "textDocument/hover", None, "registered method, MISSING params"),
        (9, "bogus/unknownMethod", Some(json!({})), "unknown method"),
        (10, "textDocument/hover", Some(hover_ok.clone()), "registered method, well-formed params"),
        (11, "textDocument/completion", Some(json!([1, 2, 3])), "registered method, MALFORMED params"),
        (12, "textDocument/hover", Some(hover_ok), "registered method, well-formed params (sent last)"),
    ];
    for (id, m, p, _) in &sent { s.send(req(*id, m, p.clone())); }
    s.pump(Duration::from_secs(5), Some("12"));
    s.pump(Duration::from_secs(3), None);
    let mut found = 0;
    for (id, m, p, what) in &sent {
        let n = s.count(*id);
        let ps = p.as_ref().map(|p| p.to_string()).unwrap_or("<absent>".to_string());
        if n == 1 { println!("ok    id={id} {m} ({what}): 1 response{}", s.error_code(*id).map(|c| format!(", error code {c}")).unwrap_or_default()); }
        else { println!("FOUND id={id} method={m} params={ps} ({what}): {n} responses — the later request id=12 was answered, the server is alive"); found += 1; }
    }
    if s.error_code(9) != Some(-32601) { println!("FOUND id=9 unknown method: not answered with MethodNotFound (-32601)"); found += 1; }
    s.send(req(99, "shutdown", None));
    s.pump(Duration::from_secs(3), Some("99"));
    s.send(json!({"jsonrpc": "2.0", "method": "exit"}));
    std::thread::sleep(Duration::from_millis(500));
    let _ = s.child.kill();
    found
}

fn initialize() -> usize {
    println!("== initialize whose capabilities do not deserialize ==");
    let mut s = Server::start();
    s.send(req(1, "initialize", Some(json!({"processId": null, "rootUri": null, "capabilities": 5}))));
    s.pump(Duration::from_secs(5), Some("1"));
    let mut found = 0;
    let n = s.count(1);
    std::thread::sleep(Duration::from_millis(300));
    let ex = s.exited();
    if n != 1 {
        println!("FOUND id=1 method=initialize params={{\"capabilities\":5}}: {n} responses; server process: {}", ex.clone().unwrap_or("still running".to_string()));
        found += 1;
    } else { println!("ok    id=1 initialize (capabilities do not deserialize): 1 response{}", s.error_code(1).map(|c| format!(", error code {c}")).unwrap_or_default()); }
    // "the server keeps serving": a well-formed initialize afterwards must still be answered
    if ex.is_none() {
        s.send(req(2, "initialize", Some(json!({"processId": null, "rootUri": null, "capabilities": {}}))));
        s.pump(Duration::from_secs(10), Some("2"));
    }
    if s.count(2) != 1 { println!("FOUND id=2 method=initialize (well-formed, sent after the malformed one): {} responses; server process: {}", s.count(2), s.exited().unwrap_or("still running".to_string())); found += 1; }
    else { println!("ok    id=2 initialize (well-formed, after the malformed one): 1 response"); }
    let _ = s.child.kill();
    found
}

fn main() {
    let mode = std::env::args().nth(1).unwrap_or("all".to_string());
    if mode == "--server" { return server_main(); }
    let mut found = 0;
    if mode == "dispatch" || mode == "all" { found += dispatch(); }
    if mode == "initialize" || mode == "all" { found += initialize(); }
    if found > 0 { std::process::exit(1); }
    println!("every request id was answered exactly once");
}
