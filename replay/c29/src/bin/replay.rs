//! C29 bounded witness search on the REAL code: "when a workspace reload or reindex runs while documents are being opened, edited or
//! closed, once everything settles every open workspace file is analysed with its latest editor text; every closed file reflects its
//! on-disk content, or is absent if not on disk."
//!
//! This driver DECIDES NOTHING. It is the fallback for a tree on which unit c29_reload is undecided: it runs the real reload
//! (`apply_workspace_reload` through the cfg-guarded wrapper `verif_apply_workspace_reload`) next to the real text-sync handlers
//! (`on_did_open_text_document` / `on_did_change_text_document` / `on_did_close_document`) on a workspace generated on disk, under
//! EVERY schedule of a small stateless DFS (below), and compares the settled analysis with the editor / the disk.
//!
//! How the interleaving is pinned (no sleeps, nothing is left to the scheduler): the two actors — R = the reload, C = the client's
//! notifications, handled one after the other as the server's main loop does — are plain futures that the driver polls ITSELF on a
//! current-thread runtime. The driver holds a WRITE guard ("gate") on each of the two fair (FIFO) tokio RwLocks of the server, so an
//! actor runs until it asks for a lock and parks in that lock's queue. `cycle(L)` = drop the gate of L and ask for it again at once:
//! exactly the actors queued on L in front of the driver get the lock, in arrival order, run their lock scope and park at their next
//! request. The client round trip of the reload (window/workDoneProgress/create, before the disk load) is a fifth pin: the driver is the
//! client and answers when the schedule says so. A schedule is the list of driver decisions
//!     startR | startC | wm (cycle the workspace-manager lock) | an (cycle the analysis lock) | answer
//! and the DFS enumerates all of them (decisions that move nobody are skipped), i.e. every order of the lock scopes of R and C that the
//! fair locks admit when an actor asks for its next lock as soon as it has left the previous scope.
//!
//! Which places of the reload that pins (scenario `change`, the others alike; `search` prints the list for the first scenario): the client's first
//! notification arrives when the reload is not started / queued for its snapshot (before the snapshot) / queued for clear_non_std_workspaces
//! (between snapshot and load) / waiting for the client's progress answer (between snapshot and load, no lock asked for: the handlers run
//! freely) / queued for the disk load / queued for the first snapshot of the version loop (between load and re-application) / queued in
//! register_files_watch (after the loop) / finished; every later lock scope of the client is ordered against every later lock scope of
//! the reload in all ways the fair locks admit — that includes "between a snapshot of the version loop and its application". "During the
//! load" (the reload holds analysis.write) is the order "the handler's store write before the load's end, its analysis scope after it":
//! lock scopes are atomic (everything the two actors share sits behind the two locks), so running the handler's workspace-manager scope
//! while the reload holds analysis.write is the same as running it just before the load with the handler then queued behind the load.
//!
//! Bounds (what a run that finds nothing does NOT say): one reload, one client script of at most two notifications per scenario; an actor
//! asks for its next lock as soon as it has left the previous scope (a handler that is preempted between two scopes for so long that the
//! reload passes SEVERAL scopes meanwhile is not produced; a reload that waits on the client is); client capabilities with pull diagnostics
//! and dynamic watched-files registration, so no diagnostics task and no fs watcher runs next to the two actors; the reindex path and the
//! public entry point add_reload_workspace_task are run sequentially only.
//!
//! usage: replay search [--budget-s N] [--max-schedules N] [--only SCENARIO] [-v]      exit 0 nothing found / 1 FOUND / 2 cannot set up
//!        replay replay SCENARIO SCHEDULE        (SCHEDULE as printed: e.g. startR,wm,startC,an,answer,...)  prints every step
//!        replay list

#[cfg(not(all(hook_context, hook_open, hook_change, hook_close, hook_save, hook_reload)))]
fn main() {
    let mut missing = Vec::new();
    if !cfg!(hook_context) { missing.push("ServerContext"); }
    if !cfg!(hook_open) { missing.push("on_did_open_text_document"); }
    if !cfg!(hook_change) { missing.push("on_did_change_text_document"); }
    if !cfg!(hook_close) { missing.push("on_did_close_document"); }
    if !cfg!(hook_save) { missing.push("on_did_save_text_document"); }
    if !cfg!(hook_reload) { missing.push("verif_apply_workspace_reload"); }
    println!("SETUP-FAILED the tree under test ({}) does not re-export {} from emmylua_ls::handlers::verif_hooks: apply replay/c29/proposed_hook_reexports.diff",
        env!("C29_LS_DIR"), missing.join(", "));
    std::process::exit(2);
}

#[cfg(all(hook_context, hook_open, hook_change, hook_close, hook_save, hook_reload))]
fn main() { search::main() }

#[cfg(all(hook_context, hook_open, hook_change, hook_close, hook_save, hook_reload))]
mod search {
    use emmylua_code_analysis::{EmmyLuaAnalysis, Emmyrc, WorkspaceFolder, file_path_to_uri, load_configs};
    use emmylua_ls::verif_hooks as h;
    use lsp_server::{Connection, Message, RequestId, Response};
    use lsp_types::Uri;
    use serde_json::json;
    use std::collections::VecDeque;
    use std::future::Future;
    use std::path::PathBuf;
    use std::pin::Pin;
    use std::sync::{Arc, Mutex};
    use std::sync::atomic::{AtomicBool, Ordering};
    use std::task::{Context, Poll, Wake, Waker};
    use std::time::{Duration, Instant};
    use tokio::sync::{RwLock, RwLockWriteGuard};

    // ------------------------------------------------------------------------------------------------------------------
    // the workspace on disk
    // ------------------------------------------------------------------------------------------------------------------
    #[derive(Clone, Copy, PartialEq, Eq, Debug)]
    enum Doc {
        /// workspace file on disk; open with unsaved text when the reload starts
        Main,
        /// workspace file on disk; closed when the reload starts
        Other,
        /// on disk; NOT a workspace file under the first configuration (ignoreGlobs), a workspace file under the second
        Late,
        /// a workspace path with no file behind it (a buffer that was never saved)
        Ghost,
        /// workspace file on disk that nobody touches
        Idle,
        /// workspace file on disk, closed, deleted before the reindex (reindex scenario only)
        Gone,
    }
    const DOCS: [Doc; 6] = [Doc::Main, Doc::Other, Doc::Late, Doc::Ghost, Doc::Idle, Doc::Gone];
    impl Doc {
        fn rel(self) -> &'static str {
            match self { Doc::Main => "main.lua", Doc::Other => "other.lua", Doc::Late => "extra/late.lua", Doc::Ghost => "ghost.lua", Doc::Idle => "idle.lua", Doc::Gone => "gone.lua" }
        }
        fn disk(self) -> Option<&'static str> {
            match self {
                Doc::Main => Some("return 'main on disk'\n"), Doc::Other => Some("return 'other on disk'\n"), Doc::Late => Some("return 'late on disk'\n"),
                Doc::Ghost => None, Doc::Idle => Some("return 'idle on disk'\n"), Doc::Gone => Some("return 'gone on disk'\n"),
            }
        }
    }
    const CONFIG_1: &str = r#"{ "workspace": { "ignoreGlobs": ["extra/**"] } }"#;
    const CONFIG_2: &str = r#"{ "workspace": { "ignoreGlobs": [] }, "diagnostics": { "globals": ["reloaded"] } }"#;
    const CONFIG_REINDEX: &str = r#"{ "workspace": { "enableReindex": true, "reindexDuration": 1000 } }"#;

    static CONFIGS: Mutex<Vec<(PathBuf, String, Arc<Emmyrc>)>> = Mutex::new(Vec::new());
    fn ws_base() -> PathBuf {
        std::env::var_os("C29_WS_DIR").map(PathBuf::from).unwrap_or_else(|| PathBuf::from("/verif/build/c29_ws"))
    }
    struct Workspace { root: PathBuf }
    impl Workspace {
        fn create(config: &str) -> Result<Workspace, String> {
            // the same path in every execution of this process (re-created from scratch each time): the loaded configurations can be shared
            let root = ws_base().join(format!("{}", std::process::id())).join("ws");
            let _ = std::fs::remove_dir_all(&root);
            std::fs::create_dir_all(root.join("extra")).map_err(|e| format!("create {:?}: {e}", root))?;
            for d in DOCS {
                if let Some(text) = d.disk() { std::fs::write(root.join(d.rel()), text).map_err(|e| format!("write {}: {e}", d.rel()))?; }
            }
            std::fs::write(root.join(".emmyrc.json"), config).map_err(|e| format!("write .emmyrc.json: {e}"))?;
            // canonical, so that the uris the "client" sends are the uris the loader computes
            let root = root.canonicalize().map_err(|e| format!("canonicalize: {e}"))?;
            Ok(Workspace { root })
        }
        fn path(&self, d: Doc) -> PathBuf { self.root.join(d.rel()) }
        fn uri(&self, d: Doc) -> Uri { file_path_to_uri(&self.path(d)).expect("uri of a workspace path") }
        /// the configuration the server would load for this workspace NOW: `<root>/.emmyrc.json` through the real loader + pre-processing
        /// (loaded once per process for a given root and file content: the loader takes 10 ms in a debug build)
        fn load_config(&self) -> Arc<Emmyrc> {
            let file = self.root.join(".emmyrc.json");
            let text = std::fs::read_to_string(&file).unwrap_or_default();
            let mut cache = CONFIGS.lock().unwrap();
            if let Some((_, _, c)) = cache.iter().find(|(r, t, _)| *r == self.root && *t == text) { return c.clone(); }
            let mut emmyrc = load_configs(vec![file], None);
            emmyrc.pre_process_emmyrc(&self.root);
            let emmyrc = Arc::new(emmyrc);
            cache.push((self.root.clone(), text, emmyrc.clone()));
            emmyrc
        }
        fn folders(&self) -> Vec<WorkspaceFolder> { vec![WorkspaceFolder::new(self.root.clone(), false)] }
    }
    impl Drop for Workspace {
        fn drop(&mut self) { if let Some(p) = self.root.parent() { let _ = std::fs::remove_dir_all(p); } }
    }

    // ------------------------------------------------------------------------------------------------------------------
    // scenarios
    // ------------------------------------------------------------------------------------------------------------------
    #[derive(Clone, Copy, Debug)]
    enum Note { Open(Doc, &'static str), Change(Doc, &'static str), Close(Doc) }
    impl Note {
        fn show(&self) -> String {
            match self { Note::Open(d, t) => format!("didOpen({}, {:?})", d.rel(), t), Note::Change(d, t) => format!("didChange({}, {:?})", d.rel(), t), Note::Close(d) => format!("didClose({})", d.rel()) }
        }
    }
    struct Scenario { name: &'static str, about: &'static str, pre: &'static [Note], script: &'static [Note] }

    const MAIN_V1: &str = "return 'main editor v1 (unsaved)'\n";
    const MAIN_V2: &str = "return 'main editor v2 (unsaved)'\n";
    const MAIN_V3: &str = "return 'main editor v3 (unsaved)'\n";
    const OTHER_ED: &str = "return 'other editor (unsaved)'\n";
    const LATE_ED: &str = "return 'late editor (unsaved)'\n";
    const GHOST_ED: &str = "return 'ghost editor (never saved)'\n";

    const SCENARIOS: &[Scenario] = &[
        Scenario { name: "change", about: "didChange of the open document (text v2) while the reload runs",
            pre: &[Note::Open(Doc::Main, MAIN_V1)], script: &[Note::Change(Doc::Main, MAIN_V2)] },
        Scenario { name: "open-member", about: "didOpen of another workspace file with unsaved text",
            pre: &[Note::Open(Doc::Main, MAIN_V1)], script: &[Note::Open(Doc::Other, OTHER_ED)] },
        Scenario { name: "open-joining", about: "didOpen of a NON-member file that becomes a member through the config change",
            pre: &[Note::Open(Doc::Main, MAIN_V1)], script: &[Note::Open(Doc::Late, LATE_ED)] },
        Scenario { name: "close-unsaved", about: "didClose of an open document with unsaved edits (file on disk)",
            pre: &[Note::Open(Doc::Main, MAIN_V1)], script: &[Note::Close(Doc::Main)] },
        Scenario { name: "close-nofile", about: "didClose of an open document whose file does not exist",
            pre: &[Note::Open(Doc::Main, MAIN_V1), Note::Open(Doc::Ghost, GHOST_ED)], script: &[Note::Close(Doc::Ghost)] },
        Scenario { name: "open-close", about: "didOpen + didClose back to back (unsaved text, file on disk)",
            pre: &[Note::Open(Doc::Main, MAIN_V1)], script: &[Note::Open(Doc::Other, OTHER_ED), Note::Close(Doc::Other)] },
        Scenario { name: "close-reopen", about: "didClose + didOpen of the same document with a newer text",
            pre: &[Note::Open(Doc::Main, MAIN_V1)], script: &[Note::Close(Doc::Main), Note::Open(Doc::Main, MAIN_V3)] },
        Scenario { name: "change-back", about: "two edits, the second back to the text the reload's first snapshot saw",
            pre: &[Note::Open(Doc::Main, MAIN_V1)], script: &[Note::Change(Doc::Main, MAIN_V2), Note::Change(Doc::Main, MAIN_V1)] },
    ];

    /// what the editor holds after pre + script: (doc, Some(text) = open | None = closed)
    fn editor_model(scn: &Scenario) -> Vec<(Doc, Option<&'static str>)> {
        let mut m: Vec<(Doc, Option<&'static str>)> = DOCS.iter().map(|d| (*d, None)).collect();
        for n in scn.pre.iter().chain(scn.script.iter()) {
            let (d, v) = match *n { Note::Open(d, t) | Note::Change(d, t) => (d, Some(t)), Note::Close(d) => (d, None) };
            m.iter_mut().find(|(x, _)| *x == d).unwrap().1 = v;
        }
        m
    }

    // ------------------------------------------------------------------------------------------------------------------
    // hand-polled actors and gates
    // ------------------------------------------------------------------------------------------------------------------
    struct Flag(AtomicBool);
    impl Wake for Flag {
        fn wake(self: Arc<Self>) { self.0.store(true, Ordering::SeqCst); }
        fn wake_by_ref(self: &Arc<Self>) { self.0.store(true, Ordering::SeqCst); }
    }
    impl Flag {
        fn new() -> Arc<Flag> { Arc::new(Flag(AtomicBool::new(false))) }
        fn take(&self) -> bool { self.0.swap(false, Ordering::SeqCst) }
    }

    struct Actor<'a> { name: &'static str, fut: Option<Pin<Box<dyn Future<Output = ()> + 'a>>>, flag: Arc<Flag>, started: bool, done: bool, polls: usize }
    impl<'a> Actor<'a> {
        fn new(name: &'static str, fut: Pin<Box<dyn Future<Output = ()> + 'a>>) -> Self {
            Actor { name, fut: Some(fut), flag: Flag::new(), started: false, done: false, polls: 0 }
        }
        /// polls until the future is finished or parked (Pending without having woken itself)
        fn advance(&mut self) {
            self.started = true;
            let waker = Waker::from(self.flag.clone());
            let mut cx = Context::from_waker(&waker);
            for _ in 0..100_000 {
                if self.done { return; }
                self.flag.take();
                self.polls += 1;
                match self.fut.as_mut().unwrap().as_mut().poll(&mut cx) {
                    Poll::Ready(()) => { self.done = true; self.fut = None; self.flag.take(); return; }
                    Poll::Pending => { if !self.flag.0.load(Ordering::SeqCst) { return; } }
                }
            }
        }
        fn parked(&self) -> bool { self.started && !self.done }
    }

    trait GateOps {
        fn held(&self) -> bool;
        /// drops the guard and asks for the lock again at once; true = nobody was queued (the guard came straight back)
        fn cycle(&mut self) -> bool;
        /// true = the pending request has just been granted
        fn poll_pending(&mut self) -> bool;
        fn open(&mut self);
        /// (what the value behind the lock says, for the verbose replay; the documents it lists as open) while the driver holds the guard
        fn inspect(&self) -> Option<(String, Vec<String>)>;
    }
    struct Gate<'a, T> {
        lock: &'a RwLock<T>,
        guard: Option<RwLockWriteGuard<'a, T>>,
        pending: Option<Pin<Box<dyn Future<Output = RwLockWriteGuard<'a, T>> + 'a>>>,
        flag: Arc<Flag>,
        show: Box<dyn Fn(&T) -> (String, Vec<String>) + 'a>,
    }
    impl<'a, T> GateOps for Gate<'a, T> {
        fn held(&self) -> bool { self.guard.is_some() }
        fn cycle(&mut self) -> bool {
            self.guard = None;
            self.pending = Some(Box::pin(self.lock.write()));
            self.poll_pending();
            self.guard.is_some()
        }
        fn poll_pending(&mut self) -> bool {
            let Some(f) = self.pending.as_mut() else { return false; };
            let waker = Waker::from(self.flag.clone());
            let mut cx = Context::from_waker(&waker);
            match f.as_mut().poll(&mut cx) {
                Poll::Ready(g) => { self.guard = Some(g); self.pending = None; true }
                Poll::Pending => false,
            }
        }
        fn open(&mut self) { self.guard = None; self.pending = None; }
        fn inspect(&self) -> Option<(String, Vec<String>)> { self.guard.as_ref().map(|g| (self.show)(&**g)) }
    }
    fn gate<'a, T: 'a>(lock: &'a RwLock<T>, show: impl Fn(&T) -> (String, Vec<String>) + 'a) -> Box<dyn GateOps + 'a> {
        let mut g = Gate { lock, guard: None, pending: None, flag: Flag::new(), show: Box::new(show) };
        g.cycle();
        Box::new(g)
    }

    // ------------------------------------------------------------------------------------------------------------------
    // the server under test + the driver as its client
    // ------------------------------------------------------------------------------------------------------------------
    struct Server { context: h::ServerContext, client_end: Connection }
    impl Server {
        fn new() -> Server {
            // workDoneProgress: the reload asks the client for a progress token before the disk load (a suspension point the driver pins);
            // pull diagnostics + dynamic watched-files registration: no diagnostics tasks, no fs watcher next to the two actors
            let caps: lsp_types::ClientCapabilities = serde_json::from_value(json!({
                "window": { "workDoneProgress": true },
                "textDocument": { "diagnostic": {} },
                "workspace": { "didChangeWatchedFiles": { "dynamicRegistration": true } }
            })).expect("client capabilities");
            let (server_end, client_end) = Connection::memory();
            Server { context: h::ServerContext::new(server_end, caps), client_end }
        }
        /// the messages the server has sent since the last call: progress-create request ids, and whether a diagnostics refresh was asked for
        fn drain(&self, progress: &mut VecDeque<RequestId>, refresh: &mut usize) {
            while let Ok(msg) = self.client_end.receiver.try_recv() {
                if let Message::Request(req) = msg {
                    if req.method == "window/workDoneProgress/create" { progress.push_back(req.id); }
                    else if req.method == "workspace/diagnostic/refresh" { *refresh += 1; }
                }
            }
        }
        async fn answer(&self, id: RequestId) { self.context.send_response(Response::new_ok(id, serde_json::Value::Null)).await; }
    }

    async fn notify(snap: h::ServerContextSnapshot, uri: Uri, note: Note) {
        match note {
            Note::Open(_, text) => {
                let p = serde_json::from_value(json!({ "textDocument": { "uri": uri.as_str(), "languageId": "lua", "version": 1, "text": text } })).expect("didOpen params");
                h::on_did_open_text_document(snap, p).await;
            }
            Note::Change(_, text) => {
                let p = serde_json::from_value(json!({ "textDocument": { "uri": uri.as_str(), "version": 2 }, "contentChanges": [ { "text": text } ] })).expect("didChange params");
                h::on_did_change_text_document(snap, p).await;
            }
            Note::Close(_) => {
                let p = serde_json::from_value(json!({ "textDocument": { "uri": uri.as_str() } })).expect("didClose params");
                h::on_did_close_document(snap, p).await;
            }
        }
    }

    fn analysed_in(analysis: &EmmyLuaAnalysis, uri: &Uri) -> Option<String> {
        let id = analysis.get_file_id(uri)?;
        analysis.compilation.get_db().get_vfs().get_document(&id).map(|d| d.get_text().to_string())
    }
    async fn analysed(snap: &h::ServerContextSnapshot, uri: &Uri) -> Option<String> {
        let analysis = snap.analysis().read().await;
        analysed_in(&analysis, uri)
    }

    /// runs a future of the server to its end with nothing next to it, answering its progress requests (set-up steps)
    async fn run_alone<'a>(server: &Server, fut: Pin<Box<dyn Future<Output = ()> + 'a>>, what: &str) -> Result<(), String> {
        let mut a = Actor::new("setup", fut);
        let (mut progress, mut refresh) = (VecDeque::new(), 0);
        let t0 = Instant::now();
        loop {
            a.advance();
            if a.done { return Ok(()); }
            server.drain(&mut progress, &mut refresh);
            if let Some(id) = progress.pop_front() { server.answer(id).await; continue; }
            if t0.elapsed() > Duration::from_secs(30) { return Err(format!("{what} did not finish")); }
            tokio::time::sleep(Duration::from_millis(1)).await;
        }
    }

    // ------------------------------------------------------------------------------------------------------------------
    // one execution = one schedule
    // ------------------------------------------------------------------------------------------------------------------
    pub const ALTS: [&str; 5] = ["wm", "an", "answer", "startR", "startC"];
    /// `known`: the violation is the open finding the search itself made on the unchanged tree (see KNOWN_CLOSE)
    struct Violation { what: String, known: bool }
    enum Status { Completed(Vec<Violation>), Exhausted, Stuck(String), Diverged(String), Setup(String) }
    /// `more[i]`: after decision i a later alternative of the same decision point may move somebody as well (false = certainly not)
    struct Outcome { path: Vec<usize>, more: Vec<bool>, trace: Vec<String>, status: Status }
    const KNOWN_CLOSE: &str = "didClose removes a closed document the reload has just loaded from disk (the handler decides under analysis.read BEFORE the load that the document has no module, and removes it under analysis.write AFTER the load)";

    /// `prefix`: decisions to repeat; at depth prefix.len() the first effective alternative with index >= min_last is taken, below that the first effective one
    async fn execute(scn: &Scenario, prefix: &[usize], min_last: usize, verbose: bool) -> Outcome {
        let mut out = Outcome { path: Vec::new(), more: Vec::new(), trace: Vec::new(), status: Status::Exhausted };
        macro_rules! setup_err { ($e:expr) => {{ out.status = Status::Setup($e); return out; }}; }
        let ws = match Workspace::create(CONFIG_1) { Ok(ws) => ws, Err(e) => setup_err!(e) };
        let server = Server::new();
        let snap = server.context.snapshot();
        { snap.workspace_manager().write().await.workspace_folders = ws.folders(); }
        // first load under configuration 1, then the documents that are open when the reload starts
        if let Err(e) = run_alone(&server, Box::pin(h::verif_apply_workspace_reload(snap.clone(), ws.folders(), ws.load_config())), "the initial load").await { setup_err!(e) }
        for n in scn.pre { let Note::Open(d, _) = *n else { setup_err!("pre-notes are didOpen".to_string()) };
            if let Err(e) = run_alone(&server, Box::pin(notify(snap.clone(), ws.uri(d), *n)), "a set-up didOpen").await { setup_err!(e) } }
        for d in DOCS {
            let want = scn.pre.iter().find_map(|n| match *n { Note::Open(x, t) if x == d => Some(t), _ => None }).or(if d == Doc::Late { None } else { d.disk() });
            let got = analysed(&snap, &ws.uri(d)).await;
            if got.as_deref() != want { setup_err!(format!("after set-up {} is analysed with {:?}, expected {:?}", d.rel(), got, want)) }
        }
        {
            let wm = snap.workspace_manager().read().await;
            if wm.is_workspace_file(&ws.uri(Doc::Late)) || !wm.is_workspace_file(&ws.uri(Doc::Main)) { setup_err!("configuration 1 does not exclude extra/late.lua only".to_string()) }
        }
        // the config change on disk, and the two actors
        if let Err(e) = std::fs::write(ws.root.join(".emmyrc.json"), CONFIG_2) { setup_err!(format!("write .emmyrc.json: {e}")) }
        let config_2 = ws.load_config();
        let uris: Vec<(Doc, Uri)> = DOCS.iter().map(|d| (*d, ws.uri(*d))).collect();
        let show_uris = uris.clone();
        let wm_show_uris = uris.clone();
        let reload: Pin<Box<dyn Future<Output = ()>>> = Box::pin(h::verif_apply_workspace_reload(snap.clone(), ws.folders(), config_2));
        let client: Pin<Box<dyn Future<Output = ()>>> = {
            let snap = snap.clone();
            let notes: Vec<(Uri, Note)> = scn.script.iter().map(|n| { let d = match *n { Note::Open(d, _) | Note::Change(d, _) | Note::Close(d) => d }; (ws.uri(d), *n) }).collect();
            Box::pin(async move { for (uri, n) in notes { notify(snap.clone(), uri, n).await; } })
        };
        let mut actors = [Actor::new("R", reload), Actor::new("C", client)];
        let mut gates: [Box<dyn GateOps + '_>; 2] = [
            gate(snap.workspace_manager(), move |wm| {
                let mut open: Vec<String> = wm_show_uris.iter().filter(|(_, u)| wm.is_open_file(u)).map(|(d, _)| d.rel().to_string()).collect();
                open.sort();
                let files = wm.workspace_open_files();
                let mut snapshot: Vec<String> = wm_show_uris.iter().filter_map(|(d, u)| files.iter().find(|(x, _)| x == u).map(|(_, t)| format!("{}={:?}", d.rel(), t))).collect();
                snapshot.sort();
                (format!("store: open={:?} workspace-open-files=[{}]", open, snapshot.join(", ")), open)
            }),
            gate(snap.analysis(), move |an| {
                let v: Vec<String> = show_uris.iter().filter(|(d, _)| *d != Doc::Gone && *d != Doc::Idle).map(|(d, u)| format!("{}={:?}", d.rel(), analysed_in(an, u))).collect();
                (format!("analysis: {}", v.join(", ")), Vec::new())
            }),
        ];
        if !gates[0].held() || !gates[1].held() { setup_err!("the driver could not take its two gates on an idle server".to_string()) }
        let (mut progress, mut refresh) = (VecDeque::new(), 0usize);

        // -- the decision loop
        let (mut seen_by_reload, mut seen_all): (Vec<String>, bool) = (Vec::new(), false);
        let mut depth = 0usize;
        let t_exec = Instant::now();
        'decide: loop {
            if actors.iter().all(|a| a.done) { break; }
            if depth > 200 { out.status = Status::Stuck("more than 200 decisions (the version loop does not come to rest?)".to_string()); return out; }
            let first = if depth < prefix.len() { prefix[depth] } else if depth == prefix.len() { min_last } else { 0 };
            let mut waited = Duration::ZERO;
            loop {
                for alt in first..ALTS.len() {
                    let mut moved: Vec<&'static str> = Vec::new();
                    let parked_before: Vec<&'static str> = actors.iter().filter(|a| a.parked()).map(|a| a.name).collect();
                    let (asked_before, unstarted_before, an_held_before) = (!progress.is_empty(), [!actors[0].started, !actors[1].started], gates[1].held());
                    let store_before = if alt == 0 { gates[0].inspect().map(|(_, open)| open) } else { None };
                    let effective = match alt {
                        0 | 1 => {
                            if !gates[alt].held() { false } else {
                                let idle = gates[alt].cycle();
                                !idle
                            }
                        }
                        2 => { if let Some(id) = progress.pop_front() { server.answer(id).await; true } else { false } }
                        3 | 4 => { let a = &mut actors[alt - 3]; if a.started { false } else { a.advance(); moved.push(a.name); true } }
                        _ => unreachable!(),
                    };
                    if !effective {
                        if depth < prefix.len() { out.status = Status::Diverged(format!("decision {} ({}) of the schedule moves nobody in this run", depth, ALTS[alt])); return out; }
                        continue;
                    }
                    // let everything that has been woken run to its next parking place; collect the gates
                    let mut rounds = 0;
                    loop {
                        let mut progressed = false;
                        for a in actors.iter_mut() { if a.parked() && a.flag.take() { a.advance(); if !moved.contains(&a.name) { moved.push(a.name); } progressed = true; } }
                        for g in gates.iter_mut() { if g.poll_pending() { progressed = true; } }
                        server.drain(&mut progress, &mut refresh);
                        if !progressed {
                            // a lock that did not come back is held by somebody who is not one of the two actors (a task of the server): let the runtime run
                            if gates.iter().any(|g| !g.held()) && actors.iter().all(|a| !a.flag.0.load(Ordering::SeqCst)) && rounds < 2000 {
                                rounds += 1;
                                if rounds < 50 { tokio::task::yield_now().await; } else { tokio::time::sleep(Duration::from_millis(1)).await; }
                                continue;
                            }
                            break;
                        }
                    }
                    out.path.push(alt);
                    // which later alternatives of this decision point can still move somebody? (saves the DFS a run that only finds out that none does)
                    // after `wm`: `an` moves the actors that were parked and did not move now — unless that is R waiting for the client's answer
                    let an_later = alt == 0 && an_held_before && parked_before.iter().any(|n| !moved.contains(n) && !(*n == "R" && asked_before));
                    out.more.push(an_later || (alt < 2 && asked_before) || (alt < 3 && unstarted_before[0]) || (alt < 4 && unstarted_before[1]));
                    // the open documents R can have seen in a snapshot: the store after every workspace-manager scope of R
                    // (the lock is handed on in arrival order and only C writes the store: R moved first = R saw the store as it was before this cycle)
                    if alt == 0 && moved.contains(&"R") {
                        let view = if moved[0] == "R" { store_before } else { gates[0].inspect().map(|(_, open)| open) };
                        match view { Some(open) => for d in open { if !seen_by_reload.contains(&d) { seen_by_reload.push(d); } }, None => seen_all = true }
                    }
                    let label = if alt <= 1 { format!("{}->{}", ALTS[alt], if moved.is_empty() { "(a server task)".to_string() } else { moved.join("+") }) } else { ALTS[alt].to_string() };
                    if verbose {
                        println!("  step {:2} {:<12} R:{} C:{}", depth, label, state(&actors[0], !progress.is_empty()), state(&actors[1], false));
                        for g in gates.iter() { if let Some((s, _)) = g.inspect() { println!("            {s}"); } }
                    }
                    out.trace.push(label);
                    depth += 1;
                    continue 'decide;
                }
                // nothing moves anybody
                if depth < prefix.len() { out.status = Status::Diverged(format!("decision {} of the schedule: nothing to decide", depth)); return out; }
                // the alternatives below min_last have been explored (one of them did move somebody): this decision point is used up
                if depth == prefix.len() && min_last > 0 { out.status = Status::Exhausted; return out; }
                // the actors wait for something that is neither a gate nor the client: a timer or a task of the server
                if waited > Duration::from_secs(8) || t_exec.elapsed() > Duration::from_secs(40) {
                    out.status = Status::Stuck(format!("R {} / C {}: parked, and neither a lock cycle nor the client's answer moves them", state(&actors[0], false), state(&actors[1], false)));
                    return out;
                }
                tokio::time::sleep(Duration::from_millis(1)).await;
                waited += Duration::from_millis(1);
                for a in actors.iter_mut() { if a.parked() && a.flag.take() { a.advance(); } }
                for g in gates.iter_mut() { g.poll_pending(); }
                server.drain(&mut progress, &mut refresh);
            }
        }
        // -- settled: open the gates, let whatever the server still has queued run, then compare
        for g in gates.iter_mut() { g.open(); }
        drop(gates);
        for _ in 0..20 { tokio::task::yield_now().await; }
        let mut violations: Vec<Violation> = Vec::new();
        let wm_member: Vec<bool> = { let wm = snap.workspace_manager().read().await; uris.iter().map(|(_, u)| wm.is_workspace_file(u)).collect() };
        for (d, editor) in editor_model(scn) {
            if d == Doc::Gone { continue; }
            let uri = &uris.iter().find(|(x, _)| *x == d).unwrap().1;
            let got = analysed(&snap, uri).await;
            // documents that are not workspace files under the final configuration are outside both clauses
            if !wm_member[DOCS.iter().position(|x| *x == d).unwrap()] { continue; }
            match editor {
                Some(text) => if got.as_deref() != Some(text) {
                    violations.push(Violation { what: format!("open document {} is analysed with {:?}, the editor's last text is {:?}", d.rel(), got, text), known: false });
                },
                None => {
                    let disk = std::fs::read_to_string(ws.path(d)).ok();
                    if got != disk {
                        // (until fix 4bd2450 one shape of this was an open finding: ABSENT although the file exists, closed in this run, never in a
                        // snapshot of the reload — didClose decided under analysis.read and removed under analysis.write. It is fixed, hence a
                        // violation like any other should it return.)
                        let _ = (&seen_all, &seen_by_reload);
                        let known = false;
                        violations.push(Violation { what: format!("closed document {} is analysed with {:?}, {}", d.rel(), got,
                            match &disk { Some(t) => format!("its file holds {:?}", t), None => "it has no file (must be absent)".to_string() }), known });
                    }
                }
            }
        }
        server.context.close().await;
        out.status = Status::Completed(violations);
        out
    }

    fn state(a: &Actor, waits_for_client: bool) -> &'static str {
        if a.done { "done" } else if !a.started { "not started" } else if waits_for_client { "waits for the client" } else { "parked" }
    }

    fn run<T>(fut: impl Future<Output = T>) -> T {
        let rt = tokio::runtime::Builder::new_current_thread().enable_all().build().expect("runtime");
        // unconstrained: the hand-polled futures must not be parked by tokio's cooperative budget
        let r = rt.block_on(tokio::task::unconstrained(fut));
        rt.shutdown_timeout(Duration::from_millis(200));
        r
    }

    // ------------------------------------------------------------------------------------------------------------------
    // the reindex path (didSave with workspace.enableReindex): sequential, it has one known open finding
    // ------------------------------------------------------------------------------------------------------------------
    struct ReindexResult { found: Vec<String>, known_open: bool, note: String }
    async fn reindex_scenario(verbose: bool) -> Result<ReindexResult, String> {
        let ws = Workspace::create(CONFIG_REINDEX)?;
        let server = Server::new();
        let snap = server.context.snapshot();
        { snap.workspace_manager().write().await.workspace_folders = ws.folders(); }
        run_alone(&server, Box::pin(h::verif_apply_workspace_reload(snap.clone(), ws.folders(), ws.load_config())), "the initial load").await?;
        if !snap.analysis().read().await.get_emmyrc().workspace.enable_reindex { return Err("workspace.enableReindex is not on after the load".to_string()); }
        for n in [Note::Open(Doc::Main, MAIN_V1), Note::Open(Doc::Other, OTHER_ED), Note::Open(Doc::Ghost, GHOST_ED)] {
            let Note::Open(d, _) = n else { unreachable!() };
            run_alone(&server, Box::pin(notify(snap.clone(), ws.uri(d), n)), "didOpen").await?;
        }
        // other.lua (open, unsaved text) and gone.lua (closed) disappear from the disk; ghost.lua never had a file
        std::fs::remove_file(ws.path(Doc::Other)).map_err(|e| e.to_string())?;
        std::fs::remove_file(ws.path(Doc::Gone)).map_err(|e| e.to_string())?;
        let (mut progress, mut refresh) = (VecDeque::new(), 0usize);
        server.drain(&mut progress, &mut refresh);
        refresh = 0;
        let save = serde_json::from_value(json!({ "textDocument": { "uri": ws.uri(Doc::Main).as_str() } })).expect("didSave params");
        run_alone(&server, Box::pin(async { h::on_did_save_text_document(snap.clone(), save).await; }), "didSave").await?;
        // the reindex task: debounce (>= 1 s), cleanup + reindex under the analysis write lock, then it asks the client to refresh the diagnostics
        let t0 = Instant::now();
        while refresh == 0 {
            if t0.elapsed() > Duration::from_secs(20) { return Err("the reindex task did not report back (no workspace/diagnostic/refresh within 20 s of didSave)".to_string()); }
            tokio::time::sleep(Duration::from_millis(10)).await;
            server.drain(&mut progress, &mut refresh);
        }
        let note = format!("reindex task finished {} ms after didSave", t0.elapsed().as_millis());
        let mut r = ReindexResult { found: Vec::new(), known_open: false, note };
        for (d, want, open) in [(Doc::Main, Some(MAIN_V1), true), (Doc::Other, Some(OTHER_ED), true), (Doc::Ghost, Some(GHOST_ED), true), (Doc::Idle, Doc::Idle.disk(), false), (Doc::Gone, None, false)] {
            let got = analysed(&snap, &ws.uri(d)).await;
            if verbose { println!("  {}: analysed {:?}", d.rel(), got); }
            if got.as_deref() == want { continue; }
            if open && got.is_none() && !ws.path(d).exists() { r.known_open = true; continue; }
            r.found.push(if open { format!("open document {} is analysed with {:?} after the reindex, the editor's text is {:?}", d.rel(), got, want) }
                else { format!("closed document {} is analysed with {:?} after the reindex, {}", d.rel(), got, match want { Some(t) => format!("its file holds {:?}", t), None => "its file is gone (must be absent)".to_string() }) });
        }
        server.context.close().await;
        Ok(r)
    }

    // ------------------------------------------------------------------------------------------------------------------
    // the public reload entry point (WorkspaceManager::add_reload_workspace_task: reads <root>/.emmyrc.json itself, reload_lock, generation):
    // one sequential run, so that what the DFS drives through the wrapper is also seen through the door the server uses
    // ------------------------------------------------------------------------------------------------------------------
    async fn wait_refresh(server: &Server, what: &str) -> Result<(), String> {
        let (mut progress, mut refresh) = (VecDeque::new(), 0usize);
        let t0 = Instant::now();
        loop {
            server.drain(&mut progress, &mut refresh);
            while let Some(id) = progress.pop_front() { server.answer(id).await; }
            if refresh > 0 { return Ok(()); }
            if t0.elapsed() > Duration::from_secs(20) { return Err(format!("{what} did not report back (no workspace/diagnostic/refresh within 20 s)")); }
            tokio::time::sleep(Duration::from_millis(1)).await;
        }
    }
    async fn entry_scenario(verbose: bool) -> Result<Vec<String>, String> {
        let ws = Workspace::create(CONFIG_1)?;
        let server = Server::new();
        let snap = server.context.snapshot();
        { snap.workspace_manager().write().await.workspace_folders = ws.folders(); }
        { snap.workspace_manager().read().await.add_reload_workspace_task(snap.clone()); }
        wait_refresh(&server, "the first reload task").await?;
        if analysed(&snap, &ws.uri(Doc::Main)).await.as_deref() != Doc::Main.disk() || analysed(&snap, &ws.uri(Doc::Late)).await.is_some() {
            return Err("the first reload task did not load main.lua / did load the excluded extra/late.lua".to_string());
        }
        for n in [Note::Open(Doc::Main, MAIN_V1), Note::Open(Doc::Late, LATE_ED)] {
            let Note::Open(d, _) = n else { unreachable!() };
            run_alone(&server, Box::pin(notify(snap.clone(), ws.uri(d), n)), "didOpen").await?;
        }
        std::fs::write(ws.root.join(".emmyrc.json"), CONFIG_2).map_err(|e| e.to_string())?;
        { snap.workspace_manager().read().await.add_reload_workspace_task(snap.clone()); }
        wait_refresh(&server, "the reload task after the config change").await?;
        if !snap.workspace_manager().read().await.is_workspace_file(&ws.uri(Doc::Late)) { return Err("extra/late.lua is not a workspace file after the config change".to_string()); }
        let mut found = Vec::new();
        for (d, want, open) in [(Doc::Main, Some(MAIN_V1), true), (Doc::Late, Some(LATE_ED), true), (Doc::Other, Doc::Other.disk(), false), (Doc::Idle, Doc::Idle.disk(), false), (Doc::Ghost, None, false)] {
            let got = analysed(&snap, &ws.uri(d)).await;
            if verbose { println!("  {}: analysed {:?}", d.rel(), got); }
            if got.as_deref() == want { continue; }
            found.push(if open { format!("open document {} is analysed with {:?}, the editor's last text is {:?}", d.rel(), got, want.unwrap()) }
                else { format!("closed document {} is analysed with {:?}, {}", d.rel(), got, match want { Some(t) => format!("its file holds {:?}", t), None => "it has no file (must be absent)".to_string() }) });
        }
        server.context.close().await;
        Ok(found)
    }

    // ------------------------------------------------------------------------------------------------------------------
    // DFS over the schedules
    // ------------------------------------------------------------------------------------------------------------------
    fn parse_schedule(s: &str) -> Result<Vec<usize>, String> {
        s.split(',').filter(|x| !x.trim().is_empty()).map(|x| { let x = x.trim(); let x = x.split("->").next().unwrap();
            ALTS.iter().position(|a| *a == x).ok_or_else(|| format!("unknown decision {:?} (one of {:?})", x, ALTS)) }).collect()
    }
    fn show_path(p: &[usize]) -> String { p.iter().map(|a| ALTS[*a]).collect::<Vec<_>>().join(",") }

    pub fn main() {
        std::panic::set_hook(Box::new(|info| { eprintln!("  panic: {}", info.to_string().replace('\n', " ")); }));
        let args: Vec<String> = std::env::args().skip(1).collect();
        let mode = args.first().map(|s| s.as_str()).unwrap_or("search");
        let flag = |name: &str| args.iter().position(|a| a == name).and_then(|i| args.get(i + 1)).cloned();
        let verbose = args.iter().any(|a| a == "-v");
        match mode {
            "list" => { for s in SCENARIOS { println!("{:<14} {}  [{}]", s.name, s.about, s.script.iter().map(|n| n.show()).collect::<Vec<_>>().join("; ")); }
                println!("{:<14} the public entry point add_reload_workspace_task, sequential: documents opened before the reload, one joins the workspace", "entry"); println!("{:<14} didSave with workspace.enableReindex while documents are open whose file is gone", "reindex"); }
            "replay" => {
                let (Some(name), Some(sched)) = (args.get(1), args.get(2)) else { println!("usage: replay replay SCENARIO SCHEDULE"); std::process::exit(2); };
                let Some(scn) = SCENARIOS.iter().find(|s| s.name == name) else { println!("unknown scenario {name}"); std::process::exit(2); };
                let path = match parse_schedule(sched) { Ok(p) => p, Err(e) => { println!("{e}"); std::process::exit(2); } };
                println!("scenario {}: {}; client script: {}", scn.name, scn.about, scn.script.iter().map(|n| n.show()).collect::<Vec<_>>().join("; "));
                let out = run(execute(scn, &path, 0, true));
                std::process::exit(report_one(scn, &out, true));
            }
            "search" => {
                let budget = Duration::from_secs_f64(flag("--budget-s").and_then(|v| v.parse().ok()).unwrap_or(50.0));
                let max_schedules: usize = flag("--max-schedules").and_then(|v| v.parse().ok()).unwrap_or(100_000);
                let only = flag("--only");
                std::process::exit(search(budget, max_schedules, only.as_deref(), verbose));
            }
            _ => { println!("usage: replay search [--budget-s N] [--max-schedules N] [--only SCENARIO] [-v] | replay replay SCENARIO SCHEDULE | replay list"); std::process::exit(2); }
        }
    }

    /// prints the verdict of one execution; returns the exit code it stands for
    fn report_one(scn: &Scenario, out: &Outcome, full: bool) -> i32 {
        let client = || scn.script.iter().map(|n| n.show()).collect::<Vec<_>>().join("; ");
        match &out.status {
            Status::Completed(v) if v.is_empty() => { if full { println!("settled: every open workspace document is analysed with the editor's text, every closed one reflects the disk"); } 0 }
            Status::Completed(v) => {
                for x in v {
                    if x.known { println!("KNOWN-OPEN {}: {} scenario={} client=[{}] schedule={} ({})", KNOWN_CLOSE, x.what, scn.name, client(), show_path(&out.path), out.trace.join(" ")); }
                    else { println!("FOUND {} scenario={} client=[{}] schedule={} ({})", x.what, scn.name, client(), show_path(&out.path), out.trace.join(" ")); }
                }
                if v.iter().any(|x| !x.known) { 1 } else { 0 }
            }
            Status::Exhausted => { println!("schedule {}: no such decision here", show_path(&out.path)); 2 }
            Status::Stuck(e) => { println!("STUCK scenario={} schedule={} ({}): {}", scn.name, show_path(&out.path), out.trace.join(" "), e); 2 }
            Status::Diverged(e) => { println!("DIVERGED scenario={} schedule={}: {}", scn.name, show_path(&out.path), e); 2 }
            Status::Setup(e) => { println!("SETUP-FAILED scenario={}: {}", scn.name, e); 2 }
        }
    }

    fn search(budget: Duration, max_schedules: usize, only: Option<&str>, verbose: bool) -> i32 {
        let t0 = Instant::now();
        let (mut found, mut undecided, mut known) = (0usize, 0usize, 0usize);
        let scns: Vec<&Scenario> = SCENARIOS.iter().filter(|s| only.map_or(true, |o| o == s.name)).collect();
        let mut total = 0usize;
        for (k, scn) in scns.iter().enumerate() {
            // a scenario may use what is left of the budget, less 2 s for each scenario still to come
            let share = budget.saturating_sub(t0.elapsed()).saturating_sub(Duration::from_secs(2 * (scns.len() - k - 1) as u64)).max(Duration::from_secs(2));
            let t_s = Instant::now();
            let (mut prefix, mut min_last): (Vec<usize>, usize) = (Vec::new(), 0);
            let (mut schedules, mut runs, mut longest, mut known_here) = (0usize, 0usize, 0usize, 0usize);
            let mut truncated = false;
            let mut first_bad: Option<Outcome> = None;
            let mut stuck_reported = false;
            let mut starts: Vec<(usize, &'static str)> = Vec::new();
            'dfs: loop {
                if t_s.elapsed() > share || schedules >= max_schedules { truncated = true; break; }
                let out = run(execute(scn, &prefix, min_last, false));
                runs += 1;
                match &out.status {
                    // the decision point at the end of the prefix is used up: go back one decision
                    Status::Exhausted => { match prefix.pop() { Some(last) => { min_last = last + 1; continue; } None => break } }
                    Status::Setup(_) | Status::Diverged(_) => { report_one(scn, &out, false); undecided += 1; break; }
                    Status::Stuck(_) => { if !stuck_reported { report_one(scn, &out, false); undecided += 1; stuck_reported = true; } }
                    Status::Completed(_) => {}
                }
                schedules += 1;
                longest = longest.max(out.path.len());
                if let Some(i) = out.trace.iter().position(|l| l == "startC") {
                    let of_reload = |l: &String| l == "startR" || l == "answer" || l.split("->").nth(1).is_some_and(|m| m.split('+').any(|x| x == "R"));
                    let done = out.trace[..i].iter().filter(|l| of_reload(l)).count();
                    let next = out.trace[i..].iter().find(|l| of_reload(l)).map(|l| match l.split("->").next().unwrap() { "startR" => "not started", "wm" => "queued on workspace_manager", "an" => "queued on analysis", _ => "waits for the client" }).unwrap_or("finished");
                    let e = (done, next);
                    if !starts.contains(&e) { starts.push(e); }
                }
                if verbose { println!("  {} {}", scn.name, out.trace.join(" ")); }
                if let Status::Completed(v) = &out.status {
                    // one violating schedule per scenario is enough (DFS order: the reload runs as far as it can before the client starts)
                    if v.iter().any(|x| !x.known) { first_bad = Some(out); break; }
                    if !v.is_empty() { if known_here == 0 || verbose { report_one(scn, &out, false); } known_here += 1; }
                }
                // the next schedule: the deepest decision of this one that may have another alternative
                let (mut path, mut more) = (out.path, out.more);
                loop {
                    let (Some(last), Some(m)) = (path.pop(), more.pop()) else { break 'dfs };
                    if m { min_last = last + 1; prefix = path; break; }
                }
            }
            total += schedules;
            if known_here > 0 { known += 1; }
            if verbose || k == 0 {
                starts.sort();
                println!("  the client's first notification arrives when the reload has done n lock scopes / answers and is ...: {}", starts.iter().map(|(n, w)| format!("{n}: {w}")).collect::<Vec<_>>().join("; "));
            }
            if let Some(out) = &first_bad {
                found += 1;
                report_one(scn, out, false);
                println!("  replay: cargo run --offline -q --bin replay -- replay {} {}", scn.name, show_path(&out.path));
            }
            println!("scenario {:<14} {:>5} schedules ({} runs, longest {} decisions, {:.1} s){}{}{}  -- {}", scn.name, schedules, runs, longest, t_s.elapsed().as_secs_f64(),
                if truncated { " BOUND: budget reached, not all schedules tried" } else if first_bad.is_some() { " stopped at the first violation" } else { " = all schedules of the DFS" },
                if first_bad.is_some() { " VIOLATION" } else { "" }, if known_here > 0 { format!(" ({known_here} schedules show the KNOWN-OPEN finding)") } else { String::new() }, scn.about);
        }
        if only.is_none() || only == Some("entry") {
            let t_r = Instant::now();
            match run(entry_scenario(verbose)) {
                Err(e) => { println!("SETUP-FAILED scenario=entry: {e}"); undecided += 1; }
                Ok(v) => {
                    for what in &v { println!("FOUND {} scenario=entry client=[didOpen(main.lua, unsaved); didOpen(extra/late.lua, unsaved) while it is no workspace file; .emmyrc.json changes; add_reload_workspace_task] schedule=sequential", what); }
                    if !v.is_empty() { found += 1; }
                    println!("scenario {:<14} sequential ({:.1} s){}  -- the same through WorkspaceManager::add_reload_workspace_task (reads .emmyrc.json itself): open before the reload, one of them joins the workspace",
                        "entry", t_r.elapsed().as_secs_f64(), if v.is_empty() { "" } else { " VIOLATION" });
                }
            }
        }
        if only.is_none() || only == Some("reindex") {
            let t_r = Instant::now();
            match run(reindex_scenario(verbose)) {
                Err(e) => { println!("SETUP-FAILED scenario=reindex: {e}"); undecided += 1; }
                Ok(r) => {
                    for what in &r.found { println!("FOUND {} scenario=reindex client=[didOpen x3 with unsaved text; other.lua and gone.lua deleted on disk; didSave(main.lua)] schedule=sequential", what); }
                    if !r.found.is_empty() { found += 1; }
                    if r.known_open { println!("KNOWN-OPEN reindex drops an open document whose file is gone"); known += 1; }
                    println!("scenario {:<14} sequential ({}; {:.1} s){}", "reindex", r.note, t_r.elapsed().as_secs_f64(), if r.known_open { "" } else { "  -- the open documents whose file is gone kept their editor text" });
                }
            }
        }
        println!("C29 search: {} schedules on the real handlers + reload, {:.1} s, {} scenario(s) with a violation, {} with a known open finding only, {} not set up / stuck", total, t0.elapsed().as_secs_f64(), found, known, undecided);
        let _ = std::fs::remove_dir(ws_base());
        if found > 0 { 1 } else if undecided > 0 { 2 } else { 0 }
    }

}
