//! Looks at what the guarded hook `emmylua_ls::verif_hooks` of the tree under test re-exports and turns what this driver needs into
//! cfgs (`hook_<name>`), so that the crate builds against a tree without the proposed add-only lines (proposed_hook_reexports.diff) —
//! `replay search` then exits 2, "scenario cannot be set up" — and picks them up as soon as they are in the tree.
use std::path::PathBuf;

fn main() {
    let manifest_dir = PathBuf::from(std::env::var("CARGO_MANIFEST_DIR").expect("manifest dir"));
    let manifest = std::fs::read_to_string(manifest_dir.join("Cargo.toml")).expect("Cargo.toml");
    // emmylua_ls = { path = "<dir>" }
    let ls_dir = manifest.lines().find(|l| l.trim_start().starts_with("emmylua_ls")).and_then(|l| l.split("path").nth(1))
        .and_then(|r| r.split('"').nth(1)).map(PathBuf::from).expect("path of the emmylua_ls dependency");
    let mod_rs = ls_dir.join("src").join("handlers").join("mod.rs");
    println!("cargo:rerun-if-changed={}", mod_rs.display());
    println!("cargo:rerun-if-changed=Cargo.toml");
    let text = std::fs::read_to_string(&mod_rs).unwrap_or_default();
    let hooks = text.split("pub mod verif_hooks").nth(1).unwrap_or("");
    let hooks = &hooks[..hooks.find("\n}").unwrap_or(hooks.len())];
    let exported = |name: &str| hooks.split(|c: char| !(c.is_alphanumeric() || c == '_')).any(|w| w == name);
    for (cfg, symbol) in [("hook_context", "ServerContext"), ("hook_open", "on_did_open_text_document"), ("hook_change", "on_did_change_text_document"),
        ("hook_close", "on_did_close_document"), ("hook_save", "on_did_save_text_document"), ("hook_reload", "verif_apply_workspace_reload")] {
        println!("cargo:rustc-check-cfg=cfg({cfg})");
        if exported(symbol) { println!("cargo:rustc-cfg={cfg}"); }
    }
    println!("cargo:rustc-env=C29_LS_DIR={}", ls_dir.display());
}
