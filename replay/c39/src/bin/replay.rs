//! C39 replay / bounded search: `luafmt --write` under injected write failures and crashes, on the REAL binary.
//!
//! The driver builds `luafmt` from the checkout named in Cargo.toml (`[package.metadata.c39] repo`, overridden by $C39_REPO),
//! writes unformatted Lua files into a scratch directory and runs `luafmt --write` on them in a list of scenarios:
//!   * RLIMIT_FSIZE (`ulimit -f N`, 512-byte blocks in sh) with the default action of SIGXFSZ: the kernel KILLS luafmt inside
//!     write(2) = a crash point; with SIGXFSZ ignored (`trap '' XFSZ` is inherited across exec, as under Python parents such as
//!     pre-commit): write(2) returns EFBIG = a write failure; limit 0: the first write fails;
//!   * file sizes: tiny (fits under every limit used), small (formatted text below 8 KiB = the capacity of a BufWriter, above the
//!     limit), big (far above the limit); one file and several mixed files in one run;
//!   * a target with a second hard link, a target reached through a symlink, a target in a read-only directory,
//!     a target that is a bind-mounted file on a nearly full tmpfs (`unshare -rm`; skipped with `NOT COVERED` when namespaces
//!     are not permitted).
//! After each run
//!   (a) every watched name must hold its complete ORIGINAL content or its complete FORMATTED content (what the same binary prints
//!       for the file without a limit): anything else (empty, cut off) is `FOUND ... left <what>`;
//!   (b) a run after which some target does NOT hold its formatted content must have ended with a non-zero status (or a signal),
//!       and, when it exited by itself, with a message on stderr: otherwise `FOUND ... not reported`.
//! Any FOUND line => exit 1. The driver decides nothing about the proof; it is the bounded fallback when unit c39_write is undecided
//! and the witness search for a failed obligation C39.write.original-or-formatted-at-every-point.
use std::collections::HashMap;
use std::fs;
use std::os::unix::fs::PermissionsExt;
use std::os::unix::process::ExitStatusExt;
use std::path::{Path, PathBuf};
use std::process::{Command, Stdio, exit};

const TINY: usize = 5; // ~110 bytes formatted: fits under `ulimit -f 1` (512 bytes)
const SMALL: usize = 250; // ~5 KiB formatted: below BufWriter's 8 KiB, above every limit used
const BIG: usize = 2000; // ~43 KiB formatted
const BIND: usize = 1500; // ~26 KiB -> ~32 KiB: the formatted text needs more tmpfs pages than the original

fn repo_dir() -> PathBuf {
    if let Ok(r) = std::env::var("C39_REPO") {
        return PathBuf::from(r);
    }
    let manifest = fs::read_to_string(concat!(env!("CARGO_MANIFEST_DIR"), "/Cargo.toml")).expect("own Cargo.toml");
    for line in manifest.lines() {
        if let Some(rest) = line.trim().strip_prefix("repo = \"") {
            return PathBuf::from(rest.trim_end_matches('"'));
        }
    }
    PathBuf::from("/repo")
}

fn target_dir() -> PathBuf {
    PathBuf::from(std::env::var("CARGO_TARGET_DIR").unwrap_or_else(|_| "/verif/build/replay-target".to_string()))
}

fn build_luafmt(repo: &Path) -> PathBuf {
    let target = target_dir();
    let out = Command::new("cargo")
        .args(["build", "--offline", "-j", "6", "-p", "emmylua_formatter", "--bin", "luafmt"])
        .current_dir(repo)
        .env("CARGO_NET_OFFLINE", "true")
        .env("CARGO_TARGET_DIR", &target)
        .env_remove("RUSTFLAGS")
        .output()
        .expect("cargo");
    if !out.status.success() {
        eprintln!("UNDECIDED cannot build luafmt from {}:\n{}", repo.display(), String::from_utf8_lossy(&out.stderr));
        exit(2);
    }
    target.join("debug").join("luafmt")
}

/// `n` statements that the formatter has to change (spaces around `=` and `+`)
fn unformatted(n: usize) -> String {
    let mut s = String::new();
    for i in 0..n {
        s.push_str(&format!("local v{i}={i}+1\n"));
    }
    s
}

struct Outcome {
    ok: bool,           // exit status 0
    signalled: bool,    // killed by a signal
    status: String,
    stderr: String,
}

/// one name whose content is inspected after the run
struct Watch {
    label: String,
    path: PathBuf,
    n: usize,
    /// named on the command line (must end up formatted unless the run reports a failure); false: another name of a target
    /// (second hard link) that only has to stay complete
    is_target: bool,
}

struct Ctx {
    luafmt: PathBuf,
    scratch: PathBuf,
    fmt_cache: HashMap<usize, Vec<u8>>,
    found: usize,
    skipped: usize,
    mode: String,
}

impl Ctx {
    fn wants(&self, name: &str) -> bool {
        self.mode == "all" || name.starts_with(&self.mode)
    }

    /// the reference "complete formatted content": what the same binary prints without any limit
    fn formatted(&mut self, n: usize) -> Vec<u8> {
        if let Some(f) = self.fmt_cache.get(&n) {
            return f.clone();
        }
        let p = self.scratch.join(format!("ref_{n}.lua"));
        fs::write(&p, unformatted(n)).unwrap();
        let out = Command::new(&self.luafmt).arg(&p).stdin(Stdio::null()).output().expect("run luafmt");
        assert!(out.status.success(), "luafmt <file> failed: {}", String::from_utf8_lossy(&out.stderr));
        assert!(out.stdout != unformatted(n).as_bytes(), "the generated input must need formatting");
        let _ = fs::remove_file(&p);
        self.fmt_cache.insert(n, out.stdout.clone());
        out.stdout
    }

    fn dir(&self, name: &str) -> PathBuf {
        let d = self.scratch.join(name);
        fs::create_dir_all(&d).unwrap();
        d
    }

    /// `sh -c '<prelude>[ulimit -f <blocks>;] exec <wrapper> luafmt --write <files>'` in `dir`
    fn run(&self, dir: &Path, prelude: &str, blocks: Option<u32>, wrapper: &str, files: &[&str]) -> (String, Outcome) {
        let limit = blocks.map(|b| format!("ulimit -f {b}; ")).unwrap_or_default();
        let script = format!("{prelude}{limit}exec {wrapper}\"$0\" --write \"$@\"");
        let out = Command::new("sh")
            .arg("-c")
            .arg(&script)
            .arg(&self.luafmt)
            .args(files)
            .current_dir(dir)
            .stdin(Stdio::null())
            .output()
            .expect("sh");
        let shown = format!("{prelude}{limit}{wrapper}luafmt --write {}", files.join(" "));
        (shown, outcome(out.status, &out.stderr))
    }

    /// checks (a) and (b) of the module comment
    fn check(&mut self, name: &str, shown: &str, out: &Outcome, watches: &[Watch]) {
        println!("[{name}] sh -c '{shown}'  ->  {}", out.status);
        if !out.stderr.is_empty() {
            println!("[{name}]   stderr: {}", out.stderr.replace('\n', " | "));
        }
        let mut unformatted_targets = Vec::new();
        for w in watches {
            let orig = unformatted(w.n).into_bytes();
            let fmt = self.formatted(w.n);
            let now = fs::read(&w.path).unwrap_or_default();
            let (ok, what) = describe(&now, &orig, &fmt);
            if ok {
                println!("[{name}]   {}: {what}", w.label);
            } else {
                println!("FOUND [{name}] {} is left {what} after `{shown}` ({})", w.label, out.status);
                self.found += 1;
            }
            if w.is_target && now != fmt {
                unformatted_targets.push(w.label.clone());
            }
        }
        if !unformatted_targets.is_empty() {
            if out.ok {
                println!(
                    "FOUND [{name}] not reported: {} not formatted, yet `{shown}` ended with exit status 0",
                    unformatted_targets.join(", ")
                );
                self.found += 1;
            } else if !out.signalled && out.stderr.is_empty() {
                println!(
                    "FOUND [{name}] not reported: {} not formatted, `{shown}` ended with {} but printed no message",
                    unformatted_targets.join(", "),
                    out.status
                );
                self.found += 1;
            }
        }
    }

    fn note_extras(&self, name: &str, dir: &Path, expected: &[&str]) {
        if let Ok(rd) = fs::read_dir(dir) {
            for e in rd.flatten() {
                let n = e.file_name().to_string_lossy().to_string();
                if !expected.contains(&n.as_str()) {
                    println!("[{name}]   note: extra entry left in the directory: {n}");
                }
            }
        }
    }

    fn not_covered(&mut self, what: &str, why: &str) {
        println!("NOT COVERED {what}: {why}");
        self.skipped += 1;
    }
}

fn outcome(status: std::process::ExitStatus, stderr: &[u8]) -> Outcome {
    Outcome {
        ok: status.success(),
        signalled: status.signal().is_some(),
        status: format!("{status}"),
        stderr: String::from_utf8_lossy(stderr).trim().to_string(),
    }
}

fn describe(now: &[u8], orig: &[u8], fmt: &[u8]) -> (bool, String) {
    if now == orig {
        (true, "complete ORIGINAL".to_string())
    } else if now == fmt {
        (true, "complete FORMATTED".to_string())
    } else if now.is_empty() {
        (false, format!("EMPTY (original {} bytes, formatted {} bytes)", orig.len(), fmt.len()))
    } else if fmt.starts_with(now) {
        (
            false,
            format!(
                "TRUNCATED: a {}-byte proper prefix of the {}-byte formatted text (original {} bytes is gone)",
                now.len(),
                fmt.len(),
                orig.len()
            ),
        )
    } else {
        (false, format!("NEITHER original nor formatted ({} bytes)", now.len()))
    }
}

fn write_file(dir: &Path, rel: &str, n: usize) -> PathBuf {
    let p = dir.join(rel);
    if let Some(parent) = p.parent() {
        fs::create_dir_all(parent).unwrap();
    }
    fs::write(&p, unformatted(n)).unwrap();
    p
}

fn watch(dir: &Path, rel: &str, n: usize, is_target: bool) -> Watch {
    Watch { label: rel.to_string(), path: dir.join(rel), n, is_target }
}

const XFSZ_IGNORED: &str = "trap '' XFSZ; ";

/// plain files under a limit: (scenario name, SIGXFSZ ignored?, ulimit blocks, files)
fn plain_scenarios() -> Vec<(&'static str, bool, Option<u32>, Vec<(&'static str, usize)>)> {
    vec![
        // nothing injected: everything must simply be formatted (checks the driver's own reference, too)
        ("control", false, None, vec![("a_tiny.lua", TINY), ("b_small.lua", SMALL), ("c_big.lua", BIG)]),
        ("sigxfsz-big", false, Some(8), vec![("big.lua", BIG)]),
        ("sigxfsz-small", false, Some(1), vec![("small.lua", SMALL)]),
        ("efbig-big", true, Some(8), vec![("big.lua", BIG)]),
        ("efbig-small", true, Some(1), vec![("small.lua", SMALL)]),
        ("zero-sigxfsz", false, Some(0), vec![("a_small.lua", SMALL), ("b_big.lua", BIG)]),
        ("zero-efbig", true, Some(0), vec![("a_small.lua", SMALL), ("b_big.lua", BIG)]),
        (
            "mixed-efbig",
            true,
            Some(1),
            vec![("a_tiny.lua", TINY), ("b_small.lua", SMALL), ("c_big.lua", BIG), ("d_tiny.lua", TINY), ("e_small.lua", SMALL)],
        ),
        (
            "mixed-efbig-4k",
            true,
            Some(8),
            vec![("a_tiny.lua", TINY), ("b_small.lua", SMALL), ("c_big.lua", BIG), ("d_tiny.lua", TINY), ("e_small.lua", SMALL)],
        ),
        ("mixed-sigxfsz", false, Some(1), vec![("a_tiny.lua", TINY), ("b_small.lua", SMALL), ("c_big.lua", BIG), ("d_tiny.lua", TINY)]),
    ]
}

fn run_plain(cx: &mut Ctx) {
    for (name, ignore, blocks, files) in plain_scenarios() {
        if !cx.wants(name) {
            continue;
        }
        let dir = cx.dir(name);
        let mut watches = Vec::new();
        for (f, n) in &files {
            write_file(&dir, f, *n);
            watches.push(watch(&dir, f, *n, true));
        }
        let names: Vec<&str> = files.iter().map(|(f, _)| *f).collect();
        let (shown, out) = cx.run(&dir, if ignore { XFSZ_IGNORED } else { "" }, blocks, "", &names);
        cx.check(name, &shown, &out, &watches);
        cx.note_extras(name, &dir, &names);
    }
}

/// a target that has a second hard link: BOTH names must hold complete content (the other name may keep the original)
fn run_hardlink(cx: &mut Ctx) {
    for (name, ignore, blocks, n) in [
        ("hardlink-sigxfsz", false, Some(1), SMALL),
        ("hardlink-efbig", true, Some(1), SMALL),
        ("hardlink-efbig-big", true, Some(8), BIG),
        ("hardlink-control", false, None, SMALL),
    ] {
        if !cx.wants(name) {
            continue;
        }
        let dir = cx.dir(name);
        let a = write_file(&dir, "a.lua", n);
        if let Err(e) = fs::hard_link(&a, dir.join("b_link.lua")) {
            cx.not_covered("hard-linked target", &format!("ln a.lua b_link.lua failed: {e}"));
            return;
        }
        let watches = vec![watch(&dir, "a.lua", n, true), watch(&dir, "b_link.lua", n, false)];
        let (shown, out) = cx.run(&dir, if ignore { XFSZ_IGNORED } else { "" }, blocks, "", &["a.lua"]);
        cx.check(name, &format!("ln a.lua b_link.lua; {shown}"), &out, &watches);
        cx.note_extras(name, &dir, &["a.lua", "b_link.lua"]);
    }
}

/// a target named through a symlink: the file behind the link must stay complete, read through either name
fn run_symlink(cx: &mut Ctx) {
    for (name, ignore, blocks) in [("symlink-efbig", true, Some(1)), ("symlink-sigxfsz", false, Some(1)), ("symlink-control", false, None)] {
        if !cx.wants(name) {
            continue;
        }
        let dir = cx.dir(name);
        write_file(&dir, "real/a.lua", SMALL);
        if let Err(e) = std::os::unix::fs::symlink("real/a.lua", dir.join("link.lua")) {
            cx.not_covered("symlinked target", &format!("ln -s failed: {e}"));
            return;
        }
        let watches = vec![watch(&dir, "link.lua", SMALL, true), watch(&dir, "real/a.lua", SMALL, false)];
        let (shown, out) = cx.run(&dir, if ignore { XFSZ_IGNORED } else { "" }, blocks, "", &["link.lua"]);
        cx.check(name, &format!("ln -s real/a.lua link.lua; {shown}"), &out, &watches);
        let still_link = fs::symlink_metadata(dir.join("link.lua")).map(|m| m.file_type().is_symlink()).unwrap_or(false);
        if !still_link {
            println!("[{name}]   note: link.lua is no longer a symlink");
        }
        cx.note_extras(name, &dir.join("real"), &["a.lua"]);
    }
}

/// a target in a directory without write permission: no temp file can be created next to it; an error must be reported and the
/// original must stay (or the file is rewritten completely). Root ignores permission bits: then luafmt runs as uid 65534.
fn run_readonly_dir(cx: &mut Ctx) {
    let name = "readonly-dir";
    if !cx.wants(name) {
        return;
    }
    let dir = cx.dir(name);
    let ro = dir.join("ro");
    fs::create_dir_all(&ro).unwrap();
    write_file(&ro, "a.lua", SMALL);
    let is_root = Command::new("id").arg("-u").output().map(|o| String::from_utf8_lossy(&o.stdout).trim() == "0").unwrap_or(false);
    let mut wrapper = String::new();
    if is_root {
        // hand the file and the directory to uid 65534 and run luafmt as that user
        let _ = std::os::unix::fs::chown(&ro, Some(65534), Some(65534));
        let _ = std::os::unix::fs::chown(ro.join("a.lua"), Some(65534), Some(65534));
        wrapper = "setpriv --reuid=65534 --regid=65534 --clear-groups ".to_string();
    }
    fs::set_permissions(&ro, fs::Permissions::from_mode(0o555)).unwrap();
    // can the (unprivileged) user run the binary and read the file at all?
    let probe = Command::new("sh")
        .arg("-c")
        .arg(format!("exec {wrapper}\"$0\" --check ro/a.lua"))
        .arg(&cx.luafmt)
        .current_dir(&dir)
        .stdin(Stdio::null())
        .output();
    let usable = matches!(&probe, Ok(o) if o.status.code() == Some(1));
    let writable = Command::new("sh")
        .arg("-c")
        .arg(format!("exec {wrapper}sh -c 'touch ro/probe 2>/dev/null'"))
        .current_dir(&dir)
        .status()
        .map(|s| s.success())
        .unwrap_or(true);
    if !usable || writable {
        let _ = fs::set_permissions(&ro, fs::Permissions::from_mode(0o755));
        cx.not_covered(
            "read-only directory",
            if !usable { "luafmt cannot be run as uid 65534 here (setpriv missing or paths not accessible)" } else { "the directory stays writable for this user" },
        );
        return;
    }
    let watches = vec![watch(&dir, "ro/a.lua", SMALL, true)];
    let (shown, out) = cx.run(&dir, "", None, &wrapper, &["ro/a.lua"]);
    cx.check(name, &format!("chmod 555 ro; {shown}"), &out, &watches);
    let _ = fs::set_permissions(&ro, fs::Permissions::from_mode(0o755));
    cx.note_extras(name, &ro, &["a.lua"]);
}

/// a target that is itself a mount point (a file bind-mounted onto itself, as with `docker -v file:file`): rename(2) over it fails
/// with EBUSY. The tmpfs holds exactly the original plus one copy of the formatted text: a fallback that copies the temp file over
/// the target (truncate + copy) runs out of space after the truncation. Needs user + mount namespaces (`unshare -rm`).
fn run_bind_mount(cx: &mut Ctx) {
    let name = "bind-mounted";
    if !cx.wants(name) {
        return;
    }
    let dir = cx.dir(name);
    write_file(&dir, "a.lua", BIND);
    let orig_len = unformatted(BIND).len();
    let fmt_len = cx.formatted(BIND).len();
    let pages = |n: usize| n.div_ceil(4096);
    if pages(fmt_len) <= pages(orig_len) {
        cx.not_covered("bind-mounted target", "the formatted text does not need more pages than the original");
        return;
    }
    let size_k = (pages(orig_len) + pages(fmt_len)) * 4;
    let script = r#"
        mkdir -p mnt || exit 90
        mount -t tmpfs -o size=${1}k tmpfs mnt || exit 91
        cp a.lua mnt/a.lua || exit 92
        mount --bind mnt/a.lua mnt/a.lua || exit 93
        "$0" --write mnt/a.lua 2> stderr.txt
        echo $? > status.txt
        cp mnt/a.lua result.lua
        ls -A mnt > listing.txt
        exit 0
    "#;
    let out = Command::new("unshare")
        .args(["-rm", "sh", "-c", script])
        .arg(&cx.luafmt)
        .arg(size_k.to_string())
        .current_dir(&dir)
        .stdin(Stdio::null())
        .output();
    let status_txt = fs::read_to_string(dir.join("status.txt")).ok();
    let (Ok(out), Some(status_txt)) = (out, status_txt) else {
        cx.not_covered("bind-mounted target", "unshare(1) cannot be run here");
        return;
    };
    if !out.status.success() {
        cx.not_covered(
            "bind-mounted target",
            &format!("`unshare -rm` / mount is not permitted in this sandbox ({}; {})", out.status, String::from_utf8_lossy(&out.stderr).trim()),
        );
        return;
    }
    let code: i32 = status_txt.trim().parse().unwrap_or(-1);
    let stderr = fs::read_to_string(dir.join("stderr.txt")).unwrap_or_default();
    let oc = Outcome {
        ok: code == 0,
        signalled: code > 128,
        status: format!("exit status: {code}"),
        stderr: stderr.trim().to_string(),
    };
    let watches = vec![Watch { label: "mnt/a.lua".to_string(), path: dir.join("result.lua"), n: BIND, is_target: true }];
    let shown = format!("unshare -rm: tmpfs size={size_k}k on mnt; mount --bind mnt/a.lua mnt/a.lua; luafmt --write mnt/a.lua");
    cx.check(name, &shown, &oc, &watches);
    if let Ok(l) = fs::read_to_string(dir.join("listing.txt")) {
        for n in l.lines().filter(|n| *n != "a.lua") {
            println!("[{name}]   note: extra entry left in the directory: {n}");
        }
    }
}

fn main() {
    let mode = std::env::args().nth(1).unwrap_or_else(|| "all".to_string());
    let repo = repo_dir();
    let luafmt = build_luafmt(&repo);
    println!("luafmt built from {} -> {}", repo.display(), luafmt.display());
    let scratch = target_dir().join(format!("c39-scratch-{}", std::process::id()));
    let _ = fs::remove_dir_all(&scratch);
    fs::create_dir_all(&scratch).expect("scratch dir");
    let mut cx = Ctx { luafmt, scratch: scratch.clone(), fmt_cache: HashMap::new(), found: 0, skipped: 0, mode };

    run_plain(&mut cx);
    run_hardlink(&mut cx);
    run_symlink(&mut cx);
    run_readonly_dir(&mut cx);
    run_bind_mount(&mut cx);

    let _ = fs::remove_dir_all(&scratch);
    if cx.found > 0 {
        println!(
            "C39 violated on the running binary: {} finding(s): a target holds neither its original nor its formatted content, or a failed rewrite was not reported",
            cx.found
        );
        exit(1);
    }
    println!(
        "OK every target holds its complete original or its complete formatted content and every failed rewrite was reported ({} scenario group(s) not covered)",
        cx.skipped
    );
}
