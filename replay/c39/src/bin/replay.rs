//! C39 replay: `luafmt --write` under a file-size limit, on the REAL binary.
//!
//! The driver builds `luafmt` from the checkout named in Cargo.toml (`[package.metadata.c39] repo`, overridden by $C39_REPO),
//! writes unformatted Lua files into a scratch directory and runs `luafmt --write` on them under `ulimit -f`:
//!   sigxfsz   RLIMIT_FSIZE with the default action of SIGXFSZ: the kernel KILLS luafmt inside write(2) = a crash point
//!   efbig     the same limit with SIGXFSZ ignored (`trap '' XFSZ` is inherited across exec): write(2) returns EFBIG = a write failure
//!   zero      limit 0: the process dies on its first write, right after open(O_TRUNC)
//!   two       two files, the first fits under the limit, the second does not (the run "over several files")
//! After each run every target file must hold its complete ORIGINAL content or its complete FORMATTED content (what the same
//! binary prints for the file without a limit). Anything else (empty, cut off) prints `FOUND ...` and the driver exits 1.
//! The driver decides nothing about the proof; it shows the failed obligation C39.write.original-or-formatted-at-every-point
//! on the running program.
use std::fs;
use std::path::{Path, PathBuf};
use std::process::{Command, Stdio, exit};

fn repo_dir() -> PathBuf {
    if let Ok(r) = std::env::var("C39_REPO") {
        return PathBuf::from(r);
    }
    let manifest = fs::read_to_string(concat!(env!("CARGO_MANIFEST_DIR"), "/Cargo.toml")).expect("own Cargo.toml");
    for line in manifest.lines() {
        let line = line.trim();
        if let Some(rest) = line.strip_prefix("repo = \"") {
            return PathBuf::from(rest.trim_end_matches('"'));
        }
    }
    PathBuf::from("/repo")
}

fn target_dir() -> PathBuf {
    PathBuf::from(std::env::var("CARGO_TARGET_DIR").unwrap_or_else(|_| "/verif/build/replay-target".to_string()))
}

fn build_luafmt(repo: &Path) -> PathBuf {
    let target = target_dir();
    let out = Command::new("cargo")
        .args(["build", "--offline", "-j", "6", "-p", "emmylua_formatter", "--bin", "luafmt"])
        .current_dir(repo)
        .env("CARGO_NET_OFFLINE", "true")
        .env("CARGO_TARGET_DIR", &target)
        .env_remove("RUSTFLAGS")
        .output()
        .expect("cargo");
    if !out.status.success() {
        eprintln!("UNDECIDED cannot build luafmt from {}:\n{}", repo.display(), String::from_utf8_lossy(&out.stderr));
        exit(2);
    }
    target.join("debug").join("luafmt")
}

/// `n` statements that the formatter has to change (spaces around `=` and `+`)
fn unformatted(n: usize) -> String {
    let mut s = String::new();
    for i in 0..n {
        s.push_str(&format!("local v{i}={i}+1\n"));
    }
    s
}

fn formatted_by(luafmt: &Path, file: &Path) -> Vec<u8> {
    // no limit, result on stdout: the reference "complete formatted content"
    let out = Command::new(luafmt).arg(file).stdin(Stdio::null()).output().expect("run luafmt");
    assert!(out.status.success(), "luafmt <file> failed: {}", String::from_utf8_lossy(&out.stderr));
    out.stdout
}

struct Outcome {
    status: String,
    stderr: String,
}

/// `sh -c '<prelude>; ulimit -f <blocks>; exec luafmt --write <files>'`
fn run_limited(luafmt: &Path, dir: &Path, prelude: &str, blocks: u32, files: &[&str]) -> Outcome {
    let script = format!("{prelude}ulimit -f {blocks}; exec \"$0\" --write \"$@\"");
    let out = Command::new("sh")
        .arg("-c")
        .arg(&script)
        .arg(luafmt)
        .args(files)
        .current_dir(dir)
        .stdin(Stdio::null())
        .output()
        .expect("sh");
    Outcome { status: format!("{}", out.status), stderr: String::from_utf8_lossy(&out.stderr).trim().to_string() }
}

fn describe(now: &[u8], orig: &[u8], fmt: &[u8]) -> (bool, String) {
    if now == orig {
        (true, "complete ORIGINAL".to_string())
    } else if now == fmt {
        (true, "complete FORMATTED".to_string())
    } else if now.is_empty() {
        (false, format!("EMPTY (original {} bytes, formatted {} bytes)", orig.len(), fmt.len()))
    } else if fmt.starts_with(now) {
        (false, format!("TRUNCATED: a {}-byte proper prefix of the {}-byte formatted text (original {} bytes is gone)", now.len(), fmt.len(), orig.len()))
    } else {
        (false, format!("NEITHER original nor formatted ({} bytes)", now.len()))
    }
}

fn main() {
    let mode = std::env::args().nth(1).unwrap_or_else(|| "all".to_string());
    let repo = repo_dir();
    let luafmt = build_luafmt(&repo);
    println!("luafmt built from {} -> {}", repo.display(), luafmt.display());
    let scratch = target_dir().join(format!("c39-scratch-{}", std::process::id()));
    let _ = fs::remove_dir_all(&scratch);
    fs::create_dir_all(&scratch).expect("scratch dir");

    // (name of the experiment, shell prelude, ulimit -f blocks, files: (name, number of statements))
    // `ulimit -f` counts 512-byte blocks in POSIX sh and 1024-byte blocks in bash: 8 blocks is at most 8 KiB; the big file's
    // formatted text is > 100 KiB, the small file's < 200 bytes.
    let experiments: Vec<(&str, &str, u32, Vec<(&str, usize)>)> = vec![
        ("sigxfsz", "", 8, vec![("big.lua", 6000)]),
        ("efbig", "trap '' XFSZ; ", 8, vec![("big.lua", 6000)]),
        ("zero", "", 0, vec![("big.lua", 6000)]),
        ("two", "trap '' XFSZ; ", 8, vec![("a_small.lua", 5), ("b_big.lua", 6000)]),
    ];
    let mut found = 0;
    for (name, prelude, blocks, files) in experiments {
        if mode != "all" && mode != name {
            continue;
        }
        let dir = scratch.join(name);
        fs::create_dir_all(&dir).unwrap();
        let mut expect = Vec::new();
        for (f, n) in &files {
            let p = dir.join(f);
            fs::write(&p, unformatted(*n)).unwrap();
            let orig = fs::read(&p).unwrap();
            let fmt = formatted_by(&luafmt, &p);
            assert!(orig != fmt, "the generated input must need formatting");
            expect.push((p, orig, fmt));
        }
        let names: Vec<&str> = files.iter().map(|(f, _)| *f).collect();
        let out = run_limited(&luafmt, &dir, prelude, blocks, &names);
        println!("[{name}] sh -c '{prelude}ulimit -f {blocks}; luafmt --write {}'  ->  {}", names.join(" "), out.status);
        if !out.stderr.is_empty() {
            println!("[{name}]   stderr: {}", out.stderr.replace('\n', " | "));
        }
        for (p, orig, fmt) in &expect {
            let now = fs::read(p).unwrap_or_default();
            let (ok, what) = describe(&now, orig, fmt);
            let file = p.file_name().unwrap().to_string_lossy();
            if ok {
                println!("[{name}]   {file}: {what}");
            } else {
                println!("FOUND [{name}] {file} is left {what} after `luafmt --write` under `{prelude}ulimit -f {blocks}` ({})", out.status);
                found += 1;
            }
        }
        // anything else in the directory (temp files left behind)?
        for e in fs::read_dir(&dir).unwrap() {
            let n = e.unwrap().file_name().to_string_lossy().to_string();
            if !names.contains(&n.as_str()) {
                println!("[{name}]   note: extra file left in the directory: {n}");
            }
        }
    }
    let _ = fs::remove_dir_all(&scratch);
    if found > 0 {
        println!("C39 violated on the running binary: {found} target file(s) hold neither the original nor the formatted content");
        exit(1);
    }
    println!("OK every target file holds its complete original or its complete formatted content");
}
