//! C38 bounded stress search on the real analysis: "Any number of threads may query one shared analysis at the same
//! time ... Diagnostics and semantic results computed concurrently equal those computed sequentially".
//! Decides nothing; it only turns an UNDECIDED static obligation (interior mutability reachable from the shared analysis,
//! unit rustc-traits/c38 `C38.immutable-shared-state`) into a concrete schedule-dependent result on the real code.
//!   replay search [rounds]     build a workspace (table literals against declared classes, many globals, cross-file
//!                              classes), then, `rounds` times on a FRESH analysis each (cold caches): (1) T threads
//!                              released by a barrier query `get_all_global_decl_ids()` at once; (2) T threads diagnose
//!                              the SAME file at once; (3) T threads diagnose all files in different orders. Every
//!                              concurrent answer must equal the sequential answer computed afterwards on the same
//!                              analysis. "FOUND <what>" + exit 1 on the first difference, exit 0 otherwise.
use emmylua_code_analysis::{FileId, VirtualWorkspace};
use std::sync::{Arc, Barrier};
use tokio_util::sync::CancellationToken;

const T: usize = 8;

fn files() -> Vec<(String, String)> {
    let mut v = Vec::new();
    let mut decl = String::from("---@class VpShape\n---@field x integer\n---@field name string\n---@overload fun(x: integer): VpShape\nVpShape = {}\n");
    for i in 0..1500 { decl.push_str(&format!("VP_GLOBAL_{i} = {i}\n")); }
    v.push(("decl.lua".to_string(), decl));
    for k in 0..6 {
        let mut s = String::new();
        for i in 0..40 {
            s.push_str(&format!("---@type VpShape\nlocal s{i} = {{ x = {i}, name = {i} }}\nlocal t{i} = {{ x = 'a', name = 'b', extra = VP_GLOBAL_{i} }}\nprint(s{i}.nope, undefined_{k}_{i}, t{i})\n"));
        }
        v.push((format!("use{k}.lua"), s));
    }
    v
}

fn fresh() -> (VirtualWorkspace, Vec<FileId>) {
    let mut ws = VirtualWorkspace::new();
    let ids = files().iter().map(|(n, t)| ws.def_file(n, t)).collect();
    (ws, ids)
}

fn diag(ws: &VirtualWorkspace, f: FileId) -> Option<Vec<String>> {
    ws.analysis.diagnose_file(f, CancellationToken::new()).map(|ds| {
        let mut v: Vec<String> = ds.iter().map(|d| format!("{:?}|{:?}|{:?}|{}", d.range, d.code, d.severity, d.message)).collect();
        v.sort();
        v
    })
}

fn globals(ws: &VirtualWorkspace) -> Vec<String> {
    let mut v: Vec<String> = ws.analysis.compilation.get_db().get_global_index().get_all_global_decl_ids().iter().map(|d| format!("{d:?}")).collect();
    v.sort();
    v
}

fn main() {
    let a: Vec<String> = std::env::args().skip(1).collect();
    let rounds: usize = a.get(1).and_then(|x| x.parse().ok()).unwrap_or(6);
    for round in 0..rounds {
        // (1) cold global list, concurrent burst
        let (ws, ids) = fresh();
        let ws = Arc::new(ws);
        let bar = Arc::new(Barrier::new(T));
        let hs: Vec<_> = (0..T).map(|_| { let (ws, bar) = (ws.clone(), bar.clone()); std::thread::spawn(move || { bar.wait(); globals(&ws) }) }).collect();
        let conc: Vec<Vec<String>> = hs.into_iter().map(|h| h.join().expect("thread")).collect();
        let seq = globals(&ws);
        for (t, c) in conc.iter().enumerate() {
            if *c != seq {
                println!("FOUND round {round}: get_all_global_decl_ids() called by {T} threads at once right after indexing: thread {t} got {} ids, the sequential call afterwards {} ids", c.len(), seq.len());
                std::process::exit(1);
            }
        }
        // (2) the same file diagnosed by T threads at once
        let (ws, ids2) = fresh();
        let _ = ids;
        let ws = Arc::new(ws);
        for &f in ids2.iter().skip(1).take(2) {
            let bar = Arc::new(Barrier::new(T));
            let hs: Vec<_> = (0..T).map(|_| { let (ws, bar) = (ws.clone(), bar.clone()); std::thread::spawn(move || { bar.wait(); diag(&ws, f) }) }).collect();
            let conc: Vec<_> = hs.into_iter().map(|h| h.join().expect("thread")).collect();
            let seq = diag(&ws, f);
            for (t, c) in conc.iter().enumerate() {
                if *c != seq {
                    println!("FOUND round {round}: diagnose_file({f:?}) by {T} threads at once: thread {t} got {:?} diagnostics, the sequential call afterwards {:?}",
                             c.as_ref().map(|v| v.len()), seq.as_ref().map(|v| v.len()));
                    std::process::exit(1);
                }
            }
        }
        // (3) all files, every thread in a different order
        let (ws, ids3) = fresh();
        let ws = Arc::new(ws);
        let bar = Arc::new(Barrier::new(T));
        let hs: Vec<_> = (0..T).map(|t| { let (ws, bar, ids) = (ws.clone(), bar.clone(), ids3.clone()); std::thread::spawn(move || {
            bar.wait();
            let n = ids.len();
            (0..n).map(|i| { let f = ids[(i * (t % (n - 1) + 1) + t) % n]; (f, diag(&ws, f)) }).collect::<Vec<_>>()
        }) }).collect();
        let conc: Vec<_> = hs.into_iter().map(|h| h.join().expect("thread")).collect();
        for (t, rs) in conc.iter().enumerate() {
            for (f, c) in rs {
                let seq = diag(&ws, *f);
                if *c != seq {
                    println!("FOUND round {round}: thread {t} diagnosing {f:?} while {} other threads diagnose: {:?} diagnostics, sequentially {:?}", T - 1,
                             c.as_ref().map(|v| v.len()), seq.as_ref().map(|v| v.len()));
                    std::process::exit(1);
                }
            }
        }
    }
    println!("no schedule-dependent answer in {rounds} rounds x ({T} threads: cold global list burst, same-file diagnosis, all-files diagnosis)");
}
