//! C35 replay: "Exporting the same workspace twice gives byte-identical output" + the exactly-once / nothing-from-libraries
//! sentences, on the REAL `emmylua_doc_cli::run_doc_cli` (the JSON generator: json_generator::export::export).
//!   replay [runs]                 writes a small workspace (8 classes, 2 enums, 2 aliases, 8 globals, 12 module files in the
//!                                 main workspace; a library with a class, an alias and two globals), then starts itself
//!                                 `runs` times (default 4) as a CHILD PROCESS, each child exporting the same workspace to
//!                                 its own doc.json. Compares the files byte for byte and the order of the names in
//!                                 `types` / `modules` / `globals`. Prints `FOUND ...` and exits 1 when two exports differ
//!                                 (or when an entry is missing / duplicated / comes from the library); exit 0 otherwise.
//!   replay child <ws> <out.json>  one export (what `emmylua_doc_cli <ws> -f json -o <out.json>` does)
//! Decides nothing: a hit is a concrete workspace on which two runs of the real exporter produce different bytes.
use emmylua_doc_cli::{CmdArgs, Parser, run_doc_cli};
use std::path::{Path, PathBuf};

fn write(p: &Path, s: &str) {
    if let Some(d) = p.parent() { std::fs::create_dir_all(d).expect("mkdir"); }
    std::fs::write(p, s).expect("write");
}

const CLASSES: [&str; 8] = ["Apple", "Banana", "Cherry", "Damson", "Elder", "Fig", "Grape", "Hazel"];
const GLOBALS: [&str; 8] = ["g_alpha", "g_beta", "g_gamma", "g_delta", "g_eps", "g_zeta", "g_eta", "g_theta"];

fn make_workspace(root: &Path) -> PathBuf {
    let main = root.join("main");
    let lib = root.join("lib");
    for (i, c) in CLASSES.iter().enumerate() {
        // one class per module file; the module returns a table => it "exports a value"
        write(&main.join(format!("mod_{}.lua", c.to_lowercase())),
              &format!("---@class {c}\n---@field n{i} integer\nlocal {c} = {{}}\n\n{g} = {i}\n\nreturn {c}\n", g = GLOBALS[i]));
    }
    // enums / aliases, in a file that returns NOTHING (module without export value)
    write(&main.join("kinds.lua"),
          "---@enum Colour\nlocal Colour = { Red = 1, Green = 2 }\n\n---@enum Shape\nlocal Shape = { Dot = 1 }\n\n---@alias Ident string\n\n---@alias Count integer\n");
    // globals whose type cannot be inferred / is nil / is declared twice
    write(&main.join("odd_globals.lua"), "g_unresolved = some_undefined_function()\ng_nil = nil\ng_twice = 1\ng_twice = 2\nfunction g_func() end\n");
    write(&main.join("sub/one.lua"), "return { x = 1 }\n");
    write(&main.join("sub/two.lua"), "return 42\n");
    write(&main.join("sub/three.lua"), "local t = { y = 2 }\nreturn t\n");
    // the library: nothing of this may be exported
    write(&lib.join("libmod.lua"), "---@class LibOnlyClass\nlocal L = {}\n\n---@alias LibOnlyAlias string\n\nlib_only_global = 1\nlib_only_global2 = { z = 1 }\n\nreturn L\n");
    write(&main.join(".emmyrc.json"), &format!("{{\"workspace\": {{\"library\": [{:?}]}}}}\n", lib.to_string_lossy()));
    main
}

fn names(v: &serde_json::Value, key: &str) -> Vec<String> {
    v.get(key).and_then(|a| a.as_array()).map(|a| a.iter().map(|e| e.get("name").and_then(|n| n.as_str()).unwrap_or("?").to_string()).collect()).unwrap_or_default()
}

fn main() {
    let a: Vec<String> = std::env::args().skip(1).collect();
    if a.first().map(|s| s.as_str()) == Some("child") {
        let args = CmdArgs::parse_from(["emmylua_doc_cli", a[1].as_str(), "-f", "json", "-o", a[2].as_str()]);
        if let Err(e) = run_doc_cli(args) { eprintln!("export failed: {e}"); std::process::exit(3); }
        return;
    }
    let runs: usize = a.first().and_then(|s| s.parse().ok()).unwrap_or(4).max(2);
    let root = std::env::temp_dir().join(format!("vr_c35_{}", std::process::id()));
    let _ = std::fs::remove_dir_all(&root);
    let ws = make_workspace(&root);
    let me = std::env::current_exe().expect("current_exe");
    let mut outs: Vec<Vec<u8>> = Vec::new();
    for i in 0..runs {
        let out = root.join(format!("out{i}.json"));
        let st = std::process::Command::new(&me).arg("child").arg(&ws).arg(&out)
            .stdout(std::process::Stdio::null()).stderr(std::process::Stdio::null()).status().expect("spawn child");
        if !st.success() { println!("UNDECIDED child {i} failed: {st:?}"); std::process::exit(2); }
        outs.push(std::fs::read(&out).expect("read export"));
    }
    let docs: Vec<serde_json::Value> = outs.iter().map(|b| serde_json::from_slice(b).expect("json")).collect();
    let mut bad = false;
    // (a) exactly once / nothing from libraries, on every run
    for (i, d) in docs.iter().enumerate() {
        let mut t = names(d, "types"); t.sort();
        let mut want_t: Vec<String> = CLASSES.iter().map(|s| s.to_string()).chain(["Colour", "Shape", "Ident", "Count"].map(String::from)).collect(); want_t.sort();
        if t != want_t { println!("FOUND run {i}: types = {t:?}, expected exactly {want_t:?}"); bad = true; }
        let mut g = names(d, "globals"); g.sort();
        let mut want_g: Vec<String> = GLOBALS.iter().map(|s| s.to_string()).collect(); want_g.sort();
        if g != want_g { println!("FOUND run {i}: globals = {g:?}, expected exactly {want_g:?}"); bad = true; }
        let mut m = names(d, "modules"); m.sort();
        let mut want_m: Vec<String> = CLASSES.iter().map(|c| format!("mod_{}", c.to_lowercase())).chain(["kinds", "sub.one", "sub.two", "sub.three"].map(String::from)).collect(); want_m.sort();
        if m != want_m {
            let missing: Vec<&String> = want_m.iter().filter(|x| !m.contains(x)).collect();
            let extra: Vec<&String> = m.iter().filter(|x| !want_m.contains(x)).collect();
            println!("FOUND run {i}: modules: missing {missing:?} extra {extra:?} (12 module files in the main workspace)"); bad = true;
        }
    }
    // (b) reproducibility across processes
    for i in 1..runs {
        if outs[i] != outs[0] {
            bad = true;
            println!("FOUND run 0 and run {i} export the same workspace to DIFFERENT bytes ({} vs {} bytes)", outs[0].len(), outs[i].len());
            for key in ["types", "modules", "globals"] {
                let (x, y) = (names(&docs[0], key), names(&docs[i], key));
                if x != y { println!("  {key} order run 0: {x:?}\n  {key} order run {i}: {y:?}"); }
            }
        }
    }
    if !bad { println!("OK {runs} exports of the same workspace are byte-identical ({} bytes) and list every main-workspace item once", outs[0].len()); }
    let _ = std::fs::remove_dir_all(&root);
    std::process::exit(if bad { 1 } else { 0 });
}
