//! C35 replay: "The JSON documentation export lists every class, enum, alias, global and module declared in the main
//! workspace exactly once, and nothing from libraries or the standard library. Exporting the same workspace twice gives
//! byte-identical output" — on the REAL `emmylua_doc_cli::run_doc_cli` (JSON generator: json_generator::export::export).
//!
//!   replay [runs]                 writes a small workspace (main: 8 classes one per module file, 2 enums + 2 aliases in a
//!                                 file that returns nothing, two file-private classes with the SAME name in two files, 12
//!                                 globals, 16 module files; library: a class, an alias, two globals), then starts itself
//!                                 `runs` times (default 4) as a CHILD PROCESS, each child exporting the same workspace to
//!                                 its own doc.json (a new process = a new random seed of hashbrown's default hasher).
//!                                 Checks, each reported as `FOUND[<clause>] ...`:
//!                                   [order]            the names in `types` / `modules` / `globals` come in different orders
//!                                   [entry-bytes]      with the three lists brought into one order the files still differ: first
//!                                                      differing JSON path (nondeterminism INSIDE an entry)
//!                                   [exactly-once]     a main-workspace class / enum / alias / global is missing or listed twice
//!                                   [from-library]     a library item is listed
//!                                   [module-missing]   a main-workspace module file is not listed (literal reading of the property)
//!                                 exit 1 when anything was found, 0 otherwise.
//!   replay child <ws> <out.json> [<ws2> ...]   one export (what `emmylua_doc_cli <ws> [<ws2> ...] -f json -o <out.json>` does)
//!   replay search [seed] [runs]   bounded witness search over a SET of generated workspaces (see `mod search`): `FOUND[<clause>] ...`
//!                                 + exit 1; `KNOWN module without export value not listed ...` (the open finding) does not
//!                                 fail; exit 0 otherwise; exit 2 when a workspace cannot be written / a child fails
//! Decides nothing: a hit is a concrete workspace on which the real exporter violates the sentence.
//!
//! search: ORACLE, from the statement and from what the generator itself wrote (no code shared with the exporter)
//!   every workspace is described by the declarations the generator put into each file; a FILE is identified by its
//!   canonical path (a file reachable through two paths -- directory symlink, aliased root -- is ONE file)
//!   [exactly-once]    each public class / enum / alias NAME declared in at least one main file is listed exactly once
//!                     (`(private)` classes: once per declaring file); inside an entry no declaration location
//!                     (canonical file, line) appears twice; each global NAME assigned in a main file is listed
//!                     exactly once; each main FILE whose chunk returns a value is listed exactly once in `modules`
//!   [from-library]    no name declared ONLY in library files, no library file in `modules`; nothing of the std library
//!                     (any listed name / module file the generator did not write is reported as unexpected)
//!   [order] [entry-bytes]   `runs` (default 4) exports in child processes are byte-identical
//!   KNOWN             a main file whose chunk returns nothing is not listed in `modules` (open finding, recorded)
//!   (found by this search and fixed in the repository by 6bbebbb: two main files that both declare `---@class (partial)
//!   Shape` gave `loc` lists in the hash-set order in which update_files_by_uri analysed the batch; the
//!   `shared-with-library` workspace keeps that witness: it is an [entry-bytes] hit again if it comes back)
//! BOUNDS  5 workspaces: `base` (the workspace of `replay [runs]`), `same-named-modules` (6 main roots each with util.lua,
//!   foo.lua next to foo/init.lua, a library with util.lua too), `shared-with-library` (class (partial), enum and alias
//!   declared in a library AND a main file; library-only items next to them), `symlink-inside-root` (compat -> src,
//!   unix only), `symlinked-second-root` (a second root that is a symlink to a directory of the first, unix only);
//!   the seed varies the number of filler declarations per file and their names.
use emmylua_doc_cli::{CmdArgs, Parser, run_doc_cli};
use serde_json::Value;
use std::path::{Path, PathBuf};

fn write(p: &Path, s: &str) {
    if let Some(d) = p.parent() { std::fs::create_dir_all(d).expect("mkdir"); }
    std::fs::write(p, s).expect("write");
}

const CLASSES: [&str; 8] = ["Apple", "Banana", "Cherry", "Damson", "Elder", "Fig", "Grape", "Hazel"];
const GLOBALS: [&str; 8] = ["g_alpha", "g_beta", "g_gamma", "g_delta", "g_eps", "g_zeta", "g_eta", "g_theta"];

fn make_workspace(root: &Path) -> PathBuf {
    let main = root.join("main");
    let lib = root.join("lib");
    for (i, c) in CLASSES.iter().enumerate() {
        // one class per module file; the module returns a table => it "exports a value"
        write(&main.join(format!("mod_{}.lua", c.to_lowercase())),
              &format!("---@class {c}\n---@field n{i} integer\nlocal {c} = {{}}\n\n{g} = {i}\n\nreturn {c}\n", g = GLOBALS[i]));
    }
    // enums / aliases, in a file that returns NOTHING (a module without export value)
    write(&main.join("kinds.lua"),
          "---@enum Colour\nlocal Colour = { Red = 1, Green = 2, Blue = 3 }\n\n---@enum Shape\nlocal Shape = { Dot = 1, Line = 2 }\n\n---@alias Ident string\n\n---@alias Count integer\n");
    // two file-private classes with the same full name (LuaTypeDeclId::File(file, "Dup")): a tie for any sort by name
    write(&main.join("priv_a.lua"), "---@class (private) Dup\n---@field a integer\nlocal Dup = {}\nreturn Dup\n");
    write(&main.join("priv_b.lua"), "---@class (private) Dup\n---@field b string\nlocal Dup = {}\nreturn Dup\n");
    // globals whose type cannot be inferred / is nil / is assigned twice / is a function
    write(&main.join("odd_globals.lua"), "g_unresolved = some_undefined_function()\ng_nil = nil\ng_twice = 1\ng_twice = 2\nfunction g_func() end\n");
    write(&main.join("sub/one.lua"), "return { x = 1 }\n");
    write(&main.join("sub/two.lua"), "return 42\n");
    write(&main.join("sub/three.lua"), "local t = { y = 2 }\nreturn t\n");
    // the library: nothing of this may be exported
    write(&lib.join("libmod.lua"), "---@class LibOnlyClass\nlocal L = {}\n\n---@alias LibOnlyAlias string\n\nlib_only_global = 1\nlib_only_global2 = { z = 1 }\n\nreturn L\n");
    write(&main.join(".emmyrc.json"), &format!("{{\"workspace\": {{\"library\": [{:?}]}}}}\n", lib.to_string_lossy()));
    main
}

fn names(v: &Value, key: &str) -> Vec<String> {
    v.get(key).and_then(|a| a.as_array()).map(|a| a.iter().map(|e| e.get("name").and_then(|n| n.as_str()).unwrap_or("?").to_string()).collect()).unwrap_or_default()
}

/// first path at which two JSON values differ
fn first_diff(a: &Value, b: &Value, path: String) -> Option<String> {
    match (a, b) {
        (Value::Object(x), Value::Object(y)) => {
            for (k, va) in x {
                match y.get(k) { Some(vb) => if let Some(d) = first_diff(va, vb, format!("{path}.{k}")) { return Some(d); }, None => return Some(format!("{path}.{k} (missing)")) }
            }
            if x.len() != y.len() { return Some(format!("{path} (different keys)")); }
            None
        }
        (Value::Array(x), Value::Array(y)) => {
            if x.len() != y.len() { return Some(format!("{path} (lengths {} / {})", x.len(), y.len())); }
            for (i, (va, vb)) in x.iter().zip(y).enumerate() { if let Some(d) = first_diff(va, vb, format!("{path}[{i}]")) { return Some(d); } }
            None
        }
        _ => if a == b { None } else { Some(format!("{path}: {a} / {b}")) },
    }
}

/// the document with `types` / `modules` / `globals` sorted by (name, loc / file)
fn normalized(v: &Value) -> Value {
    let mut v = v.clone();
    for key in ["types", "modules", "globals"] {
        if let Some(a) = v.get_mut(key).and_then(|a| a.as_array_mut()) {
            a.sort_by_key(|e| (e.get("name").map(|n| n.to_string()).unwrap_or_default(),
                               e.get("loc").map(|n| n.to_string()).unwrap_or_default(), e.get("file").map(|n| n.to_string()).unwrap_or_default()));
        }
    }
    v
}

fn check_names(run: usize, what: &str, got: &[String], want: &[(&str, usize)], library: &[&str], bad: &mut bool) {
    for (n, k) in want {
        let c = got.iter().filter(|g| g == n).count();
        if c != *k { println!("FOUND[exactly-once] run {run}: {what} `{n}` listed {c} time(s), expected {k}"); *bad = true; }
    }
    for g in got {
        if library.contains(&g.as_str()) { println!("FOUND[from-library] run {run}: {what} `{g}` comes from the library"); *bad = true; }
        else if !want.iter().any(|(n, _)| n == g) { println!("FOUND[exactly-once] run {run}: unexpected {what} `{g}`"); *bad = true; }
    }
}

fn main() {
    let a: Vec<String> = std::env::args().skip(1).collect();
    if a.first().map(|s| s.as_str()) == Some("search") {
        search::run(a.get(1).and_then(|s| s.parse().ok()).unwrap_or(1), a.get(2).and_then(|s| s.parse().ok()).unwrap_or(4));
    }
    if a.first().map(|s| s.as_str()) == Some("child") {
        let mut argv: Vec<&str> = vec!["emmylua_doc_cli", a[1].as_str()];
        argv.extend(a[3..].iter().map(|s| s.as_str()));
        argv.extend(["-f", "json", "-o", a[2].as_str()]);
        let args = CmdArgs::parse_from(argv);
        if let Err(e) = run_doc_cli(args) { eprintln!("export failed: {e}"); std::process::exit(3); }
        return;
    }
    let runs: usize = a.first().and_then(|s| s.parse().ok()).unwrap_or(4).max(2);
    let root = std::env::temp_dir().join(format!("vr_c35_{}", std::process::id()));
    let _ = std::fs::remove_dir_all(&root);
    let ws = make_workspace(&root);
    let me = std::env::current_exe().expect("current_exe");
    let mut outs: Vec<Vec<u8>> = Vec::new();
    for i in 0..runs {
        let out = root.join(format!("out{i}.json"));
        let st = std::process::Command::new(&me).arg("child").arg(&ws).arg(&out)
            .stdout(std::process::Stdio::null()).stderr(std::process::Stdio::null()).status().expect("spawn child");
        if !st.success() { println!("UNDECIDED child {i} failed: {st:?}"); std::process::exit(2); }
        outs.push(std::fs::read(&out).expect("read export"));
    }
    let docs: Vec<Value> = outs.iter().map(|b| serde_json::from_slice(b).expect("json")).collect();
    let mut bad = false;
    // (a) exactly once / nothing from libraries (run 0 is enough: the SET of entries does not depend on the order)
    let want_t: Vec<(&str, usize)> = CLASSES.iter().map(|c| (*c, 1)).chain([("Colour", 1), ("Shape", 1), ("Ident", 1), ("Count", 1), ("Dup", 2)]).collect();
    check_names(0, "type", &names(&docs[0], "types"), &want_t, &["LibOnlyClass", "LibOnlyAlias"], &mut bad);
    let want_g: Vec<(&str, usize)> = GLOBALS.iter().map(|g| (*g, 1)).chain([("g_unresolved", 1), ("g_nil", 1), ("g_twice", 1), ("g_func", 1)]).collect();
    check_names(0, "global", &names(&docs[0], "globals"), &want_g, &["lib_only_global", "lib_only_global2"], &mut bad);
    let mods: Vec<String> = CLASSES.iter().map(|c| format!("mod_{}", c.to_lowercase()))
        .chain(["kinds", "priv_a", "priv_b", "odd_globals", "sub.one", "sub.two", "sub.three"].map(String::from)).collect();
    let got_m = names(&docs[0], "modules");
    for m in &mods {
        let c = got_m.iter().filter(|g| *g == m).count();
        if c == 0 { println!("FOUND[module-missing] module file `{m}` of the main workspace is not listed in `modules`"); bad = true; }
        else if c > 1 { println!("FOUND[exactly-once] module `{m}` listed {c} times"); bad = true; }
    }
    for g in &got_m {
        if g == "libmod" { println!("FOUND[from-library] module `{g}` comes from the library"); bad = true; }
        else if !mods.contains(g) { println!("FOUND[exactly-once] unexpected module `{g}`"); bad = true; }
    }
    // (b) reproducibility across processes
    for i in 1..runs {
        if outs[i] == outs[0] { continue; }
        bad = true;
        let mut order = false;
        for key in ["types", "modules", "globals"] {
            let (x, y) = (names(&docs[0], key), names(&docs[i], key));
            if x != y { order = true; println!("FOUND[order] run 0 / run {i}: `{key}` of the same workspace in different orders\n  run 0: {x:?}\n  run {i}: {y:?}"); }
        }
        // compare the ENTRIES irrespective of the order of the three lists (sorted by name, then location)
        if let Some(d) = first_diff(&normalized(&docs[0]), &normalized(&docs[i]), "$".into()) {
            println!("FOUND[entry-bytes] run 0 / run {i}: with the three lists brought into the same order, the exports still differ at {d}");
        } else if !order {
            println!("FOUND[entry-bytes] run 0 / run {i}: same entries in the same order, but different bytes (formatting)");
        }
    }
    if !bad { println!("OK {runs} exports of the same workspace are byte-identical ({} bytes); every main-workspace item is listed once, nothing from the library", outs[0].len()); }
    let _ = std::fs::remove_dir_all(&root);
    std::process::exit(if bad { 1 } else { 0 });
}

mod search {
    use super::*;
    use std::collections::{BTreeMap, BTreeSet};

    #[derive(Clone, Copy, PartialEq)]
    enum Kind { Class, PartialClass, PrivateClass, Enum, Alias }

    /// what the generator writes into one file
    #[derive(Default, Clone)]
    struct Decls { types: Vec<(Kind, String)>, globals: Vec<String>, ret: Option<String>,
                   /// hand-written text that declares exactly the above (None: generated by `text`)
                   raw: Option<String> }

    impl Decls {
        fn text(&self) -> String {
            if let Some(raw) = &self.raw { return raw.clone(); }
            let mut s = String::new();
            for (i, (k, n)) in self.types.iter().enumerate() {
                match k {
                    Kind::Class => s += &format!("---@class {n}\n---@field f{i} integer\nlocal {n}_{i} = {{}}\n\n"),
                    Kind::PartialClass => s += &format!("---@class (partial) {n}\n---@field p{i}_{} string\n\n", self.globals.first().cloned().unwrap_or_default()),
                    Kind::PrivateClass => s += &format!("---@class (private) {n}\n---@field q{i} integer\nlocal {n}_{i} = {{}}\n\n"),
                    Kind::Enum => s += &format!("---@enum {n}\nlocal {n}_{i} = {{ One = 1, Two = 2 }}\n\n"),
                    Kind::Alias => s += &format!("---@alias {n} integer|string\n\n"),
                }
            }
            for (i, g) in self.globals.iter().enumerate() { s += &format!("{g} = {}\n", i + 1); }
            if let Some(r) = &self.ret { s += &format!("\nreturn {r}\n"); }
            s
        }
    }

    struct Workspace {
        name: &'static str,
        roots: Vec<PathBuf>,                       // main roots, in command-line order (the first one holds .emmyrc.json)
        main_files: Vec<(PathBuf, Decls)>,         // path as written (canonical: written below the canonical base, never through a link)
        lib_files: Vec<(PathBuf, Decls)>,
        links: Vec<String>,                        // description of the symlinks, for the report
    }

    struct Rng(u64);
    impl Rng {
        fn next(&mut self) -> u64 { self.0 ^= self.0 << 13; self.0 ^= self.0 >> 7; self.0 ^= self.0 << 17; self.0 }
        fn below(&mut self, n: usize) -> usize { (self.next() % n as u64) as usize }
    }

    fn undecided(what: String) -> ! { println!("UNDECIDED {what}"); std::process::exit(2) }

    const WORDS: [&str; 12] = ["Amber", "Birch", "Cedar", "Dune", "Ember", "Fjord", "Grove", "Heath", "Isle", "Jade", "Kelp", "Loch"];

    /// filler declarations: 0-3 classes / globals with names that no other file uses
    fn filler(rng: &mut Rng, tag: &str, d: &mut Decls) {
        for _ in 0..rng.below(4) { let w = WORDS[rng.below(WORDS.len())]; let n = format!("{w}{tag}{}", d.types.len()); d.types.push((Kind::Class, n)); }
        for _ in 0..rng.below(4) { let w = WORDS[rng.below(WORDS.len())].to_lowercase(); let n = format!("g_{w}_{tag}{}", d.globals.len()); d.globals.push(n); }
    }

    fn decls(types: &[(Kind, &str)], globals: &[&str], ret: Option<&str>) -> Decls {
        Decls { types: types.iter().map(|(k, n)| (*k, n.to_string())).collect(), globals: globals.iter().map(|g| g.to_string()).collect(), ret: ret.map(String::from), raw: None }
    }

    fn emmyrc(root: &Path, libs: &[PathBuf]) {
        let l: Vec<String> = libs.iter().map(|p| format!("{:?}", p.to_string_lossy())).collect();
        write(&root.join(".emmyrc.json"), &format!("{{\"workspace\": {{\"library\": [{}]}}}}\n", l.join(", ")));
    }

    fn generate(base: &Path, seed: u64) -> Vec<Workspace> {
        let mut rng = Rng(seed.wrapping_mul(0x9E37_79B9_7F4A_7C15) | 1);
        let mut out = Vec::new();

        // ---- the workspace of `replay [runs]`: one class per module file, enums / aliases in a file that returns nothing, two
        //      file-private classes of one name, globals that are nil / unresolved / assigned twice / functions, one library
        {
            let b = base.join("base");
            let (main, lib) = (b.join("main"), b.join("lib"));
            let mut main_files = Vec::new();
            for (i, c) in CLASSES.iter().enumerate() {
                let mut d = decls(&[(Kind::Class, c)], &[GLOBALS[i]], Some("M"));
                d.raw = Some(format!("---@class {c}\n---@field n{i} integer\nlocal {c} = {{}}\n\n{g} = {i}\n\nreturn {c}\n", g = GLOBALS[i]));
                main_files.push((main.join(format!("mod_{}.lua", c.to_lowercase())), d));
            }
            main_files.push((main.join("kinds.lua"), decls(&[(Kind::Enum, "Colour"), (Kind::Enum, "Shape"), (Kind::Alias, "Ident"), (Kind::Alias, "Count")], &[], None)));
            main_files.push((main.join("priv_a.lua"), decls(&[(Kind::PrivateClass, "Dup")], &[], Some("{ a = 1 }"))));
            main_files.push((main.join("priv_b.lua"), decls(&[(Kind::PrivateClass, "Dup")], &[], Some("{ b = 1 }"))));
            let mut odd = decls(&[], &["g_unresolved", "g_nil", "g_twice", "g_func"], None);
            odd.raw = Some("g_unresolved = some_undefined_function()\ng_nil = nil\ng_twice = 1\ng_twice = 2\nfunction g_func() end\n".to_string());
            main_files.push((main.join("odd_globals.lua"), odd));
            main_files.push((main.join("sub/one.lua"), decls(&[], &[], Some("{ x = 1 }"))));
            main_files.push((main.join("sub/two.lua"), decls(&[], &[], Some("42"))));
            let mut three = decls(&[], &[], Some("t"));
            three.raw = Some("local t = { y = 2 }\nreturn t\n".to_string());
            main_files.push((main.join("sub/three.lua"), three));
            let lib_files = vec![(lib.join("libmod.lua"), decls(&[(Kind::Class, "LibOnlyClass"), (Kind::Alias, "LibOnlyAlias")], &["lib_only_global", "lib_only_global2"], Some("{ z = 1 }")))];
            emmyrc(&main, &[lib]);
            out.push(Workspace { name: "base", roots: vec![main], main_files, lib_files, links: vec![] });
        }
        // ---- same-named modules: 6 main roots with util.lua, foo.lua next to foo/init.lua, a library util.lua
        {
            let b = base.join("same_named");
            let roots: Vec<PathBuf> = (0..6).map(|i| b.join(format!("root{i}"))).collect();
            let lib = b.join("lib");
            let mut main_files = Vec::new();
            for (i, r) in roots.iter().enumerate() {
                let mut d = decls(&[], &[], Some("{ version = 1 }"));
                d.types.push((Kind::Class, format!("Util{i}")));
                d.globals.push(format!("util_g{i}"));
                d.ret = Some(format!("{{ root = {i} }}"));
                filler(&mut rng, &format!("U{i}x"), &mut d);
                main_files.push((r.join("util.lua"), d));
            }
            let mut foo = decls(&[(Kind::Class, "FooFile")], &["foo_file_g"], Some("{ from = \"foo.lua\" }"));
            filler(&mut rng, "Fa", &mut foo);
            main_files.push((roots[0].join("foo.lua"), foo));
            main_files.push((roots[0].join("foo/init.lua"), decls(&[(Kind::Class, "FooDir")], &["foo_dir_g"], Some("{ from = \"foo/init.lua\" }"))));
            main_files.push((roots[3].join("foo/init.lua"), decls(&[(Kind::Enum, "FooDir3")], &[], Some("42"))));
            let lib_files = vec![(lib.join("util.lua"), decls(&[(Kind::Class, "LibUtil")], &["lib_util_g"], Some("{ lib = true }")))];
            out.push(Workspace { name: "same-named-modules", roots, main_files, lib_files, links: vec![] });
            emmyrc(&out.last().expect("ws").roots[0], &[lib]);
        }
        // ---- class / enum / alias declared in a library AND in a main file
        {
            let b = base.join("shared");
            let (main, lib, lib2) = (b.join("main"), b.join("vendor_shapes"), b.join("vendor_other"));
            let mut ext = decls(&[(Kind::PartialClass, "Shape"), (Kind::Class, "Canvas"), (Kind::Enum, "Tone"), (Kind::Alias, "Handle")], &["canvas_g"], Some("{ canvas = true }"));
            filler(&mut rng, "Sa", &mut ext);
            let mut second = decls(&[(Kind::PartialClass, "Shape"), (Kind::PartialClass, "Brush")], &["brush_g"], None);
            filler(&mut rng, "Sb", &mut second);
            let main_files = vec![(main.join("shape_ext.lua"), ext), (main.join("sub/more_shapes.lua"), second)];
            let lib_files = vec![
                (lib.join("shapes.lua"), decls(&[(Kind::PartialClass, "Shape"), (Kind::Enum, "Tone"), (Kind::Alias, "Handle"), (Kind::Class, "VendorOnly"), (Kind::Alias, "VendorAlias")], &["vendor_g"], Some("{ vendor = true }"))),
                (lib2.join("brushes.lua"), decls(&[(Kind::PartialClass, "Brush"), (Kind::Enum, "VendorEnum")], &["vendor_g2"], None)),
            ];
            emmyrc(&main, &[lib, lib2]);
            out.push(Workspace { name: "shared-with-library", roots: vec![main], main_files, lib_files, links: vec![] });
        }
        // ---- a directory symlink inside the main root: every file below src is reachable through compat/ as well
        #[cfg(unix)]
        {
            let b = base.join("symlink");
            let (main, lib) = (b.join("project"), b.join("lib"));
            let mut w = decls(&[(Kind::Class, "Widget"), (Kind::Enum, "WidgetKind"), (Kind::Alias, "WidgetId"), (Kind::PrivateClass, "Hidden")], &["WIDGET_VERSION"], Some("{ create = 1 }"));
            filler(&mut rng, "Wa", &mut w);
            let mut inner = decls(&[(Kind::Class, "Inner"), (Kind::PrivateClass, "Hidden")], &["inner_g"], Some("{ inner = true }"));
            filler(&mut rng, "Wb", &mut inner);
            let main_files = vec![(main.join("src/widget.lua"), w), (main.join("src/deep/inner.lua"), inner),
                                  (main.join("app.lua"), decls(&[(Kind::Class, "App")], &["app_g"], Some("{ app = true }"))),
                                  (main.join("src/silent.lua"), decls(&[(Kind::Alias, "SilentAlias")], &["silent_g"], None))];
            let lib_files = vec![(lib.join("libmod.lua"), decls(&[(Kind::Class, "LibOnly")], &["lib_only_g"], Some("{ lib = true }")))];
            emmyrc(&main, &[lib]);
            out.push(Workspace { name: "symlink-inside-root", roots: vec![main.clone()], main_files, lib_files, links: vec![format!("{} -> {}", main.join("compat").display(), main.join("src").display())] });
        }
        // ---- a second main root that is a symlink to a directory of the first
        #[cfg(unix)]
        {
            let b = base.join("aliased_root");
            let (main, alias) = (b.join("project"), b.join("project_src"));
            let mut m = decls(&[(Kind::Class, "Engine"), (Kind::Enum, "EngineState")], &["ENGINE_VERSION"], Some("{ start = 1 }"));
            filler(&mut rng, "Ra", &mut m);
            let main_files = vec![(main.join("src/engine.lua"), m), (main.join("top.lua"), decls(&[(Kind::Class, "Top")], &["top_g"], Some("{ top = true }")))];
            emmyrc(&main, &[]);
            out.push(Workspace { name: "symlinked-second-root", roots: vec![main.clone(), alias.clone()], main_files, lib_files: vec![], links: vec![format!("{} -> {}", alias.display(), main.join("src").display())] });
        }
        for ws in &out {
            for (p, d) in ws.main_files.iter().chain(&ws.lib_files) { write(p, &d.text()); }
        }
        #[cfg(unix)]
        for ws in &out {
            for l in &ws.links {
                let (link, target) = l.split_once(" -> ").expect("link");
                if let Err(e) = std::os::unix::fs::symlink(target, link) { undecided(format!("cannot create the symlink {l}: {e}")); }
            }
        }
        out
    }

    fn canon(p: &str) -> PathBuf { Path::new(p).canonicalize().unwrap_or_else(|_| PathBuf::from(p)) }

    /// FOUND / KNOWN lines for one export of one workspace
    fn check_export(ws: &Workspace, doc: &Value, found: &mut Vec<String>, known: &mut Vec<String>) {
        let tag = ws.name;
        // ---- types
        let mut want: BTreeMap<String, usize> = BTreeMap::new();
        for (_, d) in &ws.main_files {
            let mut here = BTreeSet::new();
            for (k, n) in &d.types {
                if !here.insert(n.clone()) { continue; }
                let e = want.entry(n.clone()).or_insert(0);
                if *k == Kind::PrivateClass { *e += 1; } else { *e = 1; }
            }
        }
        let lib_only: BTreeSet<String> = ws.lib_files.iter().flat_map(|(_, d)| d.types.iter().map(|(_, n)| n.clone())).filter(|n| !want.contains_key(n)).collect();
        let got = names(doc, "types");
        for (n, k) in &want {
            let c = got.iter().filter(|g| *g == n).count();
            if c != *k { found.push(format!("FOUND[exactly-once] {tag}: type `{n}` is declared in the main workspace and listed {c} time(s), expected {k}")); }
        }
        for g in &got {
            if lib_only.contains(g) { found.push(format!("FOUND[from-library] {tag}: type `{g}` is declared only in a library")); }
            else if !want.contains_key(g) { found.push(format!("FOUND[from-library] {tag}: type `{g}` is listed but no main file declares it (std library?)")); }
        }
        for t in doc.get("types").and_then(|t| t.as_array()).into_iter().flatten() {
            let mut seen = BTreeSet::new();
            for l in t.get("loc").and_then(|l| l.as_array()).into_iter().flatten() {
                let key = (canon(l.get("file").and_then(|f| f.as_str()).unwrap_or("")), l.get("line").and_then(|n| n.as_u64()).unwrap_or(0));
                if !seen.insert(key.clone()) {
                    found.push(format!("FOUND[exactly-once] {tag}: type `{}`: the declaration at {}:{} is listed twice inside the entry (loc = {})", t.get("name").and_then(|n| n.as_str()).unwrap_or("?"), key.0.display(), key.1, t.get("loc").map(|l| l.to_string()).unwrap_or_default()));
                }
            }
        }
        // ---- globals
        let want_g: BTreeSet<String> = ws.main_files.iter().flat_map(|(_, d)| d.globals.iter().cloned()).collect();
        let lib_g: BTreeSet<String> = ws.lib_files.iter().flat_map(|(_, d)| d.globals.iter().cloned()).collect();
        let got = names(doc, "globals");
        for n in &want_g {
            let c = got.iter().filter(|g| *g == n).count();
            if c != 1 { found.push(format!("FOUND[exactly-once] {tag}: global `{n}` is assigned in one main file and listed {c} time(s)")); }
        }
        for g in &got {
            if lib_g.contains(g) { found.push(format!("FOUND[from-library] {tag}: global `{g}` comes from a library")); }
            else if !want_g.contains(g) { found.push(format!("FOUND[from-library] {tag}: global `{g}` is listed but no main file assigns it (std library?)")); }
        }
        // ---- modules, by FILE
        let mut by_file: BTreeMap<PathBuf, Vec<String>> = BTreeMap::new();
        for m in doc.get("modules").and_then(|m| m.as_array()).into_iter().flatten() {
            let f = m.get("file").and_then(|f| f.as_str()).unwrap_or("");
            by_file.entry(canon(f)).or_default().push(format!("{} ({f})", m.get("name").and_then(|n| n.as_str()).unwrap_or("?")));
        }
        let mut silent = Vec::new();
        for (p, d) in &ws.main_files {
            let listed = by_file.remove(&canon(&p.to_string_lossy())).unwrap_or_default();
            match (d.ret.is_some(), listed.len()) {
                (_, 1) => {}
                (false, 0) => silent.push(p.file_name().map(|f| f.to_string_lossy().to_string()).unwrap_or_default()),
                (true, 0) => found.push(format!("FOUND[module-missing] {tag}: module file {} returns a value and is not listed in `modules`", p.display())),
                (_, n) => found.push(format!("FOUND[exactly-once] {tag}: module file {} is listed {n} times: {}", p.display(), listed.join(", "))),
            }
        }
        if !silent.is_empty() { known.push(format!("KNOWN module without export value not listed: workspace `{tag}`, file(s) {}", silent.join(", "))); }
        for (p, _) in &ws.lib_files {
            if let Some(l) = by_file.remove(&canon(&p.to_string_lossy())) { found.push(format!("FOUND[from-library] {tag}: library file {} is listed in `modules`: {}", p.display(), l.join(", "))); }
        }
        for (f, l) in by_file { found.push(format!("FOUND[from-library] {tag}: `modules` lists {} which is not a file of the main workspace: {}", f.display(), l.join(", "))); }
    }

    pub fn run(seed: u64, runs: usize) -> ! {
        let t0 = std::time::Instant::now();
        let runs = runs.max(2);
        let base = std::env::temp_dir().join(format!("vr_c35s_{}", std::process::id()));
        let _ = std::fs::remove_dir_all(&base);
        if std::fs::create_dir_all(&base).is_err() { undecided(format!("cannot create {base:?}")); }
        let base = base.canonicalize().unwrap_or(base);
        let me = std::env::current_exe().unwrap_or_else(|e| undecided(format!("current_exe: {e}")));
        let (mut found, mut known): (Vec<String>, Vec<String>) = (Vec::new(), Vec::new());
        let mut all = generate(&base, seed);
        if cfg!(not(unix)) { println!("note: not a unix system: the two symlink workspaces are skipped"); }
        let mut summary = Vec::new();
        for ws in all.drain(..) {
            let mut outs: Vec<Vec<u8>> = Vec::new();
            for i in 0..runs {
                let out = base.join(format!("{}_{i}.json", ws.name));
                let mut cmd = std::process::Command::new(&me);
                cmd.arg("child").arg(&ws.roots[0]).arg(&out);
                for r in &ws.roots[1..] { cmd.arg(r); }
                let st = cmd.stdout(std::process::Stdio::null()).stderr(std::process::Stdio::null()).status();
                if !st.as_ref().is_ok_and(|s| s.success()) { undecided(format!("export {i} of workspace `{}` failed: {st:?}", ws.name)); }
                outs.push(std::fs::read(&out).unwrap_or_else(|e| undecided(format!("no export written: {e}"))));
            }
            let docs: Vec<Value> = outs.iter().map(|b| serde_json::from_slice(b).unwrap_or(Value::Null)).collect();
            let n0 = found.len();
            check_export(&ws, &docs[0], &mut found, &mut known);
            if !ws.links.is_empty() && found.len() > n0 { found.push(format!("      (workspace `{}` has the symlink {})", ws.name, ws.links.join(", "))); }
            for i in 1..runs {
                if outs[i] == outs[0] { continue; }
                let mut order = false;
                for key in ["types", "modules", "globals"] {
                    let (x, y) = (names(&docs[0], key), names(&docs[i], key));
                    if x != y { order = true; found.push(format!("FOUND[order] {}: export 0 / export {i}: `{key}` of the same workspace in different orders\n  export 0: {x:?}\n  export {i}: {y:?}", ws.name)); }
                }
                if !order {
                    // same names in the same order: entries that share a name may still have swapped places
                    let at = first_diff(&docs[0], &docs[i], "$".into()).unwrap_or_else(|| "(formatting only)".into());
                    let swapped = first_diff(&normalized(&docs[0]), &normalized(&docs[i]), "$".into()).is_none();
                    found.push(format!("FOUND[{}] {}: export 0 / export {i} of the same workspace differ at {at}{}", if swapped { "order" } else { "entry-bytes" }, ws.name,
                        if swapped { " (the same entries, entries with one name in a different order)" } else { "" }));
                }
                break;
            }
            summary.push(format!("{} ({} main files, {} library files, {} bytes)", ws.name, ws.main_files.len(), ws.lib_files.len(), outs[0].len()));
        }
        for k in &known { println!("{k}"); }
        for f in &found { println!("{f}"); }
        let _ = std::fs::remove_dir_all(&base);
        let secs = t0.elapsed().as_secs_f32();
        let hits = found.iter().filter(|f| f.starts_with("FOUND")).count();
        if hits == 0 {
            println!("OK C35 search seed {seed}: {} workspaces x {runs} exports in child processes: byte-identical; every main item exactly once, nothing from libraries / std: {} ({secs:.1}s)", summary.len(), summary.join("; "));
            std::process::exit(0);
        }
        println!("{hits} violation(s) of C35 on generated workspaces: {} ({secs:.1}s)", summary.join("; "));
        std::process::exit(1);
    }
}
