//! C35 replay: "The JSON documentation export lists every class, enum, alias, global and module declared in the main
//! workspace exactly once, and nothing from libraries or the standard library. Exporting the same workspace twice gives
//! byte-identical output" — on the REAL `emmylua_doc_cli::run_doc_cli` (JSON generator: json_generator::export::export).
//!
//!   replay [runs]                 writes a small workspace (main: 8 classes one per module file, 2 enums + 2 aliases in a
//!                                 file that returns nothing, two file-private classes with the SAME name in two files, 12
//!                                 globals, 16 module files; library: a class, an alias, two globals), then starts itself
//!                                 `runs` times (default 4) as a CHILD PROCESS, each child exporting the same workspace to
//!                                 its own doc.json (a new process = a new random seed of hashbrown's default hasher).
//!                                 Checks, each reported as `FOUND[<clause>] ...`:
//!                                   [order]            the names in `types` / `modules` / `globals` come in different orders
//!                                   [entry-bytes]      with the three lists brought into one order the files still differ: first
//!                                                      differing JSON path (nondeterminism INSIDE an entry)
//!                                   [exactly-once]     a main-workspace class / enum / alias / global is missing or listed twice
//!                                   [from-library]     a library item is listed
//!                                   [module-missing]   a main-workspace module file is not listed (literal reading of the property)
//!                                 exit 1 when anything was found, 0 otherwise.
//!   replay child <ws> <out.json>  one export (what `emmylua_doc_cli <ws> -f json -o <out.json>` does)
//! Decides nothing: a hit is a concrete workspace on which the real exporter violates the sentence.
use emmylua_doc_cli::{CmdArgs, Parser, run_doc_cli};
use serde_json::Value;
use std::path::{Path, PathBuf};

fn write(p: &Path, s: &str) {
    if let Some(d) = p.parent() { std::fs::create_dir_all(d).expect("mkdir"); }
    std::fs::write(p, s).expect("write");
}

const CLASSES: [&str; 8] = ["Apple", "Banana", "Cherry", "Damson", "Elder", "Fig", "Grape", "Hazel"];
const GLOBALS: [&str; 8] = ["g_alpha", "g_beta", "g_gamma", "g_delta", "g_eps", "g_zeta", "g_eta", "g_theta"];

fn make_workspace(root: &Path) -> PathBuf {
    let main = root.join("main");
    let lib = root.join("lib");
    for (i, c) in CLASSES.iter().enumerate() {
        // one class per module file; the module returns a table => it "exports a value"
        write(&main.join(format!("mod_{}.lua", c.to_lowercase())),
              &format!("---@class {c}\n---@field n{i} integer\nlocal {c} = {{}}\n\n{g} = {i}\n\nreturn {c}\n", g = GLOBALS[i]));
    }
    // enums / aliases, in a file that returns NOTHING (a module without export value)
    write(&main.join("kinds.lua"),
          "---@enum Colour\nlocal Colour = { Red = 1, Green = 2, Blue = 3 }\n\n---@enum Shape\nlocal Shape = { Dot = 1, Line = 2 }\n\n---@alias Ident string\n\n---@alias Count integer\n");
    // two file-private classes with the same full name (LuaTypeDeclId::File(file, "Dup")): a tie for any sort by name
    write(&main.join("priv_a.lua"), "---@class (private) Dup\n---@field a integer\nlocal Dup = {}\nreturn Dup\n");
    write(&main.join("priv_b.lua"), "---@class (private) Dup\n---@field b string\nlocal Dup = {}\nreturn Dup\n");
    // globals whose type cannot be inferred / is nil / is assigned twice / is a function
    write(&main.join("odd_globals.lua"), "g_unresolved = some_undefined_function()\ng_nil = nil\ng_twice = 1\ng_twice = 2\nfunction g_func() end\n");
    write(&main.join("sub/one.lua"), "return { x = 1 }\n");
    write(&main.join("sub/two.lua"), "return 42\n");
    write(&main.join("sub/three.lua"), "local t = { y = 2 }\nreturn t\n");
    // the library: nothing of this may be exported
    write(&lib.join("libmod.lua"), "---@class LibOnlyClass\nlocal L = {}\n\n---@alias LibOnlyAlias string\n\nlib_only_global = 1\nlib_only_global2 = { z = 1 }\n\nreturn L\n");
    write(&main.join(".emmyrc.json"), &format!("{{\"workspace\": {{\"library\": [{:?}]}}}}\n", lib.to_string_lossy()));
    main
}

fn names(v: &Value, key: &str) -> Vec<String> {
    v.get(key).and_then(|a| a.as_array()).map(|a| a.iter().map(|e| e.get("name").and_then(|n| n.as_str()).unwrap_or("?").to_string()).collect()).unwrap_or_default()
}

/// first path at which two JSON values differ
fn first_diff(a: &Value, b: &Value, path: String) -> Option<String> {
    match (a, b) {
        (Value::Object(x), Value::Object(y)) => {
            for (k, va) in x {
                match y.get(k) { Some(vb) => if let Some(d) = first_diff(va, vb, format!("{path}.{k}")) { return Some(d); }, None => return Some(format!("{path}.{k} (missing)")) }
            }
            if x.len() != y.len() { return Some(format!("{path} (different keys)")); }
            None
        }
        (Value::Array(x), Value::Array(y)) => {
            if x.len() != y.len() { return Some(format!("{path} (lengths {} / {})", x.len(), y.len())); }
            for (i, (va, vb)) in x.iter().zip(y).enumerate() { if let Some(d) = first_diff(va, vb, format!("{path}[{i}]")) { return Some(d); } }
            None
        }
        _ => if a == b { None } else { Some(format!("{path}: {a} / {b}")) },
    }
}

/// the document with `types` / `modules` / `globals` sorted by (name, loc / file)
fn normalized(v: &Value) -> Value {
    let mut v = v.clone();
    for key in ["types", "modules", "globals"] {
        if let Some(a) = v.get_mut(key).and_then(|a| a.as_array_mut()) {
            a.sort_by_key(|e| (e.get("name").map(|n| n.to_string()).unwrap_or_default(),
                               e.get("loc").map(|n| n.to_string()).unwrap_or_default(), e.get("file").map(|n| n.to_string()).unwrap_or_default()));
        }
    }
    v
}

fn check_names(run: usize, what: &str, got: &[String], want: &[(&str, usize)], library: &[&str], bad: &mut bool) {
    for (n, k) in want {
        let c = got.iter().filter(|g| g == n).count();
        if c != *k { println!("FOUND[exactly-once] run {run}: {what} `{n}` listed {c} time(s), expected {k}"); *bad = true; }
    }
    for g in got {
        if library.contains(&g.as_str()) { println!("FOUND[from-library] run {run}: {what} `{g}` comes from the library"); *bad = true; }
        else if !want.iter().any(|(n, _)| n == g) { println!("FOUND[exactly-once] run {run}: unexpected {what} `{g}`"); *bad = true; }
    }
}

fn main() {
    let a: Vec<String> = std::env::args().skip(1).collect();
    if a.first().map(|s| s.as_str()) == Some("child") {
        let args = CmdArgs::parse_from(["emmylua_doc_cli", a[1].as_str(), "-f", "json", "-o", a[2].as_str()]);
        if let Err(e) = run_doc_cli(args) { eprintln!("export failed: {e}"); std::process::exit(3); }
        return;
    }
    let runs: usize = a.first().and_then(|s| s.parse().ok()).unwrap_or(4).max(2);
    let root = std::env::temp_dir().join(format!("vr_c35_{}", std::process::id()));
    let _ = std::fs::remove_dir_all(&root);
    let ws = make_workspace(&root);
    let me = std::env::current_exe().expect("current_exe");
    let mut outs: Vec<Vec<u8>> = Vec::new();
    for i in 0..runs {
        let out = root.join(format!("out{i}.json"));
        let st = std::process::Command::new(&me).arg("child").arg(&ws).arg(&out)
            .stdout(std::process::Stdio::null()).stderr(std::process::Stdio::null()).status().expect("spawn child");
        if !st.success() { println!("UNDECIDED child {i} failed: {st:?}"); std::process::exit(2); }
        outs.push(std::fs::read(&out).expect("read export"));
    }
    let docs: Vec<Value> = outs.iter().map(|b| serde_json::from_slice(b).expect("json")).collect();
    let mut bad = false;
    // (a) exactly once / nothing from libraries (run 0 is enough: the SET of entries does not depend on the order)
    let want_t: Vec<(&str, usize)> = CLASSES.iter().map(|c| (*c, 1)).chain([("Colour", 1), ("Shape", 1), ("Ident", 1), ("Count", 1), ("Dup", 2)]).collect();
    check_names(0, "type", &names(&docs[0], "types"), &want_t, &["LibOnlyClass", "LibOnlyAlias"], &mut bad);
    let want_g: Vec<(&str, usize)> = GLOBALS.iter().map(|g| (*g, 1)).chain([("g_unresolved", 1), ("g_nil", 1), ("g_twice", 1), ("g_func", 1)]).collect();
    check_names(0, "global", &names(&docs[0], "globals"), &want_g, &["lib_only_global", "lib_only_global2"], &mut bad);
    let mods: Vec<String> = CLASSES.iter().map(|c| format!("mod_{}", c.to_lowercase()))
        .chain(["kinds", "priv_a", "priv_b", "odd_globals", "sub.one", "sub.two", "sub.three"].map(String::from)).collect();
    let got_m = names(&docs[0], "modules");
    for m in &mods {
        let c = got_m.iter().filter(|g| *g == m).count();
        if c == 0 { println!("FOUND[module-missing] module file `{m}` of the main workspace is not listed in `modules`"); bad = true; }
        else if c > 1 { println!("FOUND[exactly-once] module `{m}` listed {c} times"); bad = true; }
    }
    for g in &got_m {
        if g == "libmod" { println!("FOUND[from-library] module `{g}` comes from the library"); bad = true; }
        else if !mods.contains(g) { println!("FOUND[exactly-once] unexpected module `{g}`"); bad = true; }
    }
    // (b) reproducibility across processes
    for i in 1..runs {
        if outs[i] == outs[0] { continue; }
        bad = true;
        let mut order = false;
        for key in ["types", "modules", "globals"] {
            let (x, y) = (names(&docs[0], key), names(&docs[i], key));
            if x != y { order = true; println!("FOUND[order] run 0 / run {i}: `{key}` of the same workspace in different orders\n  run 0: {x:?}\n  run {i}: {y:?}"); }
        }
        // compare the ENTRIES irrespective of the order of the three lists (sorted by name, then location)
        if let Some(d) = first_diff(&normalized(&docs[0]), &normalized(&docs[i]), "$".into()) {
            println!("FOUND[entry-bytes] run 0 / run {i}: with the three lists brought into the same order, the exports still differ at {d}");
        } else if !order {
            println!("FOUND[entry-bytes] run 0 / run {i}: same entries in the same order, but different bytes (formatting)");
        }
    }
    if !bad { println!("OK {runs} exports of the same workspace are byte-identical ({} bytes); every main-workspace item is listed once, nothing from the library", outs[0].len()); }
    let _ = std::fs::remove_dir_all(&root);
    std::process::exit(if bad { 1 } else { 0 });
}
