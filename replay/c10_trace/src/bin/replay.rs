//! C10 bounded witness search (whole database): "Once a file is removed from the analysis, either deleted or closed
//! when it is not on disk, no result refers to it ... Its memory is also released."
//!
//!   replay search [seed] [count] [opts]     generated workspaces (default seed 1, 210 cases = 200 systematic + 10
//!                                           random); prints `FOUND ...` + the workspace and exits 1 on the first
//!                                           violation, exit 0 + one summary line otherwise
//!   replay case <k> [seed] [opts]           re-run generated case k: prints the workspace and every finding
//!   replay dir <dir> [batch|seq] [opts]     a hand-written workspace (<dir>/*.lua, <dir>/lib/*.lua)
//!   replay list                             the building blocks
//!   opts: --known <file>   findings listed in the file are printed as KNOWN instead of FOUND and do not fail
//!                          (format: see `load_known`; example: known_open_findings.txt next to Cargo.toml; default: none)
//!         --strict         STALE-DEPENDENT and RESTORE-DIFF lines fail too
//!         --all            do not stop at the first violation; print every distinct finding once
//!         --ignore <s>     drop every field whose dotted path contains <s> (exploration only)
//! exit 2 = a scenario could not be set up (no uri / file id / module, the analysis panicked, dump shape unknown).
//!
//! Decides nothing: a hit is a concrete history of public-API calls on the REAL crate after which the real database
//! still mentions a removed file.  Needs no hook: `DbIndex` and every index derive `Debug`; the oracles read the pretty
//! `{:#?}` dump of `analysis.compilation.get_db()`.
//!
//! Canonical form of a dump: every `X {\n id: N,\n }` triple is collapsed to `X(N)` (a file id is the single token
//! `FileId(N)`), the indented text is parsed back into a tree (struct / tuple / list / set / map entry), children of
//! collections are compared as multisets (hash order does not matter), every finding carries `index.field`.
//!
//! Oracles, for a file F with id N (F = every file of the workspace in turn, each on a freshly built analysis):
//!   TRACE     after `remove_file_by_uri(F)`: no line of the dump contains `FileId(N)`, no line of `vfs.file_id_map` /
//!             `vfs.file_path_map` carries N, no line contains F's path / uri, and no line contains F's MARKER: text
//!             that only F contains (`MKAAZ`.. in its doc comments, deprecation messages, @see).  A remote document
//!             is first closed with `update_remote_file_by_uri(uri, None)`: same check, minus `vfs.remote_file_id_map`.
//!   Where F lives: under the workspace root; or (24 systematic cases + 1/4 of the random ones) outside every root,
//!             an `untitled:` / custom-scheme document submitted with `update_remote_file_by_uri`, or an `untitled:`
//!             uri submitted with `update_file_by_uri` (see `Reloc`) -- none of these has a module entry.
//!   NEVER-HAD analyse the workspace without F; add F; remove F: the dump equals the one before adding F.
//!   GROWTH    all files analysed; remove F; 5 x (add F; remove F): the dump after round 1 and after round 5 equals
//!             the one after the first removal (ids F has had are unified), TRACE holds for every id F received.
//!   RESTORE   (C08 flavour, mode batch only) remove F; add F again: the dump equals the one before the removal, the
//!             new id renamed to the old one.
//!   TRACE-REANALYSED  when a removal left stale dependents: re-submit every remaining file (3 passes); nothing may
//!             name F any more.
//! Classes:
//!   Leak (FOUND, fails)      state the removed file contributed that survives its removal, or state of other files
//!                            that the add/remove destroyed or changed
//!   StaleDependent (printed, counted, fails only with --strict)   a fact that belongs to a file that is still present
//!                            and mentions F (`remove_file_by_uri` does not re-analyse dependents): see `Walk`
//!   RestoreDiff (same)       every RESTORE difference: on the real code they are stale dependents that accumulate and
//!                            order-dependent inference; leaks proper are caught by the other oracles
//! Findings also carry a kind: Line (TRACE), Loss (entry absent afterwards), Gain (entry only there afterwards), Changed
//! (entry present before and after with a different content).  A `--known` pattern that starts with `- ` pins a pure
//! Loss, one that starts with `+ ` a pure Gain; neither matches a Changed entry.
//! Places that legitimately differ, dropped from the tree before any oracle looks at it, each by exact field (none of
//! them can hold a file id; the marker oracle therefore does not see the interner either):
//!   vfs.file_data  elements `None,`       the id allocator: an id is an index into this vector and is never reused, a
//!                                         removed file leaves its (empty) slot
//!   modules_index.id_counter, property_index.id_count      monotonic id allocators
//!   vfs.node_cache                        rowan's green-node interner shared by all parses (tokens / small nodes, no file
//!                                         ids); it never shrinks -- an observation, not searched
//!   for RESTORE only (two allocation histories): numbers inside LuaPropertyId(..) / ModuleNodeId(..) are masked and
//!   the bare u32 ids of vfs.file_id_map / vfs.file_path_map are renamed new -> old; NEVER-HAD and GROWTH compare
//!   states of one analysis, where a surviving entry keeps its id -- that is what pairs a changed entry.
use emmylua_code_analysis::{EmmyLuaAnalysis, Emmyrc, FileId, file_path_to_uri};
use lsp_types::Uri;
use std::path::PathBuf;
use std::str::FromStr;
use std::sync::Arc;

const ROOT: &str = "/vp_c10t";
const FILE_NAMES: [&str; 4] = ["a.lua", "b.lua", "lib/c.lua", "d.lua"];
const MODULE_NAMES: [&str; 4] = ["a", "b", "lib.c", "d"];

// ------------------------------------------------------------------------------------------------ building blocks
/// One role of a block: `head` goes to the top of the file (file-level tags), `body` into the file body.
/// `{m0}`, `{m1}`, `{m2}` are replaced by the module name of the file that received role 0 / 1 / 2.
struct Part {
    head: &'static str,
    body: &'static str,
}
struct Block {
    name: &'static str,
    parts: &'static [Part],
}
const fn p(body: &'static str) -> Part {
    Part { head: "", body }
}

const BLOCKS: &[Block] = &[
    Block { name: "partial-class-two-supers", parts: &[
        p("--- partial doc {mk}\n---@class (partial) PA: PSuper0\n---@field px integer\nlocal PA = {}\nfunction PA.p0() end\n"),
        p("--- other half {mk}\n---@class (partial) PA: PSuper1\n---@field py string\nlocal PA2 = {}\n---@type PA\nlocal pa_inst\nlocal pa_b0 = pa_inst.base0\nlocal pa_px = pa_inst.px\n"),
        p("---@class PSuper0\n---@field base0 integer\n---@class PSuper1\n---@field base1 integer\n"),
    ] },
    Block { name: "duplicate-class-two-supers", parts: &[
        p("---@class DA: DSuper0\n---@field dx integer\n"),
        p("--- dup doc {mk}\n---@class DA: DSuper1\n---@field dy string\n---@class DSuper0\n---@field dbase0 integer\n---@class DSuper1\n---@field dbase1 integer\n---@type DA\nlocal da_inst\nlocal da_v = da_inst.dbase0\n"),
    ] },
    Block { name: "alias-enum-generic", parts: &[
        p("---@alias AL1 integer|string\n---@alias AL2\n---| \"al_a\" # first\n---| \"al_b\"\n---@enum EN1\nEN1 = { A = 1, B = 2 }\n---@enum (key) EN2\nlocal EN2 = { k1 = 1, k2 = 2 }\n---@class GC<T>\n---@field v T\n---@generic T\n---@param x T\n---@return GC<T>\nfunction mkgc(x) end\n"),
        p("---@type AL1\nlocal al\n---@type AL2\nlocal al2 = \"al_a\"\n---@type EN1\nlocal en = EN1.A\n---@type GC<integer>\nlocal g = mkgc(1)\nlocal gv = g.v\n---@class GD<K>: GC<K>\n---@field w K\n"),
    ] },
    Block { name: "members-global-class", parts: &[
        p("---@class MC\nMC = {}\nfunction MC.f() return 1 end\nMC.x = 1\n---@param self MC\nfunction MC:m0() return self.y end\n"),
        p("function MC.g() return \"s\" end\nMC.y = \"s\"\nfunction MC:h() return self.x end\nMC.x = 2\n"),
        p("local mc_x = MC.x\nlocal mc_y = MC.y\nlocal mc_f = MC.f()\nlocal mc_g = MC.g()\n"),
    ] },
    Block { name: "members-doc-fields", parts: &[
        p("---@class FC\n---@field fa integer\n---@field fm fun(a: integer): string\n---@field [string] boolean\n"),
        p("---@class FC\n---@field fb string\n---@field fa integer\n---@type FC\nlocal fc\nlocal fc_a = fc.fa\nlocal fc_b = fc.fb\nfc.late = 1\n"),
    ] },
    Block { name: "members-global-table", parts: &[
        p("GT = {}\nGT.a = 1\nfunction GT.m() end\nGT.sub = {}\nGT.sub.deep = 1\n"),
        p("GT.b = 2\nfunction GT.n() end\nGT.sub.other = \"x\"\nlocal gt_a = GT.a\n"),
    ] },
    Block { name: "operator-overload", parts: &[
        p("---@class OP\n---@operator add(OP): OP\n---@operator call(integer): string\n---@overload fun(a: integer): OP\nlocal OP = {}\n---@overload fun(a: string): OP\n---@param a integer\n---@return OP\nfunction newop(a) end\n"),
        p("---@class OP\n---@operator sub(OP): OP\n---@operator unm: OP\n---@type OP\nlocal o\nlocal o_r = o + o\nlocal o_s = o(1)\nlocal o_t = o - o\nlocal o_n = newop(\"s\")\n"),
    ] },
    Block { name: "setmetatable", parts: &[
        p("---@class MT\nlocal MT = {}\nMT.__index = MT\nfunction MT.new() return setmetatable({}, MT) end\nGMT = setmetatable({ own = 1 }, MT)\n"),
        p("local mt_obj = setmetatable({}, { __index = GMT, __call = function() end })\nlocal mt_v = mt_obj.own\nGMT2 = setmetatable({}, { __index = GMT })\n"),
    ] },
    Block { name: "globals-same-name", parts: &[
        p("GV = 1\nfunction gfun() return 1 end\nGV2 = GV\n"),
        p("GV = \"s\"\nfunction gfun() return \"x\" end\nlocal gv_u = GV\nlocal gv_r = gfun()\n"),
        p("local gv_3 = GV\nGV = true\n"),
    ] },
    Block { name: "require", parts: &[
        p("M.rq_val = 1\nfunction M.rq_fn() return 1 end\n---@class RqT\n---@field rq_f integer\nM.rq_t = {} ---@type RqT\n"),
        p("local rq = require(\"{m0}\")\nlocal rq_v = rq.rq_val\nlocal rq_f = rq.rq_fn()\nlocal rq_t = rq.rq_t\nM.re_export = rq\nM.re_val = rq.rq_val\n"),
        p("local rq2 = require(\"{m1}\")\nlocal rq2_v = rq2.re_export.rq_val\nlocal rq2_w = rq2.re_val\n"),
    ] },
    Block { name: "meta-module", parts: &[
        Part { head: "---@meta\n", body: "---@class MetaC\n---@field mf integer\nMetaG = {}\nfunction MetaG.mfn() end\n" },
        p("---@module \"{m0}\"\nlocal mm\nlocal mm_v = mm\n---@type MetaC\nlocal mc\nlocal mc_f = mc.mf\nMetaG.extra = 1\n"),
    ] },
    Block { name: "namespace-using", parts: &[
        Part { head: "---@namespace NS1\n", body: "---@class NC\n---@field nf integer\n---@alias NAl string\n" },
        Part { head: "---@using NS1\n", body: "---@type NC\nlocal nc\nlocal nc_f = nc.nf\n---@type NS1.NC\nlocal nc2\n---@class NSub: NC\n" },
        Part { head: "---@namespace NS1\n", body: "---@class (partial) NC\n---@field ng string\n" },
    ] },
    Block { name: "labels-goto", parts: &[
        p("do\n  goto done\n  local lq = 1\n  ::done::\nend\n"),
        p("for li = 1, 2 do\n  if li then goto continue end\n  ::continue::\nend\n"),
    ] },
    Block { name: "diagnostic-comments", parts: &[
        p("---@diagnostic disable: undefined-global\n---@diagnostic disable-next-line: unused\nlocal unused_1 = undefined_g1\n---@type NoSuchType1\nlocal nst\n"),
        p("---@diagnostic disable-next-line\nlocal dx2 = undefined_g2\n---@diagnostic enable: undefined-global\n---@diagnostic disable: unused\n---@class Dup1\n---@class Dup1\n"),
    ] },
    Block { name: "string-literal-see", parts: &[
        p("---@param x \"lit_a\"|\"lit_b\"\nfunction strfun(x) end\n---@see strfun\n---@see MC#x\nlocal function seefn() end\n---@alias LitAl \"lit_a\"|\"lit_c\"\n"),
        p("strfun(\"lit_a\")\n---@see strfun\nlocal s2 = \"lit_b\"\n---@type LitAl\nlocal la = \"lit_c\"\n---@param y \"lit_a\"\nlocal function strfun2(y) end\n"),
    ] },
    Block { name: "local-type-bindings", parts: &[
        p("---@type integer\nlocal ti = 1\nlocal tj = ti\n---@type fun(a: integer): string\nlocal tf\n---@class LT\n---@field lf integer\n---@return LT\nfunction mklt() end\n"),
        p("---@type LT\nlocal lt\nlocal lt_f = lt.lf\nlocal lt2 = mklt()\nlocal lt2_f = lt2.lf\n---@type { a: integer, b: LT }\nlocal obj\n---@type table<string, LT>\nlocal tbl\n---@type [integer, LT]\nlocal tup\n---@cast lt LT?\n"),
    ] },
    Block { name: "properties", parts: &[
        p("---@class PR\nPR = {}\n---@deprecated {mk} use other\n---@nodiscard\n---@async\n---@return integer\nfunction PR.dep() end\n---@private\nPR.priv = 1\n---@version >5.1\n---@source file:///x.c#10\nfunction PR.ver() end\n"),
        p("--- description of more {mk}\n---@protected\nfunction PR.more() end\n---@deprecated\nPR.old = 1\nlocal pr_d = PR.dep()\nlocal pr_o = PR.old\n---@readonly\nPR.ro = 1\n"),
    ] },
    Block { name: "closures-and-calls", parts: &[
        p("---@param cb fun(a: integer): string\nfunction takes_cb(cb) end\n---@generic T\n---@param f fun(): T\n---@return T\nfunction run(f) return f() end\nlocal function lf1() return 1 end\nlocal lf2 = function() return lf1() end\n"),
        p("takes_cb(function(a) return \"s\" end)\nlocal r1 = run(function() return 1 end)\nlocal function lf3() return r1 end\nlocal r2 = run(lf3)\n"),
    ] },
    Block { name: "inherit-across-files", parts: &[
        p("---@class IBase\n---@field ib integer\nIBase = {}\nfunction IBase:base_m() return self.ib end\n"),
        p("---@class IDer: IBase\n---@field id_ string\nIDer = {}\nfunction IDer:der_m() return self:base_m() end\n---@type IDer\nlocal ider\nlocal ider_b = ider.ib\n"),
        p("---@class IDer2: IDer\n---@type IDer2\nlocal ider2\nlocal ider2_b = ider2.ib\nlocal ider2_m = ider2:der_m()\n"),
    ] },
    Block { name: "shared-type-property", parts: &[
        p("--- widget base {mk}\n---@class (partial) SP\n---@field sid integer\n--- alias doc {mk}\n---@alias SPA integer\n"),
        p("---@deprecated {mk} use SP2\n--- extension notes {mk}\n---@see SP2 {mk}\n---@class (partial) SP\n---@field sextra string\n"),
        p("---@type SP\nlocal sp_w\n---@type SPA\nlocal sp_a\n"),
    ] },
    Block { name: "globals-repeated-in-one-file", parts: &[
        p("function rg_f() RFlag = 1 end\nfunction rg_g() RFlag = 2 end\nRTop = 1\nRTop = 2\ndo RTop = 3 end\nfunction rg_k() RTop = 4 end\n"),
        p("RFlag = 5\nlocal rg_u = RFlag\nfunction rg_h() RFlag = 6 end\nfunction rg_i() RFlag = 7 RNew = 1 end\nfunction rg_j() RNew = 2 end\n"),
    ] },
    Block { name: "self-return-types", parts: &[
        p("local SR = {}\nfunction SR.make() return { v = 1, w = { z = 2 } } end\nfunction SR.tbl() return SR end\nM.sr = SR\nGSR = SR\n"),
        p("local sr_t = GSR.make()\nlocal sr_v = sr_t.v\nlocal sr_z = sr_t.w.z\nlocal sr_s = GSR.tbl()\nGSR.added = sr_t\n"),
    ] },
];

// --------------------------------------------------------------------------------------------------- generation
#[derive(Clone, Copy)]
struct Rng(u64);
impl Rng {
    fn next(&mut self) -> u64 {
        // splitmix64
        self.0 = self.0.wrapping_add(0x9E37_79B9_7F4A_7C15);
        let mut z = self.0;
        z = (z ^ (z >> 30)).wrapping_mul(0xBF58_476D_1CE4_E5B9);
        z = (z ^ (z >> 27)).wrapping_mul(0x94D0_49BB_1331_11EB);
        z ^ (z >> 31)
    }
    fn below(&mut self, n: usize) -> usize {
        (self.next() % n as u64) as usize
    }
}

#[derive(Clone, Copy, PartialEq, Debug)]
enum Mode {
    /// all files handed to the vfs, then one `update_index` over all ids in the given order (workspace load)
    Batch,
    /// `update_file_by_uri` one file after the other (files opened one by one)
    Seq,
}

/// where a file lives: `name` of a file entry is `x.lua` (under the main workspace root), `outside:x.lua` (a path
/// outside every root: analysed, no module entry), `untitled:Name` / `remote:x.lua` (a document without a path,
/// submitted with `update_remote_file_by_uri`: analysed in the REMOTE workspace, no module entry) or
/// `plain-untitled:Name` (an `untitled:` uri submitted with `update_file_by_uri`: it only ever lives in the vfs, the
/// analyzer skips it; random cases only).  The module name of all of these is "" (none expected).
#[derive(Clone, Copy, PartialEq, Debug)]
enum Reloc {
    Outside,
    Untitled,
    Remote,
    PlainUntitled,
}
const MARKERS: [&str; 4] = ["MKAAZ", "MKBBZ", "MKCCZ", "MKDDZ"];

struct Case {
    k: usize,
    mode: Mode,
    /// (file name, module name, text) in analysis order
    files: Vec<(String, String, String)>,
    /// per file: text that only this file contains (in doc comments), "" = none
    markers: Vec<String>,
    /// description: block name -> role placement
    desc: String,
}

/// place `blocks[i]`'s roles on the files given by `placement[i]` (one file slot per role), build the texts
fn build_case(k: usize, mode: Mode, n_files: usize, chosen: &[(usize, Vec<usize>)], order: &[usize], reloc: Option<(usize, Reloc)>) -> Case {
    let mut heads: Vec<Vec<&'static str>> = vec![Vec::new(); n_files];
    let mut bodies: Vec<String> = vec![String::new(); n_files];
    let mut desc = Vec::new();
    for (b, placement) in chosen {
        let block = &BLOCKS[*b];
        let mut d = format!("{}[", block.name);
        for (role, slot) in placement.iter().enumerate() {
            let part = &block.parts[role];
            if !part.head.is_empty() {
                let kind = part.head.split_whitespace().next().unwrap_or("");
                // one file-level tag of a kind per file
                if !heads[*slot].iter().any(|h| h.starts_with(kind)) {
                    heads[*slot].push(part.head);
                }
            }
            let mut body = part.body.to_string();
            for r in 0..3 {
                let slot_r = placement.get(r).copied().unwrap_or(placement[0]);
                body = body.replace(&format!("{{m{r}}}"), MODULE_NAMES[slot_r]);
            }
            body = body.replace("{mk}", MARKERS[*slot]);
            bodies[*slot].push_str(&body);
            d.push_str(&format!("{}{}", if role > 0 { "," } else { "" }, FILE_NAMES[*slot]));
        }
        d.push(']');
        desc.push(d);
    }
    let mut files = Vec::new();
    let mut markers = Vec::new();
    for &slot in order {
        let mut text = String::new();
        for h in &heads[slot] {
            text.push_str(h);
        }
        text.push_str("local M = {}\n");
        text.push_str(&bodies[slot]);
        text.push_str("return M\n");
        let stem = FILE_NAMES[slot].replace('/', "_");
        let (name, module) = match reloc {
            Some((s, Reloc::Outside)) if s == slot => (format!("outside:{stem}"), String::new()),
            Some((s, Reloc::Untitled)) if s == slot => (format!("untitled:Untitled-{}", MODULE_NAMES[slot]), String::new()),
            Some((s, Reloc::Remote)) if s == slot => (format!("remote:{stem}"), String::new()),
            Some((s, Reloc::PlainUntitled)) if s == slot => (format!("plain-untitled:Untitled-{}", MODULE_NAMES[slot]), String::new()),
            _ => (FILE_NAMES[slot].to_string(), MODULE_NAMES[slot].to_string()),
        };
        markers.push(if text.contains(MARKERS[slot]) { MARKERS[slot].to_string() } else { String::new() });
        files.push((name, module, text));
    }
    let names: Vec<String> = files.iter().map(|f| f.0.clone()).collect();
    Case { k, mode, files, markers, desc: format!("{mode:?} order={names:?} {}", desc.join(" ")) }
}

/// number of systematic (seed-independent) cases: every block alone x (roles on files in declaration order | reversed)
/// x (analysis order forward | backward) x (Batch | Seq)
fn n_systematic() -> usize {
    BLOCKS.len() * 8 + RELOC_BLOCKS.len() * 3
}
/// blocks that are also run with one file outside every root / as an `untitled:` document / as a remote document
const RELOC_BLOCKS: [&str; 8] = ["globals-same-name", "globals-repeated-in-one-file", "members-global-class", "partial-class-two-supers", "shared-type-property", "alias-enum-generic", "operator-overload", "properties"];

fn gen_case(seed: u64, k: usize) -> Case {
    if k >= BLOCKS.len() * 8 && k < n_systematic() {
        let r = k - BLOCKS.len() * 8;
        let b = BLOCKS.iter().position(|b| b.name == RELOC_BLOCKS[r / 3]).expect("reloc block");
        let roles = BLOCKS[b].parts.len();
        let n_files = roles.max(2);
        // Outside: the file of role 0, batch; Untitled: the file of role 1, batch; Remote: the file of role 0, seq
        let (kind, slot, mode) = [(Reloc::Outside, 0, Mode::Batch), (Reloc::Untitled, 1, Mode::Batch), (Reloc::Remote, 0, Mode::Seq)][r % 3];
        let order: Vec<usize> = (0..n_files).collect();
        return build_case(k, mode, n_files, &[(b, (0..roles).collect())], &order, Some((slot, kind)));
    }
    if k < n_systematic() {
        let b = k / 8;
        let v = k % 8;
        let roles = BLOCKS[b].parts.len();
        let n_files = roles.max(2);
        let mut placement: Vec<usize> = (0..roles).collect();
        if v & 1 == 1 {
            placement.reverse();
            // keep slot numbers within n_files and distinct
            let shift = n_files - roles;
            for s in placement.iter_mut() {
                *s += shift;
            }
        }
        let mut order: Vec<usize> = (0..n_files).collect();
        if v & 2 == 2 {
            order.reverse();
        }
        let mode = if v & 4 == 4 { Mode::Seq } else { Mode::Batch };
        return build_case(k, mode, n_files, &[(b, placement)], &order, None);
    }
    let mut rng = Rng(seed.wrapping_mul(0x2545_F491_4F6C_DD1D) ^ (k as u64).wrapping_mul(0xD6E8_FEB8_6659_FD93));
    rng.next();
    let n_files = 2 + rng.below(3);
    let n_blocks = 2 + rng.below(4);
    let mut chosen: Vec<(usize, Vec<usize>)> = Vec::new();
    for _ in 0..n_blocks {
        let b = rng.below(BLOCKS.len());
        if chosen.iter().any(|(c, _)| *c == b) {
            continue;
        }
        let roles = BLOCKS[b].parts.len().min(n_files);
        // random injection of roles into file slots
        let mut slots: Vec<usize> = (0..n_files).collect();
        for i in (1..slots.len()).rev() {
            slots.swap(i, rng.below(i + 1));
        }
        slots.truncate(roles);
        chosen.push((b, slots));
    }
    let mut order: Vec<usize> = (0..n_files).collect();
    for i in (1..order.len()).rev() {
        order.swap(i, rng.below(i + 1));
    }
    let mode = if rng.below(3) == 0 { Mode::Seq } else { Mode::Batch };
    let reloc = if rng.below(4) == 0 { Some((rng.below(n_files), [Reloc::Outside, Reloc::Untitled, Reloc::Remote, Reloc::PlainUntitled][rng.below(4)])) } else { None };
    build_case(k, mode, n_files, &chosen, &order, reloc)
}

// ------------------------------------------------------------------------------------------------------ canon
/// `X {` / `id: N,` / `}<rest>`  ->  `X(N)<rest>`; returns (depth, trimmed line)
fn collapse(dump: &str) -> Vec<(usize, String)> {
    let lines: Vec<&str> = dump.lines().collect();
    let mut out = Vec::with_capacity(lines.len());
    let mut i = 0;
    while i < lines.len() {
        let l = lines[i];
        let indent = l.len() - l.trim_start().len();
        if i + 2 < lines.len() && l.ends_with(" {") {
            let mid = lines[i + 1].trim();
            let last = lines[i + 2];
            let last_indent = last.len() - last.trim_start().len();
            if let Some(num) = mid.strip_prefix("id: ").and_then(|r| r.strip_suffix(',')) {
                if !num.is_empty() && num.bytes().all(|b| b.is_ascii_digit()) && last_indent == indent && last.trim_start().starts_with('}') {
                    let rest = &last.trim_start()[1..];
                    out.push((indent / 4, format!("{}({}){}", &l.trim_start()[..l.trim_start().len() - 2], num, rest)));
                    i += 3;
                    continue;
                }
            }
        }
        out.push((indent / 4, l.trim_start().to_string()));
        i += 1;
    }
    out
}

fn is_ident(s: &str) -> bool {
    !s.is_empty() && s.bytes().all(|b| b.is_ascii_alphanumeric() || b == b'_')
}

/// One segment of a group: an opener (or leaf) line and what it encloses.  `collection` = the opener is a bare
/// `{` / `[` (map, set, list: the children are independent facts), not `Name {` / `Name(` (one value).
#[derive(Clone, Debug)]
struct Seg {
    head: String,
    kids: Vec<Group>,
    collection: bool,
}
/// A leaf line, a `field: value`, a list element, or a map entry (`<key lines> }: <value lines>` = several segments).
#[derive(Clone, Debug)]
struct Group {
    segs: Vec<Seg>,
}

fn is_opener(t: &str) -> bool {
    t.ends_with('{') || t.ends_with('(') || t.ends_with('[')
}
fn is_collection_opener(t: &str) -> bool {
    if t.ends_with('[') {
        return true;
    }
    if let Some(pre) = t.strip_suffix('{') {
        let pre = pre.trim_end();
        return pre.is_empty() || pre.ends_with(':');
    }
    false
}

fn parse_groups(lines: &[(usize, String)], pos: &mut usize, depth: usize) -> Vec<Group> {
    let mut out = Vec::new();
    while *pos < lines.len() && lines[*pos].0 == depth {
        let mut head = lines[*pos].1.clone();
        *pos += 1;
        let mut g = Group { segs: Vec::new() };
        loop {
            if is_opener(&head) {
                let collection = is_collection_opener(&head);
                let kids = parse_groups(lines, pos, depth + 1);
                g.segs.push(Seg { head, kids, collection });
                if *pos < lines.len() && lines[*pos].0 == depth && lines[*pos].1.starts_with(['}', ')', ']']) {
                    let c = lines[*pos].1.clone();
                    *pos += 1;
                    if c[1..].starts_with(": ") {
                        head = c; // `}: value` -- the entry goes on
                        continue;
                    }
                }
                break;
            } else {
                // an empty map / set / list is printed inline (`field: {},`): the same opener as a filled one
                let trimmed = head.trim_end_matches(',');
                if trimmed.ends_with("{}") || trimmed.ends_with("[]") {
                    let opener = trimmed[..trimmed.len() - 1].to_string();
                    if is_collection_opener(&opener) {
                        g.segs.push(Seg { head: opener, kids: Vec::new(), collection: true });
                        break;
                    }
                }
                g.segs.push(Seg { head, kids: Vec::new(), collection: false });
                break;
            }
        }
        out.push(g);
    }
    out
}

impl Group {
    fn label(&self) -> Option<&str> {
        let h = &self.segs[0].head;
        let pos = h.find(": ")?;
        if is_ident(&h[..pos]) { Some(&h[..pos]) } else { None }
    }
    /// canonical single-line text (children of collections sorted)
    fn canon(&self) -> String {
        let mut s = String::new();
        for seg in &self.segs {
            if !s.is_empty() {
                s.push(' ');
            }
            s.push_str(&seg.head);
            if !seg.kids.is_empty() {
                let mut ks: Vec<String> = seg.kids.iter().map(|k| k.canon()).collect();
                if seg.collection {
                    ks.sort();
                }
                for k in ks {
                    s.push(' ');
                    s.push_str(&k);
                }
                s.push_str(" ^");
            }
        }
        s
    }
    /// what identifies the group among its siblings: the key of a map entry / the name of a field
    fn key(&self) -> Option<String> {
        if self.segs.len() > 1 {
            let last = self.segs.len() - 1;
            let keypart = Group { segs: self.segs[..last].to_vec() };
            return Some(keypart.canon());
        }
        let h = &self.segs[0].head;
        h.find(": ").map(|p| h[..p].to_string())
    }
    fn any_line(&self, f: &dyn Fn(&str) -> bool) -> bool {
        self.segs.iter().any(|s| f(&s.head) || s.kids.iter().any(|k| k.any_line(f)))
    }
}

fn mask_numbers(line: &str, name: &str) -> String {
    let pat = format!("{name}(");
    let mut out = String::new();
    let mut rest = line;
    while let Some(p) = rest.find(&pat) {
        out.push_str(&rest[..p + pat.len()]);
        let after = &rest[p + pat.len()..];
        let end = after.find(')').unwrap_or(0);
        out.push('#');
        rest = &after[end..];
    }
    out.push_str(rest);
    out
}

/// Drops / masks what legitimately differs (see the header); `rename` = (new id, old id) of the re-added file.
/// every id the removed file has had -> `FileId(dead)`: what other files still say about the removed file (stale
/// dependents) compares equal from round to round, only accumulation shows
fn unify_dead(kids: &mut [Group], dead: &[FileId]) {
    for g in kids.iter_mut() {
        for seg in g.segs.iter_mut() {
            for d in dead {
                let tok = format!("FileId({})", d.id);
                if seg.head.contains(&tok) {
                    seg.head = seg.head.replace(&tok, "FileId(dead)");
                }
            }
            unify_dead(&mut seg.kids, dead);
        }
    }
}

fn normalise(kids: &mut Vec<Group>, path: &str, rename: Option<(u32, u32)>, mask_ids: bool, ignore: &[String]) {
    kids.retain(|g| {
        let sub = match g.label() {
            Some(l) if path.is_empty() => l.to_string(),
            Some(l) => format!("{path}.{l}"),
            None => path.to_string(),
        };
        if sub == "vfs.node_cache" {
            return false;
        }
        if path == "vfs.file_data" && g.segs[0].head == "None," {
            return false;
        }
        if path == "modules_index" && g.segs[0].head.starts_with("id_counter: ") {
            return false;
        }
        if path == "property_index" && g.segs[0].head.starts_with("id_count: ") {
            return false;
        }
        !(g.label().is_some() && ignore.iter().any(|s| sub.contains(s.as_str())))
    });
    for g in kids.iter_mut() {
        let sub = match g.label() {
            Some(l) if path.is_empty() => l.to_string(),
            Some(l) => format!("{path}.{l}"),
            None => path.to_string(),
        };
        for seg in g.segs.iter_mut() {
            // allocator-dependent ids: masked only when two different allocation histories are compared (RESTORE);
            // within one analysis the surviving entries keep their ids, which is what pairs a changed entry
            let mut line = if mask_ids { mask_numbers(&mask_numbers(&seg.head, "LuaPropertyId"), "ModuleNodeId") } else { seg.head.clone() };
            if let Some((new, old)) = rename {
                line = line.replace(&format!("FileId({new})"), &format!("FileId({old})"));
                if path == "vfs.file_id_map" {
                    if let Some(pre) = line.strip_suffix(&format!(": {new},")) {
                        line = format!("{pre}: {old},");
                    }
                }
                if path == "vfs.file_path_map" {
                    if let Some(post) = line.strip_prefix(&format!("{new}: ")) {
                        line = format!("{old}: {post}");
                    }
                }
            }
            seg.head = line;
            normalise(&mut seg.kids, &sub, rename, mask_ids, ignore);
        }
    }
}

/// Inside `members_index` a `LuaMemberIndexItem::Many(vec![x])` is rewritten to `One(x)`: the two are the same answer to every query
/// (`get_member_ids`, `resolve_type`: the union of one type, `resolve_semantic_decl`; `is_one` has no caller), and `LuaMemberIndex::remove`
/// legitimately leaves the former where a file that once shared the key is gone. Comparing them as different was a false alarm of
/// this search (formerly listed as finding L4), not a trace of the removed file.
fn one_of_many(dump: &str) -> String {
    let lines: Vec<&str> = dump.lines().collect();
    let ind = |l: &str| l.len() - l.trim_start().len();
    let mut out: Vec<String> = Vec::with_capacity(lines.len());
    let mut inside = false;
    let mut i = 0;
    while i < lines.len() {
        let l = lines[i];
        if ind(l) == 4 {
            inside = l.trim_start().starts_with("members_index: ");
        }
        if inside && l.ends_with("Many(") && i + 1 < lines.len() && lines[i + 1].trim() == "[" && ind(lines[i + 1]) == ind(l) + 4 {
            let d = ind(l);
            // the matching `],`
            let mut j = i + 2;
            while j < lines.len() && !(ind(lines[j]) == d + 4 && lines[j].trim_start().starts_with(']')) {
                j += 1;
            }
            let elems = (i + 2..j.min(lines.len()))
                .filter(|&k| ind(lines[k]) == d + 8 && !lines[k].trim_start().starts_with(['}', ')', ']']))
                .count();
            if j < lines.len() && elems == 1 {
                out.push(format!("{}One(", &l[..l.len() - "Many(".len()]));
                for k in i + 2..j {
                    out.push(lines[k][4..].to_string());
                }
                i = j + 1;
                continue;
            }
        }
        out.push(l.to_string());
        i += 1;
    }
    out.join("\n")
}

/// the database dump as a tree: children of the root = the indexes
fn snap(a: &EmmyLuaAnalysis, rename: Option<(u32, u32)>, ignore: &[String]) -> Vec<Group> {
    snap_with(a, rename, rename.is_some(), ignore)
}
fn snap_with(a: &EmmyLuaAnalysis, rename: Option<(u32, u32)>, mask_ids: bool, ignore: &[String]) -> Vec<Group> {
    let lines = collapse(&one_of_many(&format!("{:#?}", a.compilation.get_db())));
    let mut pos = 0;
    let mut root = parse_groups(&lines, &mut pos, 0);
    if root.len() != 1 || pos != lines.len() || root[0].segs.len() != 1 {
        setup_failed("the Debug dump of DbIndex does not have the expected shape");
    }
    let mut kids = std::mem::take(&mut root[0].segs[0].kids);
    normalise(&mut kids, "", rename, mask_ids, ignore);
    kids
}

// -------------------------------------------------------------------------------------------------- violations
#[derive(Clone, Copy, PartialEq, Debug)]
enum Class {
    /// state the removed file contributed that survives its removal, or state of other files destroyed by it
    Leak,
    /// a fact that belongs to a file that is still present and mentions the removed file: stays until that file is
    /// analysed again (`remove_file_by_uri` does not re-analyse dependents)
    StaleDependent,
    /// RESTORE only: the re-added file's state differs from the one the batch analysis produced (stale dependents that
    /// accumulate, order-dependent inference); leaks proper are caught by TRACE / NEVER-HAD / GROWTH
    RestoreDiff,
}

/// TRACE line / entry absent afterwards / entry only there afterwards / entry there before and after, content differs
#[derive(Clone, Copy, PartialEq, Debug)]
enum Kind {
    Line,
    Loss,
    Gain,
    Changed,
}

struct Violation {
    oracle: &'static str,
    class: Class,
    kind: Kind,
    removed: String,
    /// `index.field`
    field: String,
    /// deeper named fields
    sub: String,
    /// the leaked Debug line (TRACE) or the differing entry (`- before` / `+ after`)
    what: String,
    detail: String,
}
fn mask_digits(s: &str) -> String {
    let mut out = String::new();
    let mut prev_digit = false;
    for c in s.chars() {
        if c.is_ascii_digit() {
            if !prev_digit {
                out.push('#');
            }
            prev_digit = true;
        } else {
            out.push(c);
            prev_digit = false;
        }
    }
    out
}
impl Violation {
    /// what `--known` lines are matched against: `<oracle> <index.field> <entry text with every number masked as #>`
    fn signature(&self) -> String {
        format!("{} {} {}", self.oracle, self.field, mask_digits(&self.what))
    }
}

struct Ids {
    /// every id the removed file has had, and the text only the removed file contained
    dead: Vec<String>,
    /// ids of files that are in the analysis
    present: Vec<String>,
}
impl Ids {
    fn new(dead: &[FileId], present: &[FileId]) -> Ids {
        Ids { dead: dead.iter().map(|f| format!("FileId({})", f.id)).collect(), present: present.iter().map(|f| format!("FileId({})", f.id)).collect() }
    }
    fn with_marker(mut self, marker: &str) -> Ids {
        if !marker.is_empty() {
            self.dead.push(marker.to_string());
        }
        self
    }
    fn has_dead(&self, s: &str) -> bool {
        self.dead.iter().any(|t| s.contains(t.as_str()))
    }
    fn has_present(&self, s: &str) -> bool {
        self.present.iter().any(|t| s.contains(t.as_str()))
    }
}

fn short(s: &str, n: usize) -> String {
    if s.len() <= n {
        return s.to_string();
    }
    let mut end = n;
    while !s.is_char_boundary(end) {
        end -= 1;
    }
    format!("{}...", &s[..end])
}

fn split_path(path: &[String]) -> (String, String) {
    let field = path.iter().take(2).cloned().collect::<Vec<_>>().join(".");
    let sub = path.iter().skip(2).cloned().collect::<Vec<_>>().join(".");
    (field, sub)
}

/// Attribution.  A line that names the removed file is a STALE DEPENDENT when the fact it is part of belongs to a file
/// that is still present: the enclosing entry's key, its value's other fields, or the other half of the map entry
/// name a present file.  The sibling *elements* of a list / set / map never count (they are independent facts), and an
/// entry filed directly under the removed file's own id is that file's, whatever it mentions.  Everything else is a
/// LEAK.  `attributed` = what the ancestors already established; `is_entry` = `g` is a direct entry of `index.field`.
struct Walk<'a> {
    ids: &'a Ids,
    removed_path: &'a str,
    removed_id: u32,
}

fn present_in(g: &Group, ids: &Ids) -> bool {
    g.any_line(&|l| ids.has_present(l))
}

impl Walk<'_> {
    /// calls `hit(group, line, class)` for every line of `g` (recursively) that names the removed file
    fn visit<'g>(&self, g: &'g Group, dotted: &str, attributed: bool, is_entry: bool, under_dead_key: bool, hit: &mut dyn FnMut(&'g Group, &'g str, Class)) {
        let dead_key = under_dead_key || (is_entry && g.segs[0].head.starts_with("FileId(") && self.ids.has_dead(&g.segs[0].head));
        let heads = g.segs.iter().any(|s| self.ids.has_present(&s.head));
        for (si, seg) in g.segs.iter().enumerate() {
            let other_segs = g.segs.iter().enumerate().any(|(j, s)| j != si && s.kids.iter().any(|k| present_in(k, self.ids)));
            let kid_present: Vec<bool> = if seg.collection { Vec::new() } else { seg.kids.iter().map(|k| present_in(k, self.ids)).collect() };
            let by_bare = (dotted == "vfs.file_id_map" && seg.head.ends_with(&format!(": {},", self.removed_id))) || (dotted == "vfs.file_path_map" && seg.head.starts_with(&format!("{}: ", self.removed_id)));
            if self.ids.has_dead(&seg.head) || (!self.removed_path.is_empty() && seg.head.contains(self.removed_path)) || by_bare {
                let here = attributed || heads || other_segs || kid_present.iter().any(|p| *p);
                hit(g, &seg.head, if !dead_key && here { Class::StaleDependent } else { Class::Leak });
            }
            for (ki, kid) in seg.kids.iter().enumerate() {
                let siblings = kid_present.iter().enumerate().any(|(j, p)| j != ki && *p);
                self.visit(kid, dotted, attributed || heads || other_segs || siblings, false, dead_key, hit);
            }
        }
    }
}

/// TRACE: every line of the dump that still names the removed file
fn trace(tree: &[Group], ids: &Ids, name: &str, id: FileId, out: &mut Vec<Violation>) {
    let removed_path = path_text(name);
    let w = Walk { ids, removed_path: &removed_path, removed_id: id.id };
    let removed = format!("{name} (id {})", id.id);
    for index in tree {
        let Some(index_name) = index.label() else { continue };
        for field in index.segs.iter().flat_map(|s| s.kids.iter()) {
            let Some(field_name) = field.label() else { continue };
            let dotted = format!("{index_name}.{field_name}");
            // the entries of the field (the field itself when it is not a collection)
            let entries: Vec<&Group> = if field.segs.iter().any(|s| s.collection) { field.segs.iter().flat_map(|s| s.kids.iter()).collect() } else { vec![field] };
            for e in entries {
                w.visit(e, &dotted, false, true, false, &mut |_, line, class| {
                    out.push(Violation { oracle: "TRACE", class, kind: Kind::Line, removed: removed.clone(), field: dotted.clone(), sub: String::new(), what: format!("{line} in {}", short(&e.canon(), 360)), detail: String::from("after remove_file_by_uri the dump still names the removed file") });
                });
            }
        }
    }
}

struct DiffCtx<'a> {
    /// keys of the entries the walk is inside of (below the field)
    keys: std::cell::RefCell<Vec<String>>,
    oracle: &'static str,
    removed: String,
    what: &'a str,
    ids: &'a Ids,
}

fn report_diff(cx: &DiffCtx, path: &[String], attributed: bool, before: Option<&Group>, after: Option<&Group>, out: &mut Vec<Violation>) {
    // the class of a difference = the class of the lines naming the removed file in what is there now; a difference
    // that names no removed file (state of other files destroyed or changed) is a leak
    let (mut leak, mut stale) = (false, false);
    if let Some(a) = after {
        let w = Walk { ids: cx.ids, removed_path: "", removed_id: u32::MAX };
        w.visit(a, "", attributed, path.len() == 2 && cx.keys.borrow().is_empty(), false, &mut |_, _, class| if class == Class::Leak { leak = true } else { stale = true });
    }
    let class = if cx.oracle == "RESTORE" { Class::RestoreDiff } else if stale && !leak { Class::StaleDependent } else { Class::Leak };
    let (field, sub) = split_path(path);
    let mut what = String::new();
    if !cx.keys.borrow().is_empty() {
        what.push_str(&format!("[under {}] ", cx.keys.borrow().join(" > ")));
    }
    if let Some(b) = before {
        what.push_str(&format!("- {}", short(&b.canon(), 300)));
    }
    if let Some(a) = after {
        if before.is_some() {
            what.push_str("   ");
        }
        what.push_str(&format!("+ {}", short(&a.canon(), 300)));
    }
    let kind = match (before.is_some(), after.is_some()) {
        (true, false) => Kind::Loss,
        (false, true) => Kind::Gain,
        _ => Kind::Changed,
    };
    out.push(Violation { oracle: cx.oracle, class, kind, removed: cx.removed.clone(), field, sub, what, detail: cx.what.to_string() });
}

/// what pairs two differing siblings: the key of a map entry / the name of a field, else the opener line
fn pair_key(g: &Group) -> String {
    g.key().unwrap_or_else(|| g.segs[0].head.clone())
}

/// structural difference of two sibling lists (multiset for collections), descending into entries with the same key.
/// `base` = attribution from the ancestors; in a value (not a collection) the other fields count too.
fn diff_kids(cx: &DiffCtx, a: &[Group], b: &[Group], collection: bool, path: &mut Vec<String>, base: bool, out: &mut Vec<Violation>) {
    let ca: Vec<String> = a.iter().map(|g| g.canon()).collect();
    let cb: Vec<String> = b.iter().map(|g| g.canon()).collect();
    let mut used_b = vec![false; b.len()];
    let mut rest_a = Vec::new();
    for (i, c) in ca.iter().enumerate() {
        match (0..b.len()).find(|j| !used_b[*j] && cb[*j] == *c) {
            Some(j) => used_b[j] = true,
            None => rest_a.push(i),
        }
    }
    let mut rest_b: Vec<usize> = (0..b.len()).filter(|j| !used_b[*j]).collect();
    let b_present: Vec<bool> = if collection { Vec::new() } else { b.iter().map(|g| present_in(g, cx.ids)).collect() };
    let attr = |j: usize| base || b_present.iter().enumerate().any(|(x, p)| x != j && *p);
    for i in rest_a.clone() {
        let key = pair_key(&a[i]);
        // a partner: the same key, and no other candidate with that key on either side
        let cands: Vec<usize> = rest_b.iter().copied().filter(|j| pair_key(&b[*j]) == key).collect();
        let rivals = rest_a.iter().filter(|x| pair_key(&a[**x]) == key).count();
        // (inside one value -- struct / tuple, not a collection -- a single leftover on each side is the same slot)
        let same_slot = !collection && rest_a.len() == 1 && rest_b.len() == 1;
        if same_slot || (cands.len() == 1 && rivals == 1) {
            let cands = if same_slot { rest_b.clone() } else { cands };
            let j = cands[0];
            rest_b.retain(|x| *x != j);
            diff_group(cx, &a[i], &b[j], path, attr(j), out);
        } else {
            report_diff(cx, path, base, Some(&a[i]), None, out);
        }
    }
    for j in rest_b {
        let pushed = if let Some(l) = b[j].label() { path.push(l.to_string()); true } else { false };
        report_diff(cx, path, attr(j), None, Some(&b[j]), out);
        if pushed {
            path.pop();
        }
    }
}

fn diff_group(cx: &DiffCtx, a: &Group, b: &Group, path: &mut Vec<String>, attributed: bool, out: &mut Vec<Violation>) {
    let pushed = if let Some(l) = b.label() { path.push(l.to_string()); true } else { false };
    let same_shape = a.segs.len() == b.segs.len() && a.segs.iter().zip(&b.segs).all(|(x, y)| x.head == y.head);
    if !same_shape || (a.segs.iter().all(|s| s.kids.is_empty()) && b.segs.iter().all(|s| s.kids.is_empty())) {
        report_diff(cx, path, attributed, Some(a), Some(b), out);
    } else {
        let inside_field = path.len() >= 2;
        let keyed = inside_field && !(pushed && path.len() == 2);
        if keyed {
            cx.keys.borrow_mut().push(short(&pair_key(b), 120));
        }
        let heads = b.segs.iter().any(|s| cx.ids.has_present(&s.head));
        for (si, (sa, sb)) in a.segs.iter().zip(&b.segs).enumerate() {
            let other_segs = b.segs.iter().enumerate().any(|(j, s)| j != si && s.kids.iter().any(|k| present_in(k, cx.ids)));
            diff_kids(cx, &sa.kids, &sb.kids, sb.collection || !inside_field, path, inside_field && (attributed || heads || other_segs), out);
        }
        if keyed {
            cx.keys.borrow_mut().pop();
        }
    }
    if pushed {
        path.pop();
    }
}

fn compare(cx: &DiffCtx, before: &[Group], after: &[Group], out: &mut Vec<Violation>) -> bool {
    let n = out.len();
    let mut path = Vec::new();
    diff_kids(cx, before, after, true, &mut path, false, out);
    out.len() > n
}

// --------------------------------------------------------------------------------------------------- scenario
const OUTSIDE_ROOT: &str = "/vp_c10t_outside";
fn uri_of(name: &str) -> Uri {
    let by_path = |p: String| match file_path_to_uri(&PathBuf::from(&p)) {
        Some(u) => u,
        None => setup_failed(&format!("no uri for {p}")),
    };
    if let Some(rest) = name.strip_prefix("outside:") {
        by_path(format!("{OUTSIDE_ROOT}/{rest}"))
    } else if name.starts_with("untitled:") || name.starts_with("plain-untitled:") {
        Uri::from_str(name.trim_start_matches("plain-")).unwrap_or_else(|_| setup_failed(&format!("no uri for {name}")))
    } else if let Some(rest) = name.strip_prefix("remote:") {
        Uri::from_str(&format!("vp-c10t-remote://host/{rest}")).unwrap_or_else(|_| setup_failed(&format!("no uri for {name}")))
    } else {
        by_path(format!("{ROOT}/{name}"))
    }
}
/// the text by which the dump would name the file (path / uri)
fn is_remote(name: &str) -> bool {
    name.starts_with("remote:") || name.starts_with("untitled:")
}
fn path_text(name: &str) -> String {
    if let Some(rest) = name.strip_prefix("outside:") {
        format!("{OUTSIDE_ROOT}/{rest}")
    } else if name.starts_with("untitled:") || name.starts_with("plain-untitled:") {
        name.trim_start_matches("plain-").to_string()
    } else if let Some(rest) = name.strip_prefix("remote:") {
        format!("vp-c10t-remote://host/{rest}")
    } else {
        format!("{ROOT}/{name}")
    }
}

fn setup_failed(why: &str) -> ! {
    println!("SETUP-FAILED {why}");
    std::process::exit(2)
}

/// new analysis, default config, main workspace, the given files analysed in the given order
fn fresh(files: &[&(String, String, String)], mode: Mode) -> (EmmyLuaAnalysis, Vec<FileId>) {
    let mut a = EmmyLuaAnalysis::new();
    a.update_config(Arc::new(Emmyrc::default()));
    a.add_main_workspace(PathBuf::from(ROOT));
    let mut ids = Vec::new();
    match mode {
        Mode::Batch => {
            // what update_files_by_uri does, with a fixed order of the ids (it goes through a std HashSet)
            for (name, _, text) in files {
                let vfs = a.compilation.get_db_mut().get_vfs_mut();
                ids.push(if is_remote(name) { vfs.set_remote_file_content(&uri_of(name), Some(text.clone())) } else { vfs.set_file_content(&uri_of(name), Some(text.clone())) });
            }
            a.compilation.remove_index(ids.clone());
            a.compilation.update_index(ids.clone());
        }
        Mode::Seq => {
            for (name, _, text) in files {
                ids.push(add(&mut a, name, text));
            }
        }
    }
    for (i, (name, module, _)) in files.iter().enumerate() {
        match a.compilation.get_db().get_module_index().get_module(ids[i]) {
            Some(info) if info.full_module_name == *module => {}
            None if module.is_empty() => {}
            other => setup_failed(&format!("{name} registered as module {:?}, expected {module:?}", other.map(|m| m.full_module_name.clone()))),
        }
    }
    (a, ids)
}

fn add(a: &mut EmmyLuaAnalysis, name: &str, text: &str) -> FileId {
    if is_remote(name) {
        return a.update_remote_file_by_uri(&uri_of(name), Some(text.to_string()));
    }
    match a.update_file_by_uri(&uri_of(name), Some(text.to_string())) {
        Some(id) => id,
        None => setup_failed("no file id"),
    }
}
fn remove(a: &mut EmmyLuaAnalysis, name: &str, id: FileId) {
    if a.remove_file_by_uri(&uri_of(name)) != Some(id) {
        setup_failed(&format!("remove_file_by_uri({name}) did not return the id the file was added under"));
    }
}

/// (removals whose stale dependents were re-analysed, of which: everything gone afterwards)
static REANALYSED: std::sync::atomic::AtomicUsize = std::sync::atomic::AtomicUsize::new(0);
static REANALYSED_CLEAN: std::sync::atomic::AtomicUsize = std::sync::atomic::AtomicUsize::new(0);
fn reanalysed_clean(clean: bool) {
    REANALYSED.fetch_add(1, std::sync::atomic::Ordering::Relaxed);
    if clean {
        REANALYSED_CLEAN.fetch_add(1, std::sync::atomic::Ordering::Relaxed);
    }
}

fn run_case(case: &Case, ignore: &[String]) -> Vec<Violation> {
    let mut out = Vec::new();
    let all: Vec<&(String, String, String)> = case.files.iter().collect();
    for fi in 0..case.files.len() {
        let (name, _, text) = &case.files[fi];
        let first = out.len();
        // ---- NEVER-HAD: the workspace without F; add F; remove F
        let others: Vec<&(String, String, String)> = case.files.iter().enumerate().filter(|(i, _)| *i != fi).map(|(_, f)| f).collect();
        let (mut a, other_ids) = fresh(&others, case.mode);
        let t0 = snap(&a, None, ignore);
        let id = add(&mut a, name, text);
        remove(&mut a, name, id);
        let t1 = snap(&a, None, ignore);
        let marker = &case.markers[fi];
        let ids = Ids::new(&[id], &other_ids).with_marker(marker);
        trace(&t1, &ids, name, id, &mut out);
        let cx = DiffCtx { keys: Default::default(), oracle: "NEVER-HAD", removed: format!("{name} (id {})", id.id), what: "workspace without the file -> add it -> remove it, against the dump before adding it", ids: &ids };
        compare(&cx, &t0, &t1, &mut out);
        drop(a);

        // ---- full workspace: remove F, TRACE; then 5 x (add F [first time: RESTORE]; remove F, TRACE, GROWTH)
        let (mut a, all_ids) = fresh(&all, case.mode);
        let id0 = all_ids[fi];
        let other_ids: Vec<FileId> = all_ids.iter().copied().filter(|i| *i != id0).collect();
        let s0 = snap_with(&a, None, true, ignore);
        if is_remote(name) {
            // a remote document is closed first (`update_remote_file_by_uri(uri, None)`): its index entries must go;
            // the vfs keeps the uri -> id entry of a closed (not removed) document, that one field is not looked at
            if a.update_remote_file_by_uri(&uri_of(name), None) != id0 {
                setup_failed("closing a remote document changed its id");
            }
            let mut closed = Vec::new();
            trace(&snap(&a, None, ignore), &Ids::new(&[id0], &other_ids).with_marker(&case.markers[fi]), name, id0, &mut closed);
            for mut v in closed.into_iter().filter(|v| v.field != "vfs.remote_file_id_map") {
                v.detail = String::from("after update_remote_file_by_uri(uri, None) the dump still names the closed document");
                out.push(v);
            }
        }
        remove(&mut a, name, id0);
        let s1 = snap(&a, None, ignore);
        let mut dead = vec![id0];
        trace(&s1, &Ids::new(&dead, &other_ids).with_marker(marker), name, id0, &mut out);
        for round in 0..5 {
            let id = add(&mut a, name, text);
            if round == 0 && case.mode == Mode::Batch {
                let s2 = snap(&a, Some((id.id, id0.id)), ignore);
                let ids = Ids::new(&[], &all_ids);
                let cx = DiffCtx { keys: Default::default(), oracle: "RESTORE", removed: format!("{name} (id {} -> {})", id0.id, id.id), what: "all files analysed -> remove it -> add it again, against the dump before the removal (new id renamed to the old one)", ids: &ids };
                compare(&cx, &s0, &s2, &mut out);
            }
            remove(&mut a, name, id);
            dead.push(id);
            if round != 0 && round != 4 {
                continue;
            }
            let s3 = snap(&a, None, ignore);
            let ids = Ids::new(&dead, &other_ids).with_marker(marker);
            trace(&s3, &ids, name, id, &mut out);
            let (mut s1u, mut s3u) = (s1.clone(), s3);
            unify_dead(&mut s1u, &dead);
            unify_dead(&mut s3u, &dead);
            let ids = Ids { dead: vec!["FileId(dead)".to_string()], present: ids.present }.with_marker(marker);
            let what = format!("all files analysed -> remove it -> {} x (add it; remove it), against the dump after the first removal", round + 1);
            let cx = DiffCtx { keys: Default::default(), oracle: "GROWTH", removed: format!("{name} (id {})", id.id), what: &what, ids: &ids };
            if compare(&cx, &s1u, &s3u, &mut out) {
                break;
            }
        }
        // ---- a stale dependent must go away when its owner is analysed again: every remaining file re-submitted
        // (same text, same id), three passes (a file may have re-read another one's stale fact); what still names
        // the removed file then is nobody's dependent fact -> leak
        if out[first..].iter().any(|v| v.class == Class::StaleDependent) {
            for _ in 0..3 {
                for (j, (other, _, other_text)) in case.files.iter().enumerate() {
                    if j != fi && add(&mut a, other, other_text) != all_ids[j] {
                        setup_failed("re-submitting a file changed its id");
                    }
                }
            }
            let s4 = snap(&a, None, ignore);
            let mut again = Vec::new();
            trace(&s4, &Ids::new(&dead, &other_ids).with_marker(marker), name, *dead.last().unwrap(), &mut again);
            // (lines that were reported as leaks before are not repeated)
            let reported: Vec<String> = out[first..].iter().filter(|v| v.oracle == "TRACE" && v.class == Class::Leak).map(|v| v.signature()).collect();
            for mut v in again.into_iter().filter(|v| !reported.contains(&v.signature())) {
                v.oracle = "TRACE-REANALYSED";
                v.class = Class::Leak;
                v.detail = String::from("still there after every remaining file was analysed again (3 passes)");
                out.push(v);
            }
            reanalysed_clean(out[first..].iter().filter(|v| v.oracle == "TRACE-REANALYSED").count() == 0);
        }
    }
    out
}

// ------------------------------------------------------------------------------------------------------ output
/// `--known <file>`: one pinned finding per line, `<oracle|*> <index.field> <substring of the masked entry text>`;
/// `#` lines are comments.  A violation whose signature matches is printed as KNOWN and does not fail the search.
struct Known {
    oracle: String,
    field: String,
    text: String,
}
fn load_known(path: &str) -> Vec<Known> {
    let Ok(s) = std::fs::read_to_string(path) else { setup_failed(&format!("cannot read the known-findings file {path}")) };
    let mut out = Vec::new();
    for l in s.lines() {
        let l = l.trim();
        if l.is_empty() || l.starts_with('#') {
            continue;
        }
        let mut it = l.splitn(3, ' ');
        let (Some(o), Some(f)) = (it.next(), it.next()) else { setup_failed(&format!("malformed known line: {l}")) };
        out.push(Known { oracle: o.to_string(), field: f.to_string(), text: it.next().unwrap_or("").trim().to_string() });
    }
    out
}
/// A pattern that starts with `- ` pins a PURE LOSS (the entry is absent afterwards), one that starts with `+ ` a pure
/// gain; neither matches the halves of a CHANGED entry (`- before   + after`: present before and after with a
/// different content -- a different defect).  Any other pattern matches whatever the kind.
fn is_known(v: &Violation, known: &[Known]) -> bool {
    let masked = mask_digits(&v.what);
    known.iter().any(|k| {
        let kind_ok = if k.text.starts_with("- ") { v.kind == Kind::Loss } else if k.text.starts_with("+ ") { v.kind == Kind::Gain } else { true };
        kind_ok && (k.oracle == "*" || k.oracle == v.oracle) && k.field == v.field && masked.contains(&mask_digits(&k.text))
    })
}

struct Opts {
    ignore: Vec<String>,
    known: Vec<Known>,
    strict: bool,
    all: bool,
}

/// prints the violations of one case; returns (failing, known, stale) counts
fn report(case: &Case, seed: u64, vs: &[Violation], opts: &Opts, seen: &mut Vec<String>, first_only: bool) -> (usize, usize, usize) {
    let (mut failing, mut known, mut stale) = (0, 0, 0);
    for v in vs {
        let tag = if v.class == Class::StaleDependent && !opts.strict {
            stale += 1;
            "STALE-DEPENDENT"
        } else if v.class == Class::RestoreDiff && !opts.strict {
            stale += 1;
            "RESTORE-DIFF"
        } else if is_known(v, &opts.known) {
            known += 1;
            "KNOWN"
        } else {
            failing += 1;
            "FOUND"
        };
        let sig = format!("{tag} {}", v.signature());
        if seen.contains(&sig) {
            continue;
        }
        if tag != "FOUND" || !first_only || failing == 1 {
            seen.push(sig);
            println!("{tag} case={} seed={seed} oracle={} class={:?} kind={:?} removed={} field={}{} :: `{}` :: {} :: workspace: {}", case.k, v.oracle, v.class, v.kind, v.removed, v.field, if v.sub.is_empty() { String::new() } else { format!(" sub={}", v.sub) }, v.what, v.detail, case.desc);
        }
    }
    (failing, known, stale)
}

fn print_workspace(case: &Case) {
    for (name, module, text) in &case.files {
        println!("  --- {} (module {module:?})", path_text(name));
        for l in text.lines() {
            println!("  | {l}");
        }
    }
}

fn run_one(case: &Case, opts: &Opts) -> Vec<Violation> {
    match std::panic::catch_unwind(|| run_case(case, &opts.ignore)) {
        Ok(vs) => vs,
        Err(_) => setup_failed(&format!("the analysis panicked in case {} ({})", case.k, case.desc)),
    }
}

fn dir_case(dir: &str, mode: Mode) -> Case {
    // a hand-written workspace: every *.lua directly under <dir> and <dir>/lib, analysed in name order
    let dir = PathBuf::from(dir);
    let mut files = Vec::new();
    for sub in ["", "lib"] {
        let mut names: Vec<PathBuf> = match std::fs::read_dir(dir.join(sub)) {
            Ok(rd) => rd.filter_map(|e| e.ok()).map(|e| e.path()).filter(|p| p.extension().is_some_and(|x| x == "lua")).collect(),
            Err(_) => continue,
        };
        names.sort();
        for path in names {
            let stem = path.file_stem().unwrap().to_string_lossy().to_string();
            let (name, module) = if sub.is_empty() { (format!("{stem}.lua"), stem.clone()) } else { (format!("{sub}/{stem}.lua"), format!("{sub}.{stem}")) };
            files.push((name, module, std::fs::read_to_string(&path).unwrap_or_default()));
        }
    }
    if files.is_empty() {
        setup_failed("no .lua files in the given directory");
    }
    let markers = vec![String::new(); files.len()];
    Case { k: 0, mode, files, markers, desc: format!("{mode:?} files of {}", dir.display()) }
}

const DEFAULT_COUNT: u64 = 210;

fn main() {
    std::panic::set_hook(Box::new(|_| {}));
    let mut args: Vec<String> = std::env::args().skip(1).collect();
    let mut opts = Opts { ignore: Vec::new(), known: Vec::new(), strict: false, all: false };
    let mut i = 0;
    while i < args.len() {
        match args[i].as_str() {
            "--ignore" if i + 1 < args.len() => {
                opts.ignore.push(args[i + 1].clone());
                args.drain(i..i + 2);
            }
            "--known" if i + 1 < args.len() => {
                opts.known.extend(load_known(&args[i + 1]));
                args.drain(i..i + 2);
            }
            "--strict" => {
                opts.strict = true;
                args.remove(i);
            }
            "--all" => {
                opts.all = true;
                args.remove(i);
            }
            _ => i += 1,
        }
    }
    let num = |i: usize, default: u64| -> u64 { args.get(i).and_then(|s| s.parse().ok()).unwrap_or(default) };
    match args.first().map(|s| s.as_str()) {
        Some("list") => {
            for (i, b) in BLOCKS.iter().enumerate() {
                println!("{i:2} {} ({} roles)", b.name, b.parts.len());
            }
        }
        Some("case") | Some("dir") => {
            let (case, seed) = if args[0] == "case" {
                (gen_case(num(2, 1), num(1, 0) as usize), num(2, 1))
            } else {
                (dir_case(args.get(1).map(|s| s.as_str()).unwrap_or(""), if args.get(2).map(|s| s.as_str()) == Some("seq") { Mode::Seq } else { Mode::Batch }), 0)
            };
            println!("case {} seed {seed}: {}", case.k, case.desc);
            print_workspace(&case);
            let vs = run_one(&case, &opts);
            let (failing, known, stale) = report(&case, seed, &vs, &opts, &mut Vec::new(), false);
            println!("case {}: {failing} violations, {known} known, {stale} stale-dependent / restore differences", case.k);
            std::process::exit(if failing > 0 { 1 } else { 0 });
        }
        Some("search") | None => {
            let seed = num(1, 1);
            let count = num(2, DEFAULT_COUNT) as usize;
            let mut seen: Vec<String> = Vec::new();
            let (mut failing, mut known, mut stale, mut removals) = (0usize, 0usize, 0usize, 0usize);
            for k in 0..count {
                let case = gen_case(seed, k);
                let vs = run_one(&case, &opts);
                removals += case.files.len() * 7;
                let (f, kn, st) = report(&case, seed, &vs, &opts, &mut seen, !opts.all);
                failing += f;
                known += kn;
                stale += st;
                if f > 0 && !opts.all {
                    print_workspace(&case);
                    std::process::exit(1);
                }
            }
            let re = (REANALYSED.load(std::sync::atomic::Ordering::Relaxed), REANALYSED_CLEAN.load(std::sync::atomic::Ordering::Relaxed));
            let summary = format!("{count} generated workspaces ({} systematic + {} random, seed {seed}), {removals} removals checked, {} building blocks; {known} known-finding hits, {stale} stale-dependent / restore differences (not failing{}); stale dependents gone after re-analysing the remaining files: {}/{} removals",
                n_systematic().min(count), count.saturating_sub(n_systematic()), BLOCKS.len(), if opts.strict { "" } else { ": --strict makes them fail" }, re.1, re.0);
            if failing > 0 {
                println!("{failing} violations ({} distinct lines printed) among {summary}", seen.iter().filter(|s| s.starts_with("FOUND")).count());
                std::process::exit(1);
            }
            println!("no trace of a removed file, no growth, every re-add restores: {summary}");
        }
        Some(other) => {
            println!("usage: replay search [seed] [count] | case <k> [seed] | dir <dir> [batch|seq] | list   [--known <file>] [--strict] [--all] [--ignore <field>]   (got {other:?})");
            std::process::exit(2);
        }
    }
}
