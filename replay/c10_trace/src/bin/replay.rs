use emmylua_code_analysis::{EmmyLuaAnalysis, Emmyrc, file_path_to_uri};
use std::path::PathBuf;
use std::sync::Arc;
fn main() {
    let mut a = EmmyLuaAnalysis::new();
    a.update_config(Arc::new(Emmyrc::default()));
    a.add_main_workspace(PathBuf::from("/vp_c10t"));
    let e = format!("{:#?}", a.compilation.get_db());
    std::fs::write("/tmp/c10t_empty.txt", &e).unwrap();
    let uri = file_path_to_uri(&PathBuf::from("/vp_c10t/a.lua")).unwrap();
    let f = a.update_file_by_uri(&uri, Some("---@class A: B\n---@field x integer\nlocal M = {}\nfunction M.f() end\nG = 1\nreturn M\n".to_string()));
    println!("{f:?}");
    let e = format!("{:#?}", a.compilation.get_db());
    std::fs::write("/tmp/c10t_one.txt", &e).unwrap();
    a.remove_file_by_uri(&uri);
    let e = format!("{:#?}", a.compilation.get_db());
    std::fs::write("/tmp/c10t_removed.txt", &e).unwrap();
}
