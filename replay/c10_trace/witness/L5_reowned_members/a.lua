---@class GD
local rq2 = require("b")
