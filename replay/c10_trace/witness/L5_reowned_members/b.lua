local M = {}
M.x = 1
return M
