local x = 1
