local function f() end
