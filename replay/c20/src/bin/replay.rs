//! C20 bounded witness search on the REAL analyser: generated configurations (JSON files read by the real
//! `load_configs`, one file or a global + project pair that the loader merges) x generated files and file
//! HISTORIES (the same URI re-submitted with another header), diagnosed through `EmmyLuaAnalysis::diagnose_file`.
//! Decides nothing: a hit is a concrete (configuration, file history) whose reported diagnostics contradict C20.
//!
//! Oracle (stateless, computed from the configuration and the CURRENT text of the file only):
//!   O1 disable    a code in `diagnostics.disable` is not reported unless the current text has `---@diagnostic enable: <code>`
//!   O2 enables    a code in `enables` (not in `disable`, not disabled by the file) is reported by a plain main file that triggers it
//!   O3 severity   a reported diagnostic whose code has a `severity` entry carries that severity
//!   O4 globals    an undefined-global diagnostic never names an entry of `globals` or a match of `globalsRegex`
//!                 (and, as the positive side, a name matching none of them is reported when the code is in `enables`)
//!   O5 silent     meta files (`---@meta`, `---@meta _`, `---@meta no-require`, `---@meta some.module`) without a file-level
//!                 enable, library files, standard-library files, and everything under `diagnostics.enable = false` report nothing
//! Bounds: 9 trigger snippets (9 codes, 4 of them off by default); systematic part = every code x 7 configurations x 10 file
//! shapes, and every code x 3 configurations x 9 two/three-step histories; random part = 300 configurations (independent
//! subsets for disable / enables / severity / globals / globalsRegex, so the lists overlap) x 6 histories of 1..3 steps;
//! the 39 std files under 3 configurations.  A hit is shrunk greedily before it is printed.
//!   replay search [seed]     prints "FOUND <oracle> ..." (at most 3, shrunk) and exits 1; exit 0 otherwise; exit 2 when a
//!                            trigger snippet does not fire under `enables = [all]` (the scenario cannot be set up)
//!   replay probe             what each trigger snippet reports under the default configuration and under enables = [all]
use emmylua_code_analysis::{EmmyLuaAnalysis, Emmyrc, FileId, WorkspaceFolder, file_path_to_uri, load_configs};
use lsp_types::{Diagnostic, DiagnosticSeverity, NumberOrString};
use std::collections::{BTreeMap, BTreeSet};
use std::path::PathBuf;
use std::sync::Arc;
use tokio_util::sync::CancellationToken;

// ---------------------------------------------------------------------------------------------- generators
struct Trig { code: &'static str, body: &'static str }
/// `#` is replaced by the snippet's index in the file so that names do not collide.
const TRIGS: &[Trig] = &[
    Trig { code: "undefined-global", body: "use(plain_undef_#)" },
    Trig { code: "unused", body: "local unused_# = 1" },
    Trig { code: "redefined-local", body: "local redef_# = 1\nuse(redef_#)\nlocal redef_# = 2\nuse(redef_#)" },
    Trig { code: "local-const-reassign", body: "local konst_# <const> = 1\nkonst_# = 2\nuse(konst_#)" },
    Trig { code: "syntax-error", body: "local bad_# = = 1" },
    Trig { code: "unknown-doc-tag", body: "---@zzunknowntag#\nlocal tagged_# = 1\nuse(tagged_#)" },
    Trig { code: "missing-global-doc", body: "function GlobalFn#(a) return a end" },
    Trig { code: "incomplete-signature-doc", body: "---@param a number\nlocal function half_#(a, b) return a, b end\nuse(half_#)" },
    Trig { code: "undefined-field", body: "---@class Cls#\n---@field known number\n---@type Cls#\nlocal obj_# = {}\nuse(obj_#.unknown_field)" },
];
const META_KINDS: &[&str] = &["", "_", "no-require", "some.module"];
const SEVERITIES: &[(&str, DiagnosticSeverity)] = &[("error", DiagnosticSeverity::ERROR), ("warning", DiagnosticSeverity::WARNING),
    ("information", DiagnosticSeverity::INFORMATION), ("hint", DiagnosticSeverity::HINT)];
const GLOBAL_NAMES: &[&str] = &["G_alpha", "G_beta", "PRE_one", "two_SFX", "midINNERx", "other_zz"];
const CFG_GLOBALS: &[&str] = &["G_alpha", "G_beta", "other_zz"];
/// (regex as written in the configuration, independent matcher)
const CFG_REGEX: &[&str] = &["^PRE_", "_SFX$", "INNER", "^G_al"];
fn regex_matches(pat: &str, name: &str) -> bool {
    match pat { "^PRE_" => name.starts_with("PRE_"), "_SFX$" => name.ends_with("_SFX"), "INNER" => name.contains("INNER"), "^G_al" => name.starts_with("G_al"), _ => false }
}

#[derive(Clone, Debug, PartialEq)]
struct FileSpec { meta: Option<&'static str>, hdr_enable: Vec<&'static str>, hdr_disable: Vec<&'static str>, trigs: Vec<usize>, globals: Vec<&'static str> }
impl FileSpec {
    fn plain(trigs: Vec<usize>) -> Self { FileSpec { meta: None, hdr_enable: vec![], hdr_disable: vec![], trigs, globals: vec![] } }
    fn text(&self) -> String {
        let mut s = String::new();
        if let Some(m) = self.meta { s.push_str(if m.is_empty() { "---@meta" } else { "---@meta " }); s.push_str(m); s.push('\n'); }
        if !self.hdr_enable.is_empty() { s.push_str(&format!("---@diagnostic enable: {}\n", self.hdr_enable.join(", "))); }
        if !self.hdr_disable.is_empty() { s.push_str(&format!("---@diagnostic disable: {}\n", self.hdr_disable.join(", "))); }
        s.push_str("\nlocal function use(...) return ... end\n\n");
        // the syntax-error snippet goes last: error recovery must not swallow the other snippets
        let syntax = |t: &usize| TRIGS[*t].code == "syntax-error";
        for (i, t) in self.trigs.iter().enumerate().filter(|(_, t)| !syntax(t)) { s.push_str(&TRIGS[*t].body.replace('#', &i.to_string())); s.push_str("\n\n"); }
        for g in &self.globals { s.push_str(&format!("use({g})\n")); }
        for (i, t) in self.trigs.iter().enumerate().filter(|(_, t)| syntax(t)) { s.push_str(&TRIGS[*t].body.replace('#', &i.to_string())); s.push_str("\n\n"); }
        s.push_str("return use\n");
        s
    }
    fn describe(&self) -> String {
        format!("{{meta={:?} file-enable={:?} file-disable={:?} triggers={:?} globals={:?}}}", self.meta, self.hdr_enable, self.hdr_disable,
            self.trigs.iter().map(|t| TRIGS[*t].code).collect::<Vec<_>>(), self.globals)
    }
}

#[derive(Clone, Debug, PartialEq)]
struct Cfg { enable: bool, disable: BTreeSet<&'static str>, enables: BTreeSet<&'static str>, severity: BTreeMap<&'static str, usize>, globals: BTreeSet<&'static str>, globals_regex: BTreeSet<&'static str>, split: u8 }
impl Cfg {
    fn new() -> Self { Cfg { enable: true, disable: BTreeSet::new(), enables: BTreeSet::new(), severity: BTreeMap::new(), globals: BTreeSet::new(), globals_regex: BTreeSet::new(), split: 0 } }
    /// one JSON document, or a global + project pair whose merge (arrays united, objects merged key-wise) is the same configuration
    fn json_files(&self) -> Vec<serde_json::Value> {
        let sev: serde_json::Map<String, serde_json::Value> = self.severity.iter().map(|(c, s)| (c.to_string(), SEVERITIES[*s].0.into())).collect();
        let whole = serde_json::json!({"diagnostics": {"enable": self.enable, "disable": self.disable, "enables": self.enables, "severity": sev,
            "globals": self.globals, "globalsRegex": self.globals_regex}});
        match self.split {
            0 => vec![whole],
            1 => vec![serde_json::json!({"diagnostics": {"disable": self.disable, "globals": self.globals, "severity": sev}}),
                      serde_json::json!({"diagnostics": {"enable": self.enable, "enables": self.enables, "globalsRegex": self.globals_regex}})],
            _ => {   // lists cut in two, with the first element of each present in both files
                let cut = |s: &BTreeSet<&'static str>| -> (Vec<&'static str>, Vec<&'static str>) {
                    let v: Vec<&'static str> = s.iter().copied().collect();
                    let h = v.len() / 2;
                    let mut b = v[h..].to_vec();
                    if let Some(f) = v.first() { if !b.contains(f) { b.push(f); } }
                    (v[..h.max(1).min(v.len())].to_vec(), b)
                };
                let (d1, d2) = cut(&self.disable); let (e1, e2) = cut(&self.enables); let (g1, g2) = cut(&self.globals); let (r1, r2) = cut(&self.globals_regex);
                vec![serde_json::json!({"diagnostics": {"disable": d1, "enables": e1, "globals": g1, "globalsRegex": r1, "severity": sev}}),
                     serde_json::json!({"diagnostics": {"enable": self.enable, "disable": d2, "enables": e2, "globals": g2, "globalsRegex": r2}})]
            }
        }
    }
    fn describe(&self) -> String { self.json_files().iter().map(|v| v.to_string()).collect::<Vec<_>>().join(" + ") }
}

#[derive(Clone, Debug, PartialEq)]
struct Scenario { cfg: Cfg, library: bool, steps: Vec<FileSpec> }

struct Rng(u64);
impl Rng {
    fn next(&mut self) -> u64 { self.0 ^= self.0 << 13; self.0 ^= self.0 >> 7; self.0 ^= self.0 << 17; self.0 }
    fn below(&mut self, n: usize) -> usize { (self.next() % n as u64) as usize }
    fn chance(&mut self, num: usize, den: usize) -> bool { self.below(den) < num }
    fn subset<T: Copy>(&mut self, pool: &[T], num: usize, den: usize) -> Vec<T> { pool.iter().copied().filter(|_| self.chance(num, den)).collect() }
}

// ---------------------------------------------------------------------------------------------- the real code
fn ws_dir() -> PathBuf {
    let base = if std::path::Path::new("/verif/build").is_dir() { PathBuf::from("/verif/build/c20_ws") } else { std::env::temp_dir().join("c20_ws") };
    let d = base.join(format!("p{}", std::process::id()));
    std::fs::create_dir_all(&d).expect("workspace dir");
    d
}

fn load_cfg(dir: &std::path::Path, cfg: &Cfg) -> Emmyrc {
    let mut paths = vec![];
    for (i, v) in cfg.json_files().iter().enumerate() {
        let p = dir.join(if i == 0 { ".emmyrc.json".to_string() } else { format!("project{i}.emmyrc.json") });
        std::fs::write(&p, serde_json::to_string_pretty(v).expect("json")).expect("write config");
        paths.push(p);
    }
    load_configs(paths, None)
}

fn new_analysis(dir: &std::path::Path, emmyrc: Emmyrc) -> EmmyLuaAnalysis {
    let mut analysis = EmmyLuaAnalysis::new();
    analysis.update_config(Arc::new(emmyrc));
    analysis.add_main_workspace(dir.join("main"));
    analysis.add_library_workspace(&WorkspaceFolder::new(dir.join("lib"), true));
    analysis
}

fn diagnose(analysis: &EmmyLuaAnalysis, id: FileId) -> Vec<Diagnostic> { analysis.diagnose_file(id, CancellationToken::new()).unwrap_or_default() }
fn code_of(d: &Diagnostic) -> String { match &d.code { Some(NumberOrString::String(s)) => s.clone(), Some(NumberOrString::Number(n)) => n.to_string(), None => String::new() } }
fn range_text(text: &str, d: &Diagnostic) -> String {
    let lines: Vec<&str> = text.split('\n').collect();
    if d.range.start.line != d.range.end.line { return String::new(); }
    lines.get(d.range.start.line as usize).map(|l| l.chars().skip(d.range.start.character as usize).take((d.range.end.character - d.range.start.character) as usize).collect()).unwrap_or_default()
}

// ---------------------------------------------------------------------------------------------- oracle
fn check(cfg: &Cfg, library: bool, spec: &FileSpec, text: &str, diags: &[Diagnostic]) -> Vec<String> {
    let mut out = vec![];
    let show = |d: &Diagnostic| format!("{}@{}:{}-{}:{} sev={:?} {:?}", code_of(d), d.range.start.line, d.range.start.character, d.range.end.line, d.range.end.character, d.severity, d.message);
    let file_enabled = |c: &str| spec.hdr_enable.iter().any(|e| *e == c);
    // O5
    let silent_reason = if !cfg.enable { Some("diagnostics.enable = false") } else if library { Some("library file") }
        else if spec.meta.is_some() && spec.hdr_enable.is_empty() { Some("meta file") } else { None };
    if let Some(why) = silent_reason {
        if let Some(d) = diags.first() { out.push(format!("O5-silent {why} reports {} diagnostics, first {}", diags.len(), show(d))); }
        return out;
    }
    for d in diags {
        let c = code_of(d);
        // O1
        if cfg.disable.contains(c.as_str()) && !file_enabled(&c) { out.push(format!("O1-disable code {c} is in diagnostics.disable, the file does not enable it, reported {}", show(d))); }
        // O3
        if let Some(s) = cfg.severity.get(c.as_str()) { if d.severity != Some(SEVERITIES[*s].1) { out.push(format!("O3-severity code {c} configured {} reported {}", SEVERITIES[*s].0, show(d))); } }
        // O4 negative
        if c == "undefined-global" {
            let name = range_text(text, d);
            if cfg.globals.contains(name.as_str()) || cfg.globals_regex.iter().any(|p| regex_matches(p, &name)) { out.push(format!("O4-globals name {name} is configured as a global, reported {}", show(d))); }
        }
    }
    // O2 / O4 positive: plain main file, code in enables, nothing switches it off
    if spec.meta.is_none() && spec.hdr_disable.is_empty() {
        let reported: BTreeSet<String> = diags.iter().map(code_of).collect();
        for t in &spec.trigs {
            let c = TRIGS[*t].code;
            if cfg.enables.contains(c) && !cfg.disable.contains(c) && !reported.contains(c) { out.push(format!("O2-enables code {c} is in diagnostics.enables, triggered by the file, not reported")); }
        }
        if cfg.enables.contains("undefined-global") && !cfg.disable.contains("undefined-global") {
            for g in &spec.globals {
                let configured = cfg.globals.contains(g) || cfg.globals_regex.iter().any(|p| regex_matches(p, g));
                if !configured && !diags.iter().any(|d| code_of(d) == "undefined-global" && range_text(text, d) == *g) { out.push(format!("O4-globals name {g} matches no globals/globalsRegex entry, undefined-global is enabled, not reported")); }
            }
        }
    }
    out
}

/// runs a scenario on a fresh analysis; the first violated oracle with the step it occurs at
fn run(dir: &std::path::Path, scn: &Scenario, counter: &mut u64) -> Option<(usize, String)> {
    let emmyrc = load_cfg(dir, &scn.cfg);
    let mut analysis = new_analysis(dir, emmyrc);
    let path = dir.join(if scn.library { "lib" } else { "main" }).join("subject.lua");
    let uri = file_path_to_uri(&path).expect("uri");
    // a bystander that is never re-submitted: its verdicts must not move either
    let by_spec = FileSpec::plain(vec![0, 1]);
    let by_uri = file_path_to_uri(&dir.join("main").join("bystander.lua")).expect("uri");
    let by_id = analysis.update_file_by_uri(&by_uri, Some(by_spec.text())).expect("file id");
    for (i, spec) in scn.steps.iter().enumerate() {
        let text = spec.text();
        let id = analysis.update_file_by_uri(&uri, Some(text.clone())).expect("file id");
        *counter += 1;
        let v = check(&scn.cfg, scn.library, spec, &text, &diagnose(&analysis, id));
        if let Some(first) = v.into_iter().next() { return Some((i, first)); }
        let v = check(&scn.cfg, false, &by_spec, &by_spec.text(), &diagnose(&analysis, by_id));
        if let Some(first) = v.into_iter().next() { return Some((i, format!("{first} -- in main/bystander.lua, submitted once before version 1 and never again, text={:?}", by_spec.text()))); }
    }
    None
}

fn oracle_tag(v: &str) -> &str { v.split(' ').next().unwrap_or("") }

/// greedy shrinking: drop steps, triggers, header entries, configuration entries while the same oracle stays violated
fn shrink(dir: &std::path::Path, mut scn: Scenario, tag: &str) -> Scenario {
    let mut n = 0u64;
    let still = |s: &Scenario, n: &mut u64| run(dir, s, n).is_some_and(|(_, v)| oracle_tag(&v) == tag || v.contains(tag));
    loop {
        let mut cands: Vec<Scenario> = vec![];
        for i in 0..scn.steps.len() { if scn.steps.len() > 1 { let mut s = scn.clone(); s.steps.remove(i); cands.push(s); } }
        for i in 0..scn.steps.len() {
            for j in 0..scn.steps[i].trigs.len() { let mut s = scn.clone(); s.steps[i].trigs.remove(j); cands.push(s); }
            for j in 0..scn.steps[i].globals.len() { let mut s = scn.clone(); s.steps[i].globals.remove(j); cands.push(s); }
            for j in 0..scn.steps[i].hdr_enable.len() { let mut s = scn.clone(); s.steps[i].hdr_enable.remove(j); cands.push(s); }
            for j in 0..scn.steps[i].hdr_disable.len() { let mut s = scn.clone(); s.steps[i].hdr_disable.remove(j); cands.push(s); }
        }
        for c in scn.cfg.disable.clone() { let mut s = scn.clone(); s.cfg.disable.remove(c); cands.push(s); }
        for c in scn.cfg.enables.clone() { let mut s = scn.clone(); s.cfg.enables.remove(c); cands.push(s); }
        for c in scn.cfg.severity.keys().copied().collect::<Vec<_>>() { let mut s = scn.clone(); s.cfg.severity.remove(c); cands.push(s); }
        for c in scn.cfg.globals.clone() { let mut s = scn.clone(); s.cfg.globals.remove(c); cands.push(s); }
        for c in scn.cfg.globals_regex.clone() { let mut s = scn.clone(); s.cfg.globals_regex.remove(c); cands.push(s); }
        if scn.cfg.split != 0 { let mut s = scn.clone(); s.cfg.split = 0; cands.push(s); }
        match cands.into_iter().find(|s| still(s, &mut n)) { Some(s) => scn = s, None => return scn }
    }
}

/// prints the (shrunk) scenario unless the same shrunk scenario was printed before
fn report(dir: &std::path::Path, scn: &Scenario, step: usize, v: &str, do_shrink: bool, printed: &mut Vec<Scenario>) -> bool {
    let tag = oracle_tag(v).to_string();
    let (scn, step, v) = if do_shrink {
        let s = shrink(dir, scn.clone(), &tag);
        let mut n = 0;
        match run(dir, &s, &mut n) { Some((i, v2)) => (s, i, v2), None => (scn.clone(), step, v.to_string()) }
    } else { (scn.clone(), step, v.to_string()) };
    if printed.contains(&scn) { return false; }
    printed.push(scn.clone());
    println!("FOUND {v}");
    println!("  config (through load_configs): {}", scn.cfg.describe());
    println!("  file: {}/subject.lua, history of {} version(s) of the same URI, violated after version {}", if scn.library { "lib" } else { "main" }, scn.steps.len(), step + 1);
    for (i, s) in scn.steps.iter().enumerate() { println!("  version {}: {} text={:?}", i + 1, s.describe(), s.text()); }
    true
}

// ---------------------------------------------------------------------------------------------- search
fn all_codes() -> Vec<&'static str> { TRIGS.iter().map(|t| t.code).collect() }

fn sanity(dir: &std::path::Path, verbose: bool) -> bool {
    let mut ok = true;
    let all: Vec<usize> = (0..TRIGS.len()).collect();
    for (name, cfg) in [("default", Cfg::new()), ("enables=[all]", Cfg { enables: all_codes().into_iter().collect(), ..Cfg::new() })] {
        let mut analysis = new_analysis(dir, load_cfg(dir, &cfg));
        for t in &all {
            let spec = FileSpec::plain(vec![*t]);
            let uri = file_path_to_uri(&dir.join("main").join(format!("t{t}.lua"))).expect("uri");
            let id = analysis.update_file_by_uri(&uri, Some(spec.text())).expect("id");
            let codes: Vec<String> = diagnose(&analysis, id).iter().map(code_of).collect();
            if verbose { println!("{name:14} trigger {:26} reports {:?}", TRIGS[*t].code, codes); }
            if name != "default" && !codes.iter().any(|c| c == TRIGS[*t].code) { println!("SETUP-FAILED trigger snippet for {} does not fire under enables=[all]: {:?}", TRIGS[*t].code, spec.text()); ok = false; }
        }
    }
    ok
}

fn file_shapes(code: &'static str, t: usize) -> Vec<(bool, FileSpec)> {
    let base = FileSpec { globals: GLOBAL_NAMES.to_vec(), ..FileSpec::plain(vec![t, 0, 1]) };
    let mut v = vec![(false, base.clone()), (true, base.clone()),
        (false, FileSpec { hdr_enable: vec![code], ..base.clone() }), (false, FileSpec { hdr_disable: vec![code], ..base.clone() }),
        (false, FileSpec { hdr_enable: vec![code], hdr_disable: vec![code], ..base.clone() }), (true, FileSpec { hdr_enable: vec![code], ..base.clone() })];
    for m in META_KINDS { v.push((false, FileSpec { meta: Some(m), ..base.clone() })); }
    v
}

fn histories(code: &'static str, t: usize) -> Vec<(bool, Vec<FileSpec>)> {
    let base = FileSpec { globals: vec!["G_alpha", "PRE_one", "other_zz"], ..FileSpec::plain(vec![t, 0, 1]) };
    let en = FileSpec { hdr_enable: vec![code], ..base.clone() };
    let dis = FileSpec { hdr_disable: vec![code], ..base.clone() };
    let meta = |m: &'static str| FileSpec { meta: Some(m), ..base.clone() };
    vec![(false, vec![en.clone(), base.clone()]), (false, vec![base.clone(), en.clone(), base.clone()]), (false, vec![dis.clone(), base.clone()]),
         (false, vec![en.clone(), meta("")]), (false, vec![base.clone(), meta("some.module")]), (false, vec![meta("some.module"), base.clone(), meta("_")]),
         (false, vec![meta("no-require"), base.clone()]), (true, vec![en.clone(), base.clone()]), (false, vec![en.clone(), dis.clone(), base.clone()])]
}

fn std_files(dir: &std::path::Path) -> (u64, Option<String>) {
    let mut n = 0;
    for cfg in [Cfg::new(), Cfg { enables: all_codes().into_iter().collect(), ..Cfg::new() }, Cfg { severity: all_codes().into_iter().map(|c| (c, 0)).collect(), ..Cfg::new() }] {
        let mut analysis = new_analysis(dir, load_cfg(dir, &cfg));
        analysis.init_std_lib(None);
        let ids = analysis.compilation.get_db().get_module_index().get_std_file_ids();
        if ids.is_empty() { return (n, Some("SETUP-FAILED no standard-library file after init_std_lib".to_string())); }
        for id in ids {
            n += 1;
            let d = diagnose(&analysis, id);
            if let Some(first) = d.first() {
                let path = analysis.compilation.get_db().get_vfs().get_file_path(&id).cloned().unwrap_or_default();
                return (n, Some(format!("FOUND O5-silent standard-library file {} reports {} diagnostics under config {}, first {}@{}:{} {:?}", path.display(), d.len(), cfg.describe(), code_of(first), first.range.start.line, first.range.start.character, first.message)));
            }
        }
    }
    (n, None)
}

fn search(seed: u64) -> i32 {
    let dir = ws_dir();
    let t0 = std::time::Instant::now();
    if !sanity(&dir, false) { return 2; }
    let mut found = 0;
    let mut files = 0u64;
    let mut scenarios = 0u64;
    let mut seen_tags: BTreeSet<String> = BTreeSet::new();
    let mut printed: Vec<Scenario> = vec![];
    let mut try_one = |scn: &Scenario, do_shrink: bool, found: &mut i32, files: &mut u64| {
        if let Some((step, v)) = run(&dir, scn, files) {
            // one report per oracle and kind of history: further hits of the same kind add nothing
            let key = format!("{} {}", oracle_tag(&v), if scn.steps.len() > 1 { "history" } else { "single" });
            let _ = do_shrink;
            if seen_tags.insert(key) && *found < 3 && report(&dir, scn, step, &v, true, &mut printed) { *found += 1; }
        }
    };
    // systematic part
    for (t, trig) in TRIGS.iter().enumerate() {
        let c = trig.code;
        let one = |f: &dyn Fn(&mut Cfg)| { let mut x = Cfg::new(); f(&mut x); x };
        let cfgs = vec![Cfg::new(), one(&|x| { x.disable.insert(c); }), one(&|x| { x.enables.insert(c); }), one(&|x| { x.disable.insert(c); x.enables.insert(c); x.split = 1; }),
            one(&|x| { x.enable = false; x.enables.insert(c); }), one(&|x| { x.severity.insert(c, t % 4); x.enables.insert(c); x.globals.insert("G_alpha"); x.globals_regex.insert("^PRE_"); }),
            one(&|x| { x.severity.insert(c, (t + 2) % 4); x.enables = all_codes().into_iter().collect(); x.globals = CFG_GLOBALS.iter().copied().collect(); x.globals_regex = CFG_REGEX.iter().copied().collect(); x.split = 2; })];
        for cfg in &cfgs {
            for (library, spec) in file_shapes(c, t) { scenarios += 1; try_one(&Scenario { cfg: cfg.clone(), library, steps: vec![spec] }, false, &mut found, &mut files); }
        }
        for cfg in [&cfgs[0], &cfgs[1], &cfgs[3]] {
            for (library, steps) in histories(c, t) { scenarios += 1; try_one(&Scenario { cfg: cfg.clone(), library, steps }, false, &mut found, &mut files); }
        }
    }
    let systematic = scenarios;
    // standard library
    let (nstd, r) = if found < 3 { std_files(&dir) } else { (0, None) };
    if let Some(line) = r { println!("{line}"); if line.starts_with("SETUP") { return 2; } found += 1; }
    // random part
    let mut rng = Rng(seed.wrapping_mul(0x9E3779B97F4A7C15) | 1);
    let codes = all_codes();
    for _ in 0..300 {
        if found >= 3 { break; }
        let mut cfg = Cfg::new();
        cfg.enable = !rng.chance(1, 12);
        cfg.disable = rng.subset(&codes, 1, 3).into_iter().collect();
        cfg.enables = rng.subset(&codes, 1, 2).into_iter().collect();
        for c in rng.subset(&codes, 1, 3) { cfg.severity.insert(c, rng.below(4)); }
        cfg.globals = rng.subset(CFG_GLOBALS, 1, 2).into_iter().collect();
        cfg.globals_regex = rng.subset(CFG_REGEX, 1, 3).into_iter().collect();
        cfg.split = rng.below(3) as u8;
        for _ in 0..6 {
            let nsteps = 1 + rng.below(3);
            let trigs: Vec<usize> = { let all: Vec<usize> = (0..TRIGS.len()).collect(); rng.subset(&all, 1, 2) };
            let globals = rng.subset(GLOBAL_NAMES, 1, 2);
            let mut steps = vec![];
            for _ in 0..nsteps {
                let meta = if rng.chance(1, 4) { Some(META_KINDS[rng.below(4)]) } else { None };
                let hdr_enable = if rng.chance(1, 3) { rng.subset(&codes, 1, 3) } else { vec![] };
                let hdr_disable = if rng.chance(1, 4) { rng.subset(&codes, 1, 3) } else { vec![] };
                let trigs = if rng.chance(1, 4) { let all: Vec<usize> = (0..TRIGS.len()).collect(); rng.subset(&all, 1, 2) } else { trigs.clone() };
                steps.push(FileSpec { meta, hdr_enable, hdr_disable, trigs, globals: globals.clone() });
            }
            scenarios += 1;
            try_one(&Scenario { cfg: cfg.clone(), library: rng.chance(1, 8), steps }, true, &mut found, &mut files);
        }
    }
    let _ = std::fs::remove_dir_all(&dir);
    if found > 0 { println!("{found} violation(s) (one per oracle and single-version / history scenario, shrunk; at most 3 are printed)"); return 1; }
    println!("no violation: {scenarios} scenarios ({systematic} systematic + {} random, seed {seed}), {files} file versions diagnosed, {nstd} standard-library files, {:.1} s", scenarios - systematic, t0.elapsed().as_secs_f64());
    0
}

fn main() {
    let a: Vec<String> = std::env::args().skip(1).collect();
    match a.first().map(|s| s.as_str()) {
        Some("probe") => { let dir = ws_dir(); let ok = sanity(&dir, true); let _ = std::fs::remove_dir_all(&dir); std::process::exit(if ok { 0 } else { 2 }); }
        Some("search") | None => std::process::exit(search(a.get(1).and_then(|s| s.parse().ok()).unwrap_or(1))),
        Some(other) => { eprintln!("unknown command {other}; use: replay search [seed] | replay probe"); std::process::exit(2); }
    }
}
