//! C21 bounded witness search on the real analysis: every reported diagnostic is well-formed and every parse
//! error appears as a syntax-error diagnostic. Decides nothing; a hit is a concrete program.
//!   replay search [dups]    generated valid / invalid programs (default + full diagnostic configuration);
//!                           "FOUND hex=<program> <what>" + exit 1 on the first violation. Exact duplicates are
//!                           only checked with the extra argument `dups`.
//!   replay hex <hex>        diagnose one program and print the diagnostics
use emmylua_code_analysis::{DiagnosticCode, VirtualWorkspace};
use emmylua_parser::{LuaParser, ParserConfig};
use lsp_types::NumberOrString;
use tokio_util::sync::CancellationToken;

fn hex(s: &str) -> String { s.bytes().map(|b| format!("{b:02x}")).collect() }
fn unhex(h: &str) -> String {
    let bytes: Vec<u8> = (0..h.len() / 2).map(|i| u8::from_str_radix(&h[2 * i..2 * i + 2], 16).unwrap()).collect();
    String::from_utf8(bytes).expect("utf8")
}

fn line_lens(text: &str) -> Vec<usize> { text.split('\n').map(|l| l.chars().count()).collect() }

fn check(ws: &mut VirtualWorkspace, n: usize, text: &str, dups: bool) -> Result<(), String> {
    let file_id = ws.def_file(&format!("c21_{n}.lua"), text);
    let ds = ws.analysis.diagnose_file(file_id, CancellationToken::new()).unwrap_or_default();
    let lens = line_lens(text);
    for d in &ds {
        let (s, e) = (d.range.start, d.range.end);
        if (s.line, s.character) > (e.line, e.character) { return Err(format!("range start after end: {:?}", d.range)); }
        if e.line as usize >= lens.len() || s.character as usize > lens[s.line as usize] || e.character as usize > lens[e.line as usize] {
            return Err(format!("range outside the document: {:?} ({} lines, line lengths {:?})", d.range, lens.len(), lens));
        }
        match &d.code { Some(NumberOrString::String(c)) if !c.is_empty() && c != "none" => {}, other => return Err(format!("no known code name: {other:?}")) }
        if d.severity.is_none() { return Err("no severity".to_string()); }
        if d.message.contains("%{") || d.message.contains("{}") { return Err(format!("unsubstituted placeholder in message {:?}", d.message)); }
    }
    // every parse error appears as a (doc-)syntax-error diagnostic at its location
    let tree = LuaParser::parse(text, ParserConfig::default());
    let doc = ws.analysis.compilation.get_db().get_vfs().get_document(&file_id).ok_or("no document")?;
    for pe in tree.get_errors() {
        let want = doc.to_lsp_range(pe.range).ok_or("parse error range not convertible")?;
        let found = ds.iter().any(|d| d.range == want && matches!(&d.code, Some(NumberOrString::String(c)) if c == "syntax-error" || c == "doc-syntax-error"));
        if !found { return Err(format!("parse error {:?} at {:?} is not reported as a syntax-error diagnostic", pe.message, want)); }
    }
    if dups {
        for (i, a) in ds.iter().enumerate() {
            if ds[..i].iter().any(|b| b == a) { return Err(format!("exact duplicate diagnostic {:?} {:?}", a.code, a.range)); }
        }
    }
    Ok(())
}

fn main() {
    let a: Vec<String> = std::env::args().skip(1).collect();
    let mut ws = VirtualWorkspace::new();
    let _ = DiagnosticCode::SyntaxError;
    if a.first().map(|s| s.as_str()) == Some("hex") {
        let t = unhex(&a[1]);
        let id = ws.def_file("replay.lua", &t);
        for d in ws.analysis.diagnose_file(id, CancellationToken::new()).unwrap_or_default() { println!("{:?} {:?} {:?}", d.code, d.range, d.message); }
        return;
    }
    let dups = a.iter().any(|x| x == "dups");
    let atoms = ["local x = 1\n", "x = = 1\n", "local s = \"héllo wörld\n", "---@type\n", "local t = {[\n", "if x then\n", "end\n", "f(\n", "return )\n",
        "---@class A\n---@field\n", "local y = z + \n", "x = 'é😀' .. \n", "--[[ unfinished\n", "local 1 = 2\n", "goto\n", "::l::\n", "for i = 1 do\n", "\t-- c\n", "local a <const> = 1\n", "x.y.z = \n"];
    let mut n = 0;
    for full in [false, true] {
        if full { ws.enable_full_diagnostic(); }
        for x in atoms { for y in atoms {
            for text in [x.to_string(), format!("{x}{y}")] {
                n += 1;
                if let Err(e) = check(&mut ws, n, &text, dups) {
                    println!("FOUND hex={} [{}] {:?}: {e}", hex(&text), if full { "full diagnostics" } else { "default configuration" }, text);
                    std::process::exit(1);
                }
            }
        } }
    }
    println!("no ill-formed diagnostic among {n} generated programs (default and full configuration){}", if dups { ", duplicates checked" } else { "" });
}
