//! C09 replay: after `clear_index()` no fact of the previous analysis may survive.
//! History: analyse one file that declares class members -> clear the index -> ask the member index
//! for the current owner of every member id that existed before. exit 1 = stale facts survive.
use emmylua_code_analysis::{EmmyLuaAnalysis, LuaMemberOwner, LuaTypeDeclId, file_path_to_uri};
use std::path::PathBuf;

fn main() {
    let mut a = EmmyLuaAnalysis::new();
    let uri = file_path_to_uri(&PathBuf::from("/vp_c09/a.lua")).expect("uri");
    let text = "---@class VpA\n---@field x number\n---@field y string\nlocal A = {}\nA.z = 1\nreturn A\n";
    a.update_file_by_uri(&uri, Some(text.to_string())).expect("file id");
    let owner = LuaMemberOwner::Type(LuaTypeDeclId::global("VpA"));
    let ids: Vec<_> = a
        .compilation
        .get_db()
        .get_member_index()
        .get_members(&owner)
        .map(|ms| ms.iter().map(|m| m.get_id()).collect())
        .unwrap_or_default();
    println!("members of VpA before clear_index(): {}", ids.len());
    if ids.is_empty() {
        eprintln!("scenario did not produce members");
        std::process::exit(2);
    }
    a.compilation.clear_index();
    let db = a.compilation.get_db();
    let stale = ids.iter().filter(|id| db.get_member_index().get_current_owner(id).is_some()).count();
    println!("member ids that still have a current owner after clear_index(): {stale} (a fresh index has 0)");
    std::process::exit(if stale > 0 { 1 } else { 0 });
}
