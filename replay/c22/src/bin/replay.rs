//! C22 witness search / replay on the real LineIndex and LuaDocument. Decides nothing by itself: a hit is
//! a concrete input on which the real code violates the statement of C22; no hit proves nothing.
//!   replay search <seed> <maxlen>     all texts over {a, é, 😀, \n, \r} up to <maxlen> chars (default 5)
//!   replay hex <utf8 hex>             the same checks on one text
//! exit 1 + "FOUND hex=<text> <what>" when a check fails.
use emmylua_code_analysis::{FileId, LuaDocument};
use emmylua_parser::LineIndex;
use rowan::TextSize;
use std::path::PathBuf;

fn hex(s: &str) -> String { s.bytes().map(|b| format!("{b:02x}")).collect() }
fn unhex(h: &str) -> String {
    let bytes: Vec<u8> = (0..h.len() / 2).map(|i| u8::from_str_radix(&h[2 * i..2 * i + 2], 16).unwrap()).collect();
    String::from_utf8(bytes).expect("utf8")
}

/// statement of C22, evaluated at run time; line structure computed independently (split at '\n')
fn check(text: &str) -> Result<(), String> {
    let li = LineIndex::parse(text);
    let mut starts = vec![0usize];
    for (i, b) in text.bytes().enumerate() { if b == b'\n' { starts.push(i + 1); } }
    let nlines = starts.len();
    if li.line_count() != nlines { return Err(format!("line_count {} != {}", li.line_count(), nlines)); }
    let content_end = |l: usize| if l + 1 < nlines { starts[l + 1] - 1 } else { text.len() };
    // (1) offset -> position -> offset
    for off in 0..=text.len() {
        if !text.is_char_boundary(off) { continue; }
        let (l, c) = li.get_line_col(TextSize::from(off as u32), text).ok_or(format!("get_line_col({off}) = None"))?;
        let want_l = starts.iter().rposition(|s| *s <= off).unwrap();
        if l != want_l { return Err(format!("get_line_col({off}) line {l} != {want_l}")); }
        let want_c = text[starts[l]..off].chars().count();
        if c != want_c { return Err(format!("get_line_col({off}) col {c} != {want_c}")); }
        let back = li.get_offset(l, c, text).map(u32::from);
        if back != Some(off as u32) { return Err(format!("round trip: offset {off} -> ({l},{c}) -> {back:?}")); }
    }
    // (2)+(3) position -> offset: None iff the line is missing, else inside the line, exact or clamped
    let path = PathBuf::from("/vp_c22.lua");
    let doc = LuaDocument::new(FileId { id: 0 }, &path, text, &li);
    // ranges -> LSP ranges: both ends are the positions of the two offsets (hence ordered and in the document)
    for a in 0..=text.len() {
        if !text.is_char_boundary(a) { continue; }
        for b in a..=text.len() {
            if !text.is_char_boundary(b) { continue; }
            let want = (li.get_line_col(TextSize::from(a as u32), text).unwrap(), li.get_line_col(TextSize::from(b as u32), text).unwrap());
            let got = doc.to_lsp_range(rowan::TextRange::new(TextSize::from(a as u32), TextSize::from(b as u32)))
                .map(|r| ((r.start.line as usize, r.start.character as usize), (r.end.line as usize, r.end.character as usize)));
            if got != Some(want) { return Err(format!("to_lsp_range([{a},{b})) = {got:?}, expected {want:?}")); }
            let p = doc.to_lsp_position(TextSize::from(b as u32)).map(|p| (p.line as usize, p.character as usize));
            if p != Some(want.1) { return Err(format!("to_lsp_position({b}) = {p:?}, expected {:?}", want.1)); }
        }
    }
    for line in 0..nlines + 2 {
        for col in 0..text.chars().count() + 3 {
            let r = li.get_offset(line, col, text).map(|t| u32::from(t) as usize);
            let r2 = doc.get_offset(line, col).map(|t| u32::from(t) as usize);
            if r != r2 { return Err(format!("LuaDocument::get_offset({line},{col}) = {r2:?} differs from LineIndex {r:?}")); }
            if line >= nlines {
                if r.is_some() { return Err(format!("get_offset({line},{col}) = {r:?} for a missing line")); }
                continue;
            }
            let o = r.ok_or(format!("get_offset({line},{col}) = None for an existing line"))?;
            let (ls, ce) = (starts[line], content_end(line));
            if o < ls || o > ce { return Err(format!("get_offset({line},{col}) = {o} outside its line [{ls},{ce}]")); }
            if !text.is_char_boundary(o) { return Err(format!("get_offset({line},{col}) = {o} not a char boundary")); }
            let n = text[ls..ce].chars().count();
            let want = if col <= n { ls + text[ls..ce].chars().take(col).map(|c| c.len_utf8()).sum::<usize>() } else { ce };
            if o != want { return Err(format!("get_offset({line},{col}) = {o}, expected {want}")); }
            let rel = li.get_col_offset_at_line(line, col, text).map(|t| u32::from(t) as usize);
            if rel != Some(o - ls) { return Err(format!("get_col_offset_at_line({line},{col}) = {rel:?}, expected {}", o - ls)); }
            // ranges through LuaDocument: ordered client ranges stay in the document and agree with get_offset
            for col2 in col..text.chars().count() + 3 {
                let rg = lsp_types::Range { start: lsp_types::Position { line: line as u32, character: col as u32 },
                                            end: lsp_types::Position { line: line as u32, character: col2 as u32 } };
                let got = std::panic::catch_unwind(|| doc.to_rowan_range(rg));
                let e2 = li.get_offset(line, col2, text).map(|t| u32::from(t) as usize).unwrap();
                match got {
                    Err(_) => return Err(format!("to_rowan_range(({line},{col})-({line},{col2})) panicked")),
                    Ok(None) => return Err(format!("to_rowan_range(({line},{col})-({line},{col2})) = None")),
                    Ok(Some(t)) => {
                        let (s, e) = (u32::from(t.start()) as usize, u32::from(t.end()) as usize);
                        if s != o || e != e2 || e > text.len() {
                            return Err(format!("to_rowan_range(({line},{col})-({line},{col2})) = [{s},{e}), expected [{o},{e2})"));
                        }
                    }
                }
            }
        }
    }
    Ok(())
}

fn main() {
    std::panic::set_hook(Box::new(|_| {}));
    let a: Vec<String> = std::env::args().skip(1).collect();
    match a.first().map(|s| s.as_str()) {
        Some("hex") => {
            let t = unhex(a.get(1).map(|s| s.as_str()).unwrap_or(""));
            match check(&t) { Ok(()) => { println!("{t:?}: ok"); } Err(e) => { println!("FOUND hex={} {t:?}: {e}", hex(&t)); std::process::exit(1); } }
        }
        Some("search") => {
            let maxlen: usize = a.get(2).and_then(|x| x.parse().ok()).unwrap_or(5);
            let alpha = ['a', 'é', '😀', '\n', '\r'];
            let mut n = 0u64;
            for len in 0..=maxlen {
                let mut idx = vec![0usize; len];
                loop {
                    let t: String = idx.iter().map(|i| alpha[*i]).collect();
                    n += 1;
                    if let Err(e) = check(&t) { println!("FOUND hex={} {t:?}: {e}", hex(&t)); std::process::exit(1); }
                    let mut k = 0;
                    while k < len { idx[k] += 1; if idx[k] < alpha.len() { break; } idx[k] = 0; k += 1; }
                    if k == len { break; }
                }
            }
            println!("no failing input among {n} texts over {{a, é, 😀, \\n, \\r}} up to {maxlen} chars (all offsets, all (line, col) beyond range)");
        }
        _ => { eprintln!("usage: replay search <seed> <maxlen> | replay hex <hex>"); std::process::exit(2); }
    }
}
