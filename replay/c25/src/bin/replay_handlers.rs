//! Handler-level replay of the two C25 suspects; needs the hook re-exports of proposed_hook_reexports.diff.
//! Each request runs in its own tokio task, as in the server (`ServerContext::task`): a panic ends the task.
use emmylua_code_analysis::VirtualUrlGenerator;
use emmylua_ls::verif_hooks as h;
use lsp_types::*;
use tokio_util::sync::CancellationToken;

fn tdi(uri: &Uri) -> TextDocumentIdentifier { TextDocumentIdentifier { uri: uri.clone() } }

#[tokio::main]
async fn main() {
    std::panic::set_hook(Box::new(|info| { eprintln!("  panic: {}", info.to_string().replace('\n', " ")); }));
    let (server_end, _client_end) = lsp_server::Connection::memory();
    let context = h::ServerContext::new(server_end, ClientCapabilities::default());
    let snap = context.snapshot();
    let generator = VirtualUrlGenerator::new();
    let (a_uri, b_uri, c_uri) = (generator.new_uri("a.lua"), generator.new_uri("b.lua"), generator.new_uri("c.lua"));
    let a_long = format!("local M = {{}}\n{}function M.foo(x, y) return x + y end\nreturn M\n", "-- padding padding padding\n".repeat(40));
    {
        let mut analysis = snap.analysis().write().await;
        analysis.add_main_workspace(generator.base.clone());
        analysis.update_file_by_uri(&a_uri, Some(a_long));
        analysis.update_file_by_uri(&b_uri, Some("local foo = require(\"a\").foo\nfoo(1, 2)\n".to_string()));
        analysis.update_file_by_uri(&c_uri, Some("local a = 1\nlocal b = 2\nlocal c = 3\nlocal d = 4\n".to_string()));
    }
    let mut found = 0;
    let whole = Range::new(Position::new(0, 0), Position::new(2, 0));
    let hint = |snap: h::ServerContextSnapshot, uri: Uri| async move {
        tokio::spawn(h::on_inlay_hint_handler(snap, InlayHintParams { work_done_progress_params: Default::default(), text_document: tdi(&uri), range: whole }, CancellationToken::new())).await
    };
    match hint(snap.clone(), b_uri.clone()).await {
        Ok(r) => println!("inlayHint(b.lua) before the edit: {} hints", r.map(|v| v.len()).unwrap_or(0)),
        Err(_) => { println!("FOUND inlayHint(b.lua) before the edit panicked"); found += 1; }
    }
    // the real didChange notification handler, on a.lua only
    let change = DidChangeTextDocumentParams { text_document: VersionedTextDocumentIdentifier { uri: a_uri.clone(), version: 2 },
        content_changes: vec![TextDocumentContentChangeEvent { range: None, range_length: None, text: "return {}\n".to_string() }] };
    let r = tokio::spawn(h::on_did_change_text_document(snap.clone(), change)).await;
    println!("didChange(a.lua -> \"return {{}}\\n\"): {:?}", r.map(|o| o.is_some()));
    match hint(snap.clone(), b_uri.clone()).await {
        Ok(r) => println!("inlayHint(b.lua) after didChange(a.lua): completed, {} hints", r.map(|v| v.len()).unwrap_or(0)),
        Err(e) => { println!("FOUND stale-signature request=textDocument/inlayHint file=b.lua after didChange(a.lua): the request task panicked ({e})"); found += 1; }
    }
    let p = Position::new;
    for (name, range) in [("ordered", Range::new(p(0, 1), p(0, 5))), ("reversed on one line", Range::new(p(0, 5), p(0, 1))), ("reversed lines", Range::new(p(3, 0), p(1, 0)))] {
        let params = DocumentRangeFormattingParams { text_document: tdi(&c_uri), range,
            options: FormattingOptions { tab_size: 4, insert_spaces: true, ..Default::default() }, work_done_progress_params: Default::default() };
        match tokio::spawn(h::on_range_formatting_handler(snap.clone(), params, CancellationToken::new())).await {
            Ok(r) => println!("rangeFormatting(c.lua, {name}): completed, {}", if r.is_some() { "edits" } else { "null" }),
            Err(e) => { println!("FOUND reversed-range request=textDocument/rangeFormatting file=c.lua range={name} {}:{}-{}:{}: the request task panicked ({e})", range.start.line, range.start.character, range.end.line, range.end.character); found += 1; }
        }
        let params = ColorPresentationParams { text_document: tdi(&c_uri), color: Color { red: 1.0, green: 0.0, blue: 0.0, alpha: 1.0 }, range,
            work_done_progress_params: Default::default(), partial_result_params: Default::default() };
        match tokio::spawn(h::on_document_color_presentation(snap.clone(), params, CancellationToken::new())).await {
            Ok(r) => println!("colorPresentation(c.lua, {name}): completed, {} presentations", r.len()),
            Err(e) => { println!("FOUND reversed-range request=textDocument/colorPresentation file=c.lua range={name} {}:{}-{}:{}: the request task panicked ({e})", range.start.line, range.start.character, range.end.line, range.end.character); found += 1; }
        }
    }
    std::process::exit(if found > 0 { 1 } else { println!("no panic"); 0 });
}
