//! C25 bounded witness search on the REAL request handlers (through the guarded hook
//! `emmylua_ls::verif_hooks`): for a set of valid and invalid documents and every position over, on and
//! beyond each line / the document, every position-taking request must complete (result or null) and never
//! panic.  Decides nothing; a hit is a concrete (request, document, position).
//!   replay search          prints "FOUND hex=<document> request=<name> line=<l> character=<c>" and exits 1
//!   replay hex <hex> <request> <line> <character>
use emmylua_code_analysis::{EmmyLuaAnalysis, FileId, VirtualUrlGenerator};
use emmylua_ls::verif_hooks as h;
use lsp_types::{CompletionTriggerKind, Diagnostic, NumberOrString, Position, Range, SignatureHelpContext, SignatureHelpTriggerKind};
use std::panic::{AssertUnwindSafe, catch_unwind};
use tokio_util::sync::CancellationToken;

fn hex(s: &str) -> String { s.bytes().map(|b| format!("{b:02x}")).collect() }
fn unhex(hx: &str) -> String {
    let bytes: Vec<u8> = (0..hx.len() / 2).map(|i| u8::from_str_radix(&hx[2 * i..2 * i + 2], 16).unwrap()).collect();
    String::from_utf8(bytes).expect("utf8")
}

fn docs() -> Vec<String> {
    ["", "\n", "\nlocal a = 1\n", "local a = 1", "@", "@\nlocal a = 1\n", "local t = {}\nt[#]\nprint(a@)\n@", "require(\"a/", "require(\"", "require('",
     "local m = require(\"", "local s = \"", "---@see a.b\n---@class A 你好 `x.y`\nlocal a = {}\r\nfunction a.f(x, y) return x end\r\na.f(1, \n",
     "local 你好 = 1 -- 😀 emoji\nprint(你好)", "local x = a.\nlocal y = a:\nfoo(", "--- `", "---@", "---@param", "local function f(a, b) end\nf(1,",
     "if a then\n  local b = a?.b\nend end end )", "local t = { a = 1, b = { c = 2 } }\nt.b.\nt.b.c", "---@class C\n---@field x number\nlocal C = {}\nfunction C:m() end\nC:m()\nC.m()",
     "local s = 'é😀'\r\nreturn s:", "a\0b"].iter().map(|s| s.to_string()).collect()
}

fn positions(text: &str) -> Vec<Position> {
    let lines: Vec<&str> = text.split('\n').collect();
    let mut out = vec![];
    for l in 0..lines.len() + 2 {
        let len = lines.get(l).map(|s| s.chars().count()).unwrap_or(0);
        for c in 0..len + 3 { out.push(Position::new(l as u32, c as u32)); }
        out.push(Position::new(l as u32, u32::MAX));
    }
    out.push(Position::new(u32::MAX, 0));
    out.push(Position::new(u32::MAX, u32::MAX));
    out
}

fn setup(text: &str) -> (EmmyLuaAnalysis, FileId) {
    let generator = VirtualUrlGenerator::new();
    let mut analysis = EmmyLuaAnalysis::new();
    analysis.add_main_workspace(generator.base.clone());
    let uri = generator.new_uri("c25.lua");
    let file_id = analysis.update_file_by_uri(&uri, Some(text.to_string())).expect("file id");
    (analysis, file_id)
}

const REQUESTS: &[&str] = &["hover", "definition", "implementation", "references", "rename", "completion", "completion-trigger", "signature", "signature-retrigger", "code_action"];

fn run_one(analysis: &EmmyLuaAnalysis, file_id: FileId, req: &str, pos: Position) -> bool {
    catch_unwind(AssertUnwindSafe(|| match req {
        "hover" => { h::hover(analysis, file_id, pos); }
        "definition" => { h::definition(analysis, file_id, pos); }
        "implementation" => { h::implementation(analysis, file_id, pos); }
        "references" => { h::references(analysis, file_id, pos, true); }
        "rename" => { h::rename(analysis, file_id, pos, "zz".to_string()); }
        "completion" => { h::completion(analysis, file_id, pos, CompletionTriggerKind::INVOKED, CancellationToken::new()); }
        "completion-trigger" => { h::completion(analysis, file_id, pos, CompletionTriggerKind::TRIGGER_CHARACTER, CancellationToken::new()); }
        "signature" | "signature-retrigger" => {
            h::signature_help(analysis, file_id, pos, SignatureHelpContext { trigger_kind: SignatureHelpTriggerKind::INVOKED, trigger_character: None,
                is_retrigger: req == "signature-retrigger", active_signature_help: None });
        }
        _ => {
            for code in ["need-check-nil", "undefined-global", "unknown-doc-tag"] {
                h::code_action(analysis, file_id, vec![Diagnostic { range: Range::new(pos, pos), source: Some("EmmyLua".to_string()),
                    code: Some(NumberOrString::String(code.to_string())), ..Default::default() }]);
            }
        }
    })).is_ok()
}

fn main() {
    std::panic::set_hook(Box::new(|_| {}));
    let a: Vec<String> = std::env::args().skip(1).collect();
    if a.first().map(|s| s.as_str()) == Some("hex") {
        let text = unhex(&a[1]);
        let (analysis, file_id) = setup(&text);
        let pos = Position::new(a[3].parse().unwrap(), a[4].parse().unwrap());
        let ok = run_one(&analysis, file_id, &a[2], pos);
        println!("{} at {:?} on {:?}: {}", a[2], pos, text, if ok { "completed" } else { "PANIC" });
        std::process::exit(if ok { 0 } else { 1 });
    }
    let mut n = 0u64;
    let mut found = 0;
    for text in docs() {
        let (analysis, file_id) = setup(&text);
        for pos in positions(&text) {
            for req in REQUESTS {
                n += 1;
                if !run_one(&analysis, file_id, req, pos) {
                    println!("FOUND hex={} request={req} line={} character={} document={text:?}: the handler panicked", hex(&text), pos.line, pos.character);
                    found += 1;
                    if found >= 5 { std::process::exit(1); }
                }
            }
        }
    }
    if found > 0 { std::process::exit(1); }
    println!("no panic in {n} (request, document, position) combinations: {} requests x {} documents x all positions on, beyond each line and beyond the document", REQUESTS.len(), docs().len());
}
