//! C25 bounded witness search on the REAL request handlers (through the guarded hook
//! `emmylua_ls::verif_hooks`): for a set of valid and invalid documents and every position over, on and
//! beyond each line / the document, every position-taking request must complete (result or null) and never
//! panic.  Decides nothing; a hit is a concrete (request, document, position).
//!   replay search          prints "FOUND hex=<document> request=<name> line=<l> character=<c>" and exits 1
//!   replay hex <hex> <request> <line> <character>
//!   replay stale-signature  b.lua holds Signature(a.lua, P) as the type of an imported function; a.lua is then replaced
//!                           by a text shorter than P (didChange re-analyses a.lua only).  Every exported request at every
//!                           position of b.lua, and inlay hints on b.lua, must not panic.  `inlay_hint` is not exported by
//!                           the hook: by default the statements of `get_call_signature_param_location` are replayed on the
//!                           public API (level=mechanism: blind to a guard inside the handler); with
//!                           `--features handler_hooks` (hook extended by proposed_hook_reexports.diff) the real entry decides.
//!                           prints "FOUND stale-signature ..." and exits 1
//!   replay reversed-range   `LuaDocument::to_rowan_range` (fed the client range unchanged by rangeFormatting and
//!                           colorPresentation) on ranges whose start is after their end.  prints "FOUND reversed-range ..."
use emmylua_code_analysis::{EmmyLuaAnalysis, FileId, LuaType, VirtualUrlGenerator};
use emmylua_parser::{LuaAstNode, LuaCallExpr};
use emmylua_ls::verif_hooks as h;
use lsp_types::{CompletionTriggerKind, Diagnostic, NumberOrString, Position, Range, SignatureHelpContext, SignatureHelpTriggerKind};
use std::panic::{AssertUnwindSafe, catch_unwind};
use tokio_util::sync::CancellationToken;

fn hex(s: &str) -> String { s.bytes().map(|b| format!("{b:02x}")).collect() }
fn unhex(hx: &str) -> String {
    let bytes: Vec<u8> = (0..hx.len() / 2).map(|i| u8::from_str_radix(&hx[2 * i..2 * i + 2], 16).unwrap()).collect();
    String::from_utf8(bytes).expect("utf8")
}

fn docs() -> Vec<String> {
    ["", "\n", "\nlocal a = 1\n", "local a = 1", "@", "@\nlocal a = 1\n", "local t = {}\nt[#]\nprint(a@)\n@", "require(\"a/", "require(\"", "require('",
     "local m = require(\"", "local s = \"", "---@see a.b\n---@class A 你好 `x.y`\nlocal a = {}\r\nfunction a.f(x, y) return x end\r\na.f(1, \n",
     "local 你好 = 1 -- 😀 emoji\nprint(你好)", "local x = a.\nlocal y = a:\nfoo(", "--- `", "---@", "---@param", "local function f(a, b) end\nf(1,",
     "if a then\n  local b = a?.b\nend end end )", "local t = { a = 1, b = { c = 2 } }\nt.b.\nt.b.c", "---@class C\n---@field x number\nlocal C = {}\nfunction C:m() end\nC:m()\nC.m()",
     "local s = 'é😀'\r\nreturn s:", "a\0b"].iter().map(|s| s.to_string()).collect()
}

fn positions(text: &str) -> Vec<Position> {
    let lines: Vec<&str> = text.split('\n').collect();
    let mut out = vec![];
    for l in 0..lines.len() + 2 {
        let len = lines.get(l).map(|s| s.chars().count()).unwrap_or(0);
        for c in 0..len + 3 { out.push(Position::new(l as u32, c as u32)); }
        out.push(Position::new(l as u32, u32::MAX));
    }
    out.push(Position::new(u32::MAX, 0));
    out.push(Position::new(u32::MAX, u32::MAX));
    out
}

fn setup(text: &str) -> (EmmyLuaAnalysis, FileId) {
    let generator = VirtualUrlGenerator::new();
    let mut analysis = EmmyLuaAnalysis::new();
    analysis.add_main_workspace(generator.base.clone());
    let uri = generator.new_uri("c25.lua");
    let file_id = analysis.update_file_by_uri(&uri, Some(text.to_string())).expect("file id");
    (analysis, file_id)
}

const REQUESTS: &[&str] = &["hover", "definition", "implementation", "references", "rename", "completion", "completion-trigger", "signature", "signature-retrigger", "code_action"];

fn run_one(analysis: &EmmyLuaAnalysis, file_id: FileId, req: &str, pos: Position) -> bool {
    catch_unwind(AssertUnwindSafe(|| match req {
        "hover" => { h::hover(analysis, file_id, pos); }
        "definition" => { h::definition(analysis, file_id, pos); }
        "implementation" => { h::implementation(analysis, file_id, pos); }
        "references" => { h::references(analysis, file_id, pos, true); }
        "rename" => { h::rename(analysis, file_id, pos, "zz".to_string()); }
        "completion" => { h::completion(analysis, file_id, pos, CompletionTriggerKind::INVOKED, CancellationToken::new()); }
        "completion-trigger" => { h::completion(analysis, file_id, pos, CompletionTriggerKind::TRIGGER_CHARACTER, CancellationToken::new()); }
        "signature" | "signature-retrigger" => {
            h::signature_help(analysis, file_id, pos, SignatureHelpContext { trigger_kind: SignatureHelpTriggerKind::INVOKED, trigger_character: None,
                is_retrigger: req == "signature-retrigger", active_signature_help: None });
        }
        _ => {
            for code in ["need-check-nil", "undefined-global", "unknown-doc-tag"] {
                h::code_action(analysis, file_id, vec![Diagnostic { range: Range::new(pos, pos), source: Some("EmmyLua".to_string()),
                    code: Some(NumberOrString::String(code.to_string())), ..Default::default() }]);
            }
        }
    })).is_ok()
}

thread_local! { static LAST_PANIC: std::cell::RefCell<String> = const { std::cell::RefCell::new(String::new()) }; }
fn last_panic() -> String { LAST_PANIC.with(|c| c.borrow().clone()) }

/// Suspect A.  Request sequence: didOpen a.lua (long), didOpen b.lua, didChange a.lua (short), then requests on b.lua.
fn stale_signature() -> i32 {
    let generator = VirtualUrlGenerator::new();
    let mut analysis = EmmyLuaAnalysis::new();
    analysis.add_main_workspace(generator.base.clone());
    let a_uri = generator.new_uri("a.lua");
    let b_uri = generator.new_uri("b.lua");
    let a_long = format!("local M = {{}}\n{}function M.foo(x, y) return x + y end\nreturn M\n", "-- padding padding padding\n".repeat(40));
    let a_short = "return {}\n";
    let b_text = "local foo = require(\"a\").foo\nfoo(1, 2)\n";
    let a_id = analysis.update_file_by_uri(&a_uri, Some(a_long.clone())).expect("a");
    let b_id = analysis.update_file_by_uri(&b_uri, Some(b_text.to_string())).expect("b");
    let callee_type = |analysis: &EmmyLuaAnalysis| -> Option<LuaType> {
        let model = analysis.compilation.get_semantic_model(b_id)?;
        let call = model.get_root().descendants::<LuaCallExpr>().find(|c| c.syntax().text().to_string().starts_with("foo("))?;
        Some(model.get_semantic_info(rowan::NodeOrToken::Node(call.get_prefix_expr()?.syntax().clone()))?.typ)
    };
    let before = callee_type(&analysis);
    println!("before the edit: a.lua is {} bytes, type of `foo` in b.lua = {before:?}", a_long.len());
    // textDocument/didChange on a.lua: `on_did_change_text_document` calls exactly this, for the changed file only.
    analysis.update_file_by_uri(&a_uri, Some(a_short.to_string()));
    let after = callee_type(&analysis);
    println!("after the edit:  a.lua is {} bytes, type of `foo` in b.lua = {after:?}", a_short.len());
    let _ = a_id;
    let mut found = 0;
    // (1) textDocument/inlayHint on b.lua.  With `--features handler_hooks` (needs proposed_hook_reexports.diff in the hook) the
    //     real synchronous entry `inlay_hint` decides.  Without it the entry is not reachable: the statements of
    //     inlay_hint/build_inlay_hint.rs get_call_signature_param_location (lines 93-99) are replayed on the public API; that
    //     level shows the stale position and the rowan panic, it cannot see a guard added inside the handler.
    #[cfg(feature = "handler_hooks")]
    {
        let _ = &after;
        match catch_unwind(AssertUnwindSafe(|| h::inlay_hint(&analysis, b_id, h::ClientId::VSCode))) {
            Ok(r) => println!("inlayHint(b.lua) after didChange(a.lua) through the real handler: completed, {} hints", r.map(|v| v.len()).unwrap_or(0)),
            Err(_) => {
                println!("FOUND stale-signature level=handler request=textDocument/inlayHint file=b.lua after didChange(a.lua): the handler panicked: {}", last_panic());
                found += 1;
            }
        }
    }
    #[cfg(not(feature = "handler_hooks"))]
    if let Some(LuaType::Signature(signature_id)) = &after {
        let model = analysis.compilation.get_semantic_model(b_id).expect("model");
        let sig_file_id = signature_id.get_file_id();
        let sig_position = signature_id.get_position();
        if let Some(root) = model.get_root_by_file_id(sig_file_id) {
            let end = root.syntax().text_range().end();
            println!("inlay hint lookup: token_at_offset({sig_position:?}) on the root of file {sig_file_id:?} (is a.lua: {}) whose range ends at {end:?}", sig_file_id == a_id);
            if catch_unwind(AssertUnwindSafe(|| { let _ = root.syntax().token_at_offset(sig_position); })).is_err() {
                println!("FOUND stale-signature level=mechanism site=inlay_hint/build_inlay_hint.rs:99 request=textDocument/inlayHint(b.lua) after didChange(a.lua): token_at_offset({sig_position:?}) beyond the end {end:?} panicked: {}", last_panic());
                found += 1;
            }
        }
    } else {
        println!("the type of `foo` is no longer a Signature of a.lua: build_inlay_hint.rs:99 is not reached with a stale position");
    }
    // (2) every exported handler entry point at every position of b.lua (definition on `foo` is the route to goto_function.rs:161)
    let mut n = 0u64;
    for pos in positions(b_text) {
        for req in REQUESTS {
            n += 1;
            if !run_one(&analysis, b_id, req, pos) {
                println!("FOUND stale-signature request={req} file=b.lua line={} character={} after didChange(a.lua): the handler panicked: {}", pos.line, pos.character, last_panic());
                found += 1;
            }
        }
    }
    println!("{n} (request, position) combinations on b.lua after the edit through the exported handlers ({})", REQUESTS.join(", "));
    if found > 0 { 1 } else { println!("no panic"); 0 }
}

/// Suspect B.  `to_rowan_range` is what rangeFormatting (document_range_formatting/mod.rs:75) and colorPresentation
/// (document_color/mod.rs:65) call with the client's `params.range` unchanged.
fn reversed_range() -> i32 {
    let text = "local a = 1\nlocal b = 2\nlocal c = 3\nlocal d = 4\n";
    let (analysis, file_id) = setup(text);
    let document = analysis.compilation.get_db().get_vfs().get_document(&file_id).expect("document");
    let p = Position::new;
    let cases = [("ordered", Range::new(p(0, 1), p(0, 5))), ("empty", Range::new(p(1, 3), p(1, 3))), ("beyond the document", Range::new(p(0, 0), p(99, 0))),
        ("reversed on one line", Range::new(p(0, 5), p(0, 1))), ("reversed lines", Range::new(p(3, 0), p(1, 0))), ("reversed, start beyond the line", Range::new(p(0, u32::MAX), p(0, 0)))];
    let mut found = 0;
    for (name, range) in cases {
        match catch_unwind(AssertUnwindSafe(|| document.to_rowan_range(range))) {
            Ok(r) => println!("to_rowan_range {name} {}:{}-{}:{} -> {r:?}", range.start.line, range.start.character, range.end.line, range.end.character),
            Err(_) => {
                println!("FOUND reversed-range case={name:?} start={}:{} end={}:{} document={text:?}: LuaDocument::to_rowan_range panicked: {}",
                    range.start.line, range.start.character, range.end.line, range.end.character, last_panic());
                found += 1;
            }
        }
    }
    if found > 0 { 1 } else { println!("no panic"); 0 }
}

fn main() {
    std::panic::set_hook(Box::new(|info| { LAST_PANIC.with(|c| *c.borrow_mut() = info.to_string().replace('\n', " ")); }));
    let a: Vec<String> = std::env::args().skip(1).collect();
    match a.first().map(|s| s.as_str()) {
        Some("stale-signature") => std::process::exit(stale_signature()),
        Some("reversed-range") => std::process::exit(reversed_range()),
        _ => {}
    }
    if a.first().map(|s| s.as_str()) == Some("hex") {
        let text = unhex(&a[1]);
        let (analysis, file_id) = setup(&text);
        let pos = Position::new(a[3].parse().unwrap(), a[4].parse().unwrap());
        let ok = run_one(&analysis, file_id, &a[2], pos);
        println!("{} at {:?} on {:?}: {}", a[2], pos, text, if ok { "completed" } else { "PANIC" });
        std::process::exit(if ok { 0 } else { 1 });
    }
    let mut n = 0u64;
    let mut found = 0;
    for text in docs() {
        let (analysis, file_id) = setup(&text);
        for pos in positions(&text) {
            for req in REQUESTS {
                n += 1;
                if !run_one(&analysis, file_id, req, pos) {
                    println!("FOUND hex={} request={req} line={} character={} document={text:?}: the handler panicked", hex(&text), pos.line, pos.character);
                    found += 1;
                    if found >= 5 { std::process::exit(1); }
                }
            }
        }
    }
    if found > 0 { std::process::exit(1); }
    println!("no panic in {n} (request, document, position) combinations: {} requests x {} documents x all positions on, beyond each line and beyond the document", REQUESTS.len(), docs().len());
}
