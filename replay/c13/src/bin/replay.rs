//! C13 bounded witness search: "For every use of a name, go-to-definition, hover and references resolve to the local
//! declaration that Lua's lexical scoping makes visible there, or to the global if no local is visible. This covers
//! shadowing, `local x = x`, local functions, loop variables (not visible in loop-header expressions), repeat-until and
//! duplicate names in one declaration." -- on the REAL crate through its public API only (`VirtualWorkspace::def_file`,
//! `compilation.get_semantic_model(file_id)`, `SemanticModel::{find_decl, get_semantic_info}`,
//! `db.get_reference_index().{get_var_reference_decl, get_decl_references, get_decl_references_map}`,
//! `db.get_decl_index().get_decl`).  The deductive unit `c13_scope` decides the LOOKUP half (LuaDeclarationTree); the
//! scope-tree BUILDER (the AST walk in compilation/analyzer/decl) and the reference index are outside it: this driver
//! covers them with generated programs.  It decides nothing: a hit is a concrete program (or two versions of one).
//!
//!   replay search [seed] [count]   `count` generated programs (default seed 1, 3000 programs); each is analysed, then
//!                                  re-submitted on the same uri as an equally long variant P' (names swapped / renamed
//!                                  so that every token keeps its range), then as P again; all clauses are checked
//!                                  after every step.  `FOUND <clause> ...` + the minimised program + exit 1 on the
//!                                  first violation; exit 0 otherwise; exit 2 when a scenario cannot be set up
//!                                  (generated text does not parse, no semantic model, file id changes on an edit)
//!     --known <file|none>          open findings that are printed as `KNOWN-OPEN <id> ...` (first instance minimised,
//!                                  the rest counted) and do not fail; default: known_open_findings.txt next to
//!                                  Cargo.toml (L1, L2: two genuine defects of the unchanged tree, described there);
//!                                  `--known none`: they are FOUND + exit 1.  A known id is accepted only for the exact
//!                                  shape it names (decided on the generator tree), every other violation in the same
//!                                  program is still FOUND.
//!   replay show <seed> <k>         program k of a search in both versions, the oracle table and what the real code says
//!   replay text <lua file>         the resolution table of the real code for one program (no oracle: no generator tree)
//!
//! GENERATOR  programs of 5-25 statements from a tree; name pool a b x f i k v self (this); statements: `local a`,
//!   `local a, b = e1, e2` (duplicates `local a, a = 1, 2`, `<const>`), `local x = x`, `local function f(p, ...) .. f() .. end`,
//!   `local f = function(p) f() end`, `function f(p)`, `function t.m(p)`, `function t:m(p, self)` (written parameter called
//!   self), `do`, `if/elseif/else`, `while`, numeric `for i = i, i2 do` and generic `for k, v in e(k) do` (header
//!   expressions prefer the loop names and contain closures `(function() return i end)()`), `repeat local u .. until u`,
//!   assignments (names, fields, several targets), calls, method calls, closures capturing upvalues, `...`, tables,
//!   return / break.  Separators between statements are newline / blank / `;` / NOTHING (`local cfg={}cfg.debug=true`,
//!   `local n=f()n=n+1`), also directly after `)` of a parameter list and directly before `end`; programs start at
//!   offset 0 or after a newline and end with or without one.  goto / labels are not generated.
//! ORACLE  written here from the reference manual (section 3.5 "the scope of a local variable begins at the first
//!   statement after its declaration and lasts until the last non-void statement of the innermost block that includes
//!   the declaration"; 3.3.7 `local x = x`; 3.4.11 `local function f` is `local f; f = function`, parameters and the
//!   implicit `self` of a colon function (first parameter) are locals of the body; 3.3.5 loop variables are local to the
//!   loop body, the header expressions are evaluated before; 3.3.4 the `until` condition sees the locals of the body;
//!   a later declaration shadows).  It runs on the generator's tree while the text is emitted: an environment stack, no
//!   parsing, no code of the crate.  For every name USE: the declaration (by text offset) or `global`.
//! CLAUSES  [builder] every declaration of the oracle exists in the declaration index at its offset with its name;
//!   [resolve] `get_var_reference_decl(range of the use)` is the oracle's declaration (a global: none, or a global
//!   declaration of that name); [references] `get_decl_references(decl)` is exactly the set of uses the oracle binds to
//!   it, and no other declaration owns a range; [definition] `find_decl(token, NoTrace)` (rename, highlight, references)
//!   names the same declaration -- for the implicit `self` of `function t:m()` the handlers go to `t`, so the declaration
//!   the oracle gives for that `t`; [definition-trace] / [hover] `find_decl(token, default)` and
//!   `get_semantic_info(token).semantic_decl` agree unless the declaration is initialised by a name / field / call
//!   (then following the value is the documented behaviour and is not judged).  Suffix `after edit` / `after edit back`:
//!   the same clauses on P' / on P again, on the same uri.
//! BOUNDS  seed-determined; 3000 programs (about 54 000 statements, 79 000 name uses) x 3 analyses by default, 20-30 s in a debug build.
use emmylua_code_analysis::{FileId, LuaDeclId, LuaSemanticDeclId, SemanticDeclLevel, VirtualWorkspace};
use emmylua_parser::{LuaAstNode, LuaAstToken, LuaNameExpr, LuaSyntaxToken};
use rowan::{NodeOrToken, TextRange, TextSize, TokenAtOffset};
use std::collections::{BTreeMap, BTreeSet};

// ------------------------------------------------------------------------------------------------ rng
#[derive(Clone)]
struct Rng(u64);
impl Rng {
    fn next(&mut self) -> u64 {
        self.0 = self.0.wrapping_add(0x9E37_79B9_7F4A_7C15);
        let mut z = self.0;
        z = (z ^ (z >> 30)).wrapping_mul(0xBF58_476D_1CE4_E5B9);
        z = (z ^ (z >> 27)).wrapping_mul(0x94D0_49BB_1331_11EB);
        z ^ (z >> 31)
    }
    fn below(&mut self, n: usize) -> usize { (self.next() % n.max(1) as u64) as usize }
    fn chance(&mut self, pct: u32) -> bool { self.next() % 100 < pct as u64 }
    fn pick<T: Clone>(&mut self, xs: &[T]) -> T { xs[self.below(xs.len())].clone() }
}

// ------------------------------------------------------------------------------------------------ tree
/// a name occurrence: its text in version 0 (P) and version 1 (P'); equal lengths
#[derive(Clone, Debug)]
struct Nm([String; 2]);
impl Nm { fn same(s: &str) -> Nm { Nm([s.to_string(), s.to_string()]) } }

#[derive(Clone, Debug)]
enum Expr {
    Num(u32), Str, Nil, True, Dots,
    Name(Nm),
    Index(Box<Expr>, &'static str),
    IndexE(Box<Expr>, Box<Expr>),
    Call(Box<Expr>, Vec<Expr>),
    MCall(Box<Expr>, &'static str, Vec<Expr>),
    Bin(Box<Expr>, &'static str, Box<Expr>),
    Not(Box<Expr>),
    Paren(Box<Expr>),
    Func(Box<FuncBody>),
    Table(Vec<(TKey, Expr)>),
}
#[derive(Clone, Debug)]
enum TKey { Pos, Field(&'static str), Expr(Expr) }
#[derive(Clone, Debug)]
struct FuncBody { params: Vec<Nm>, vararg: bool, body: Block }
#[derive(Clone, Copy, Debug, PartialEq)]
enum Sep { Nl, Sp, Semi, Tight }
#[derive(Clone, Debug)]
struct Block { stats: Vec<Stat>, close: Sep }
#[derive(Clone, Debug)]
struct Stat { kind: StatKind, sep: Sep, tight: bool }
#[derive(Clone, Debug)]
enum StatKind {
    Local { names: Vec<(Nm, bool)>, exprs: Vec<Expr> },
    LocalFunc { name: Nm, f: FuncBody },
    Func { root: Nm, fields: Vec<&'static str>, method: Option<&'static str>, f: FuncBody },
    Assign { targets: Vec<Expr>, exprs: Vec<Expr> },
    Call(Expr),
    Do(Block),
    While(Expr, Block),
    If(Vec<(Expr, Block)>, Option<Block>),
    NumFor { var: Nm, from: Expr, to: Expr, step: Option<Expr>, body: Block },
    GenFor { vars: Vec<Nm>, exprs: Vec<Expr>, body: Block },
    Repeat(Block, Expr),
    Return(Vec<Expr>),
    Break,
}

fn is_prefix(e: &Expr) -> bool { matches!(e, Expr::Name(_) | Expr::Index(..) | Expr::IndexE(..) | Expr::Call(..) | Expr::MCall(..) | Expr::Paren(_)) }
/// would the text of this (prefix) expression start with `(`
fn starts_with_paren(e: &Expr) -> bool {
    match e {
        Expr::Paren(_) => true,
        Expr::Index(b, _) | Expr::IndexE(b, _) | Expr::Call(b, _) | Expr::MCall(b, _, _) => !is_prefix(b) || starts_with_paren(b),
        Expr::Name(_) => false,
        _ => true,
    }
}

// ------------------------------------------------------------------------------------------------ generator
const NAMES1: &[&str] = &["a", "b", "x", "f", "i", "k", "v"];
const FIELDS: &[&str] = &["m", "n", "a", "x", "debug", "set"];

struct Gen { rng: Rng, budget: i32, hot: Vec<String> }

impl Gen {
    fn name(&mut self) -> String {
        if !self.hot.is_empty() && self.rng.chance(55) { return self.rng.pick(&self.hot); }
        if self.rng.chance(9) { "self".to_string() } else { self.rng.pick(NAMES1).to_string() }
    }
    fn nm(&mut self) -> Nm { let n = self.name(); Nm::same(&n) }
    fn with_hot<T>(&mut self, hot: Vec<String>, f: impl FnOnce(&mut Gen) -> T) -> T {
        let saved = std::mem::replace(&mut self.hot, hot);
        let r = f(self);
        self.hot = saved;
        r
    }
    fn sep(&mut self) -> Sep { match self.rng.below(100) { 0..=44 => Sep::Nl, 45..=61 => Sep::Sp, 62..=71 => Sep::Semi, _ => Sep::Tight } }

    fn args(&mut self, d: u32, va: bool) -> Vec<Expr> { let n = self.rng.below(3); (0..n).map(|_| self.expr(d, va)).collect() }

    fn callee(&mut self, d: u32, va: bool) -> Expr {
        match self.rng.below(10) {
            0..=6 => Expr::Name(self.nm()),
            7 | 8 => Expr::Index(Box::new(Expr::Name(self.nm())), self.rng.pick(FIELDS)),
            _ if d > 0 && self.budget > 0 => Expr::Paren(Box::new(Expr::Func(Box::new(self.func(3, false, va))))),
            _ => Expr::Name(self.nm()),
        }
    }

    fn expr(&mut self, d: u32, va: bool) -> Expr {
        if d == 0 {
            return match self.rng.below(100) {
                0..=64 => Expr::Name(self.nm()),
                65..=84 => Expr::Num(self.rng.below(10) as u32),
                85..=89 => Expr::Str,
                90..=92 => Expr::Nil,
                93..=94 => Expr::True,
                _ => if va { Expr::Dots } else { Expr::Name(self.nm()) },
            };
        }
        match self.rng.below(100) {
            0..=34 => Expr::Name(self.nm()),
            35..=42 => Expr::Num(self.rng.below(10) as u32),
            43..=58 => { let c = self.callee(d - 1, va); Expr::Call(Box::new(c), self.args(d - 1, va)) }
            59..=66 => Expr::Index(Box::new(Expr::Name(self.nm())), self.rng.pick(FIELDS)),
            67..=70 => Expr::IndexE(Box::new(Expr::Name(self.nm())), Box::new(self.expr(d - 1, va))),
            71..=80 => { let op = self.rng.pick(&["+", "-", "*", "..", "==", "<", "and", "or"]); Expr::Bin(Box::new(self.expr(d - 1, va)), op, Box::new(self.expr(d - 1, va))) }
            81..=88 => if self.budget > 0 { Expr::Func(Box::new(self.func(3, false, va))) } else { Expr::Name(self.nm()) },
            89..=92 => { let n = self.rng.below(3); Expr::Table((0..n).map(|_| { let k = match self.rng.below(3) { 0 => TKey::Pos, 1 => TKey::Field(self.rng.pick(FIELDS)), _ => TKey::Expr(self.expr(0, va)) }; (k, self.expr(d - 1, va)) }).collect()) }
            93..=95 => Expr::Paren(Box::new(self.expr(d - 1, va))),
            96..=97 => Expr::MCall(Box::new(Expr::Name(self.nm())), self.rng.pick(FIELDS), self.args(d - 1, va)),
            _ => Expr::Not(Box::new(self.expr(d - 1, va))),
        }
    }

    /// `depth` is the block depth of the body; `method`: a colon function (a written `self` parameter is likely)
    fn func(&mut self, depth: u32, method: bool, _outer_va: bool) -> FuncBody {
        let n = self.rng.below(3);
        let mut params: Vec<Nm> = (0..n).map(|_| self.nm()).collect();
        if (method && self.rng.chance(45)) || self.rng.chance(4) { let at = self.rng.below(params.len() + 1); params.insert(at, Nm::same("self")); }
        let vararg = self.rng.chance(20);
        let mut hot = self.hot.clone();
        for p in &params { hot.push(p.0[0].clone()); }
        if method { hot.push("self".to_string()); }
        let max = 1 + self.rng.below(3);
        let body = self.with_hot(hot, |g| g.block(depth, false, vararg, true, max));
        FuncBody { params, vararg, body }
    }

    fn block(&mut self, depth: u32, in_loop: bool, va: bool, is_func: bool, max: usize) -> Block {
        let n = if self.rng.chance(5) { 0 } else { 1 + self.rng.below(max) };
        let mut stats = Vec::new();
        for _ in 0..n {
            if self.budget <= 0 && !stats.is_empty() { break; }
            stats.push(self.stat(depth, in_loop, va));
        }
        if is_func && self.rng.chance(45) {
            let n = 1 + self.rng.below(2);
            let exprs = (0..n).map(|_| self.expr(1, va)).collect();
            stats.push(Stat { kind: StatKind::Return(exprs), sep: self.sep(), tight: self.rng.chance(35) });
        } else if in_loop && self.rng.chance(8) {
            stats.push(Stat { kind: StatKind::Break, sep: self.sep(), tight: false });
        }
        Block { stats, close: self.sep() }
    }

    fn stat(&mut self, depth: u32, in_loop: bool, va: bool) -> Stat {
        self.budget -= 1;
        let sep = self.sep();
        let tight = self.rng.chance(40);
        let compound = depth < 3 && self.budget > 0;
        let r = self.rng.below(100);
        let kind = match r {
            0..=27 => self.local_stat(va),
            28..=41 => {
                let n = 1 + self.rng.below(2);
                let targets: Vec<Expr> = (0..n).map(|_| match self.rng.below(10) {
                    0..=5 => Expr::Name(self.nm()),
                    6..=8 => Expr::Index(Box::new(Expr::Name(self.nm())), self.rng.pick(FIELDS)),
                    _ => Expr::IndexE(Box::new(Expr::Name(self.nm())), Box::new(self.expr(1, va))),
                }).collect();
                let hot: Vec<String> = targets.iter().filter_map(|t| if let Expr::Name(n) = t { Some(n.0[0].clone()) } else { None }).chain(self.hot.clone()).collect();
                let m = 1 + self.rng.below(n);
                let exprs = self.with_hot(hot, |g| (0..m).map(|_| g.expr(2, va)).collect());
                StatKind::Assign { targets, exprs }
            }
            42..=51 => {
                let c = match self.rng.below(10) { 0..=6 => Expr::Name(self.nm()), _ => Expr::Index(Box::new(Expr::Name(self.nm())), self.rng.pick(FIELDS)) };
                if self.rng.chance(15) { StatKind::Call(Expr::MCall(Box::new(c), self.rng.pick(FIELDS), self.args(2, va))) } else { StatKind::Call(Expr::Call(Box::new(c), self.args(2, va))) }
            }
            52..=59 if compound => {
                let name = self.nm();
                let mut hot = self.hot.clone(); hot.push(name.0[0].clone());
                let f = self.with_hot(hot, |g| g.func(depth + 1, false, va));
                StatKind::LocalFunc { name, f }
            }
            60..=67 if compound => {
                let root = self.nm();
                let (fields, method): (Vec<&'static str>, Option<&'static str>) = match self.rng.below(10) {
                    0..=1 => (vec![], None),
                    2..=4 => (vec![self.rng.pick(FIELDS)], None),
                    5..=8 => (vec![], Some(self.rng.pick(FIELDS))),
                    _ => (vec![self.rng.pick(FIELDS)], Some(self.rng.pick(FIELDS))),
                };
                let mut hot = self.hot.clone(); hot.push(root.0[0].clone());
                let is_method = method.is_some();
                let f = self.with_hot(hot, |g| g.func(depth + 1, is_method, va));
                StatKind::Func { root, fields, method, f }
            }
            68..=72 if compound => StatKind::Do(self.block(depth + 1, in_loop, va, false, 3)),
            73..=78 if compound => {
                let n = 1 + self.rng.below(3);
                let arms = (0..n).map(|_| (self.expr(2, va), self.block(depth + 1, in_loop, va, false, 2))).collect();
                let els = if self.rng.chance(50) { Some(self.block(depth + 1, in_loop, va, false, 2)) } else { None };
                StatKind::If(arms, els)
            }
            79..=81 if compound => StatKind::While(self.expr(2, va), self.block(depth + 1, true, va, false, 3)),
            82..=87 if compound => {
                let var = self.nm();
                let mut hot = self.hot.clone(); hot.push(var.0[0].clone()); hot.push(var.0[0].clone());
                self.with_hot(hot, |g| {
                    let from = g.header_expr(va); let to = g.header_expr(va);
                    let step = if g.rng.chance(25) { Some(g.header_expr(va)) } else { None };
                    let body = g.block(depth + 1, true, va, false, 3);
                    StatKind::NumFor { var, from, to, step, body }
                })
            }
            88..=93 if compound => {
                let n = 1 + self.rng.below(3);
                let vars: Vec<Nm> = (0..n).map(|_| if self.rng.chance(60) { Nm::same(self.rng.pick(&["k", "v", "i"])) } else { self.nm() }).collect();
                let mut hot = self.hot.clone(); for v in &vars { hot.push(v.0[0].clone()); hot.push(v.0[0].clone()); }
                self.with_hot(hot, |g| {
                    let m = 1 + g.rng.below(2);
                    let exprs = (0..m).map(|_| g.header_expr(va)).collect();
                    let body = g.block(depth + 1, true, va, false, 3);
                    StatKind::GenFor { vars, exprs, body }
                })
            }
            94..=99 if compound => {
                let body = self.block(depth + 1, true, va, false, 3);
                let mut hot = self.hot.clone();
                for s in &body.stats { if let StatKind::Local { names, .. } = &s.kind { for (n, _) in names { hot.push(n.0[0].clone()); hot.push(n.0[0].clone()); } } if let StatKind::LocalFunc { name, .. } = &s.kind { hot.push(name.0[0].clone()); } }
                let cond = self.with_hot(hot, |g| g.expr(2, va));
                StatKind::Repeat(body, cond)
            }
            _ => self.local_stat(va),
        };
        Stat { kind, sep, tight }
    }

    /// header expressions of loops: names (mostly the loop names), calls on them, immediately called closures
    fn header_expr(&mut self, va: bool) -> Expr {
        match self.rng.below(10) {
            0..=2 => Expr::Name(self.nm()),
            3..=4 => Expr::Call(Box::new(Expr::Name(self.nm())), self.args(1, va)),
            5..=6 if self.budget > 0 => Expr::Call(Box::new(Expr::Paren(Box::new(Expr::Func(Box::new(self.func(3, false, va)))))), vec![]),
            7 if self.budget > 0 => Expr::Func(Box::new(self.func(3, false, va))),
            _ => self.expr(2, va),
        }
    }

    fn local_stat(&mut self, va: bool) -> StatKind {
        let r = self.rng.below(100);
        if r < 14 {
            // local x = x
            let n = self.nm();
            return StatKind::Local { names: vec![(n.clone(), false)], exprs: vec![Expr::Name(n)] };
        }
        if r < 28 && self.budget > 0 {
            // local f = function(p) f() end
            let n = self.nm();
            let mut hot = self.hot.clone(); hot.push(n.0[0].clone()); hot.push(n.0[0].clone());
            let f = self.with_hot(hot, |g| g.func(3, false, va));
            return StatKind::Local { names: vec![(n, false)], exprs: vec![Expr::Func(Box::new(f))] };
        }
        let n = 1 + self.rng.below(3);
        let mut names: Vec<(Nm, bool)> = (0..n).map(|_| (self.nm(), false)).collect();
        if n > 1 && self.rng.chance(25) { let d = names[0].clone(); let at = 1 + self.rng.below(n - 1); names[at] = d; }
        let m = self.rng.below(n + 1);
        if m > 0 && self.rng.chance(8) { names[0].1 = true; }
        let hot: Vec<String> = names.iter().map(|(n, _)| n.0[0].clone()).chain(self.hot.clone()).collect();
        let exprs = self.with_hot(hot, |g| (0..m).map(|_| g.expr(2, va)).collect());
        StatKind::Local { names, exprs }
    }
}

fn other_name(rng: &mut Rng, s: &str) -> String {
    if s.len() == 4 { return if s == "self" { "this".to_string() } else { "self".to_string() }; }
    loop { let n = rng.pick(NAMES1); if n != s { return n.to_string(); } }
}

/// every name occurrence of the tree, in a fixed order; `true` = a declaration
fn visit_nms(b: &mut Block, f: &mut dyn FnMut(&mut Nm, bool)) {
    fn ex(e: &mut Expr, f: &mut dyn FnMut(&mut Nm, bool)) {
        match e {
            Expr::Name(n) => f(n, false),
            Expr::Index(b, _) | Expr::Not(b) | Expr::Paren(b) => ex(b, f),
            Expr::IndexE(a, b) | Expr::Bin(a, _, b) => { ex(a, f); ex(b, f) }
            Expr::Call(c, a) | Expr::MCall(c, _, a) => { ex(c, f); for x in a { ex(x, f) } }
            Expr::Func(fb) => fun(fb, f),
            Expr::Table(items) => for (k, v) in items { if let TKey::Expr(k) = k { ex(k, f) } ex(v, f) },
            _ => {}
        }
    }
    fn fun(fb: &mut FuncBody, f: &mut dyn FnMut(&mut Nm, bool)) { for p in &mut fb.params { f(p, true) } visit_nms(&mut fb.body, f) }
    for s in &mut b.stats {
        match &mut s.kind {
            StatKind::Local { names, exprs } => { for (n, _) in names { f(n, true) } for e in exprs { ex(e, f) } }
            StatKind::LocalFunc { name, f: fb } => { f(name, true); fun(fb, f) }
            StatKind::Func { root, f: fb, .. } => { f(root, false); fun(fb, f) }
            StatKind::Assign { targets, exprs } => { for e in targets { ex(e, f) } for e in exprs { ex(e, f) } }
            StatKind::Call(e) => ex(e, f),
            StatKind::Do(b) => visit_nms(b, f),
            StatKind::While(c, b) => { ex(c, f); visit_nms(b, f) }
            StatKind::If(arms, els) => { for (c, b) in arms { ex(c, f); visit_nms(b, f) } if let Some(b) = els { visit_nms(b, f) } }
            StatKind::NumFor { var, from, to, step, body } => { f(var, true); ex(from, f); ex(to, f); if let Some(s) = step { ex(s, f) } visit_nms(body, f) }
            StatKind::GenFor { vars, exprs, body } => { for v in vars { f(v, true) } for e in exprs { ex(e, f) } visit_nms(body, f) }
            StatKind::Repeat(b, c) => { visit_nms(b, f); ex(c, f) }
            StatKind::Return(es) => for e in es { ex(e, f) },
            StatKind::Break => {}
        }
    }
}

fn generate(seed: u64, k: u64) -> Block {
    let mut rng = Rng(seed.wrapping_mul(0x1000_0000_01B3).wrapping_add(k.wrapping_mul(0x9E37_79B9)).wrapping_add(17));
    rng.next();
    let total = 5 + rng.below(21) as i32;
    let mut g = Gen { rng, budget: total, hot: vec![] };
    let mut stats = Vec::new();
    while g.budget > 0 { stats.push(g.stat(0, false, true)); }
    if g.rng.chance(20) { let e = g.expr(1, true); stats.push(Stat { kind: StatKind::Return(vec![e]), sep: g.sep(), tight: false }); }
    let mut chunk = Block { stats, close: g.sep() };
    // version 1: equally long renames; declarations more often than uses; plus one explicit swap of two declarations
    let mut rng = g.rng.clone();
    let mut decl_names: Vec<String> = Vec::new();
    visit_nms(&mut chunk, &mut |n, d| if d { decl_names.push(n.0[0].clone()) });
    let swap = if decl_names.len() >= 2 && rng.chance(60) {
        let i = rng.below(decl_names.len());
        let cands: Vec<usize> = (0..decl_names.len()).filter(|&j| decl_names[j] != decl_names[i] && decl_names[j].len() == decl_names[i].len()).collect();
        if cands.is_empty() { None } else { let j = rng.pick(&cands); Some((i, j)) }
    } else { None };
    let mut changed = 0;
    let mut di = 0usize;
    let names_snapshot = decl_names.clone();
    visit_nms(&mut chunk, &mut |n, d| {
        if d {
            if let Some((i, j)) = swap { if di == i { n.0[1] = names_snapshot[j].clone(); changed += 1; } else if di == j { n.0[1] = names_snapshot[i].clone(); changed += 1; } }
            if swap.is_none_or(|(i, j)| di != i && di != j) && rng.chance(18) { n.0[1] = other_name(&mut rng, &n.0[0]); changed += 1; }
            di += 1;
        } else if rng.chance(6) { n.0[1] = other_name(&mut rng, &n.0[0]); changed += 1; }
    });
    if changed == 0 {
        let mut first = true;
        visit_nms(&mut chunk, &mut |n, _| if first { n.0[1] = other_name(&mut rng, &n.0[0]); first = false; });
    }
    chunk
}

// ------------------------------------------------------------------------------------------------ emitter + oracle
#[derive(Clone, Copy, Debug, PartialEq, Eq)]
enum DK { Local, LocalFunc, Param, Vararg, LoopVar, ImplicitSelf }
#[derive(Clone, Copy, Debug, PartialEq, Eq)]
enum Bind { Decl(usize), Global }
#[derive(Clone, Debug)]
struct Decl { pos: u32, name: String, kind: DK, /// initialised by a name / field / call: go-to-definition may follow the value
              traced: bool, /// implicit self of `function t:m`: what `t` is bound to (None: `function t.a:m`)
              self_prefix: Option<Bind> }
#[derive(Clone, Debug)]
struct Use { pos: u32, name: String, bind: Bind, dots: bool, /// loop variables of the enclosing `for` headers in which this use sits INSIDE A CLOSURE (known open finding L1)
             hdr: Vec<usize>, /// inside the `until` condition of a repeat with an EMPTY body: the first declaration index of that condition (L2)
             until_from: Option<usize> }
struct Prog { text: String, decls: Vec<Decl>, uses: Vec<Use> }

struct Ctx { ver: usize, out: String, env: Vec<(String, usize)>, decls: Vec<Decl>, uses: Vec<Use>, tight: bool, closure_depth: u32, /// for headers being emitted: (loop variables, closure depth at the header)
             headers: Vec<(Vec<usize>, u32)>, /// conditions of empty-bodied repeats being emitted: the number of declarations before the condition
             until_empty: Vec<usize> }

fn is_word(c: char) -> bool { c.is_ascii_alphanumeric() || c == '_' }

impl Ctx {
    fn tok(&mut self, s: &str) {
        if let (Some(l), Some(f)) = (self.out.chars().last(), s.chars().next()) {
            if (is_word(l) && is_word(f)) || (l == '.' && f == '.') || (l.is_ascii_digit() && f == '.') { self.out.push(' '); }
        }
        self.out.push_str(s);
    }
    fn sp(&mut self) { if !self.tight { self.out.push(' '); } }
    fn hdr(&self) -> Vec<usize> { self.headers.iter().filter(|(_, d)| self.closure_depth > *d).flat_map(|(v, _)| v.iter().copied()).collect() }
    fn lookup(&self, name: &str) -> Bind { match self.env.iter().rposition(|(n, _)| n == name) { Some(i) => Bind::Decl(self.env[i].1), None => Bind::Global } }
    fn use_name(&mut self, nm: &Nm) -> Bind {
        let s = nm.0[self.ver].clone();
        if self.out.chars().last().is_some_and(is_word) { self.out.push(' '); }
        let pos = self.out.len() as u32;
        self.out.push_str(&s);
        let bind = self.lookup(&s);
        let hdr = self.hdr();
        let until_from = self.until_empty.first().copied();
        self.uses.push(Use { pos, name: s, bind, dots: false, hdr, until_from });
        bind
    }
    fn decl_name(&mut self, nm: &Nm, kind: DK) -> usize {
        let s = nm.0[self.ver].clone();
        if self.out.chars().last().is_some_and(is_word) { self.out.push(' '); }
        let pos = self.out.len() as u32;
        self.out.push_str(&s);
        self.decls.push(Decl { pos, name: s, kind, traced: false, self_prefix: None });
        self.decls.len() - 1
    }
    fn push_env(&mut self, d: usize) { let n = self.decls[d].name.clone(); self.env.push((n, d)); }
    fn sep(&mut self, s: Sep) { match s { Sep::Nl => self.out.push('\n'), Sep::Sp => self.out.push(' '), Sep::Semi => self.out.push(';'), Sep::Tight => {} } }

    fn list(&mut self, es: &[Expr]) { for (i, e) in es.iter().enumerate() { if i > 0 { self.tok(","); self.sp(); } self.expr(e); } }
    fn prefix(&mut self, e: &Expr) { if is_prefix(e) { self.expr(e) } else { self.tok("("); self.expr(e); self.tok(")") } }
    fn operand(&mut self, e: &Expr) { if matches!(e, Expr::Func(_)) { self.tok("("); self.expr(e); self.tok(")") } else { self.expr(e) } }

    fn expr(&mut self, e: &Expr) {
        match e {
            Expr::Num(n) => self.tok(&n.to_string()),
            Expr::Str => self.tok("\"s\""),
            Expr::Nil => self.tok("nil"),
            Expr::True => self.tok("true"),
            Expr::Dots => {
                if self.out.ends_with('.') || self.out.chars().last().is_some_and(|c| c.is_ascii_digit()) { self.out.push(' '); }
                let pos = self.out.len() as u32;
                self.out.push_str("...");
                let bind = self.lookup("...");
                self.uses.push(Use { pos, name: "...".to_string(), bind, dots: true, hdr: vec![], until_from: self.until_empty.first().copied() });
            }
            Expr::Name(nm) => { self.use_name(nm); }
            Expr::Index(b, f) => { self.prefix(b); self.out.push('.'); self.out.push_str(f); }
            Expr::IndexE(b, k) => { self.prefix(b); self.tok("["); self.expr(k); self.tok("]"); }
            Expr::Call(c, args) => { self.prefix(c); self.tok("("); self.list(args); self.tok(")"); }
            Expr::MCall(b, m, args) => { self.prefix(b); self.tok(":"); self.tok(m); self.tok("("); self.list(args); self.tok(")"); }
            Expr::Bin(l, op, r) => {
                self.operand(l);
                let tight_op = self.tight && matches!(*op, "+" | "-" | "*" | "<" | "==");
                if !tight_op { self.out.push(' '); }
                self.tok(op);
                if !tight_op { self.out.push(' '); }
                self.operand(r);
            }
            Expr::Not(x) => { self.tok("not"); self.out.push(' '); self.operand(x); }
            Expr::Paren(x) => { self.tok("("); self.expr(x); self.tok(")"); }
            Expr::Func(f) => { self.tok("function"); self.funcbody(f, None); }
            Expr::Table(items) => {
                self.tok("{");
                for (i, (k, v)) in items.iter().enumerate() {
                    if i > 0 { self.tok(","); self.sp(); }
                    match k { TKey::Pos => {}, TKey::Field(f) => { self.tok(f); self.sp(); self.tok("="); self.sp(); } TKey::Expr(k) => { self.tok("["); self.expr(k); self.tok("]"); self.sp(); self.tok("="); self.sp(); } }
                    self.expr(v);
                }
                self.tok("}");
            }
        }
    }

    /// `(params) body end`; parameters (after the implicit self, if any) and `...` are locals of the body
    fn funcbody(&mut self, f: &FuncBody, implicit_self: Option<usize>) {
        let saved_tight = self.tight;
        self.tok("(");
        let mark = self.env.len();
        if let Some(d) = implicit_self { self.push_env(d); }
        let mut ids = Vec::new();
        for (i, p) in f.params.iter().enumerate() { if i > 0 { self.tok(","); self.sp(); } ids.push(self.decl_name(p, DK::Param)); }
        if f.vararg {
            if !f.params.is_empty() { self.tok(","); self.sp(); }
            let pos = self.out.len() as u32;
            self.out.push_str("...");
            self.decls.push(Decl { pos, name: "...".to_string(), kind: DK::Vararg, traced: false, self_prefix: None });
            ids.push(self.decls.len() - 1);
        }
        self.tok(")");
        for d in ids { self.push_env(d); }
        self.closure_depth += 1;
        self.stats(&f.body);
        self.closure_depth -= 1;
        self.tok("end");
        self.env.truncate(mark);
        self.tight = saved_tight;
    }

    fn stats(&mut self, b: &Block) {
        for s in &b.stats { self.sep(s.sep); self.stat(s); }
        self.sep(b.close);
    }
    fn block(&mut self, b: &Block) { let mark = self.env.len(); self.stats(b); self.env.truncate(mark); }
    fn eq(&mut self) { self.sp(); self.tok("="); self.sp(); }

    fn stat(&mut self, s: &Stat) {
        let saved = self.tight;
        self.tight = s.tight;
        match &s.kind {
            StatKind::Local { names, exprs } => {
                self.tok("local"); self.out.push(' ');
                let mut ids = Vec::new();
                for (i, (n, konst)) in names.iter().enumerate() {
                    if i > 0 { self.tok(","); self.sp(); }
                    ids.push(self.decl_name(n, DK::Local));
                    if *konst { self.sp(); self.tok("<const>"); self.out.push(' '); }
                }
                if !exprs.is_empty() { if self.out.ends_with(' ') { self.tok("="); self.sp(); } else { self.eq(); } self.list(exprs); }
                for (i, d) in ids.iter().enumerate() {
                    let traced = match exprs.get(i) { Some(e) => is_prefix(e) || matches!(e, Expr::Dots), None => exprs.last().is_some_and(|e| is_prefix(e) || matches!(e, Expr::Dots)) };
                    self.decls[*d].traced = traced;
                }
                for d in ids { self.push_env(d); }
            }
            StatKind::LocalFunc { name, f } => {
                self.tok("local"); self.out.push(' '); self.tok("function"); self.out.push(' ');
                let d = self.decl_name(name, DK::LocalFunc);
                self.push_env(d);
                self.funcbody(f, None);
            }
            StatKind::Func { root, fields, method, f } => {
                self.tok("function"); self.out.push(' ');
                let root_bind = self.use_name(root);
                for fl in fields { self.out.push('.'); self.out.push_str(fl); }
                let mut implicit = None;
                if let Some(m) = method {
                    let pos = self.out.len() as u32;
                    self.out.push(':'); self.out.push_str(m);
                    self.decls.push(Decl { pos, name: "self".to_string(), kind: DK::ImplicitSelf, traced: false, self_prefix: if fields.is_empty() { Some(root_bind) } else { None } });
                    implicit = Some(self.decls.len() - 1);
                }
                self.funcbody(f, implicit);
            }
            StatKind::Assign { targets, exprs } => {
                if targets.first().is_some_and(starts_with_paren) { self.tok(";"); }
                for (i, t) in targets.iter().enumerate() { if i > 0 { self.tok(","); self.sp(); } self.expr(t); }
                self.eq();
                self.list(exprs);
            }
            StatKind::Call(e) => { if starts_with_paren(e) { self.tok(";"); } self.expr(e); }
            StatKind::Do(b) => { self.tok("do"); self.block(b); self.tok("end"); }
            StatKind::While(c, b) => { self.tok("while"); self.out.push(' '); self.expr(c); self.sp(); self.tok("do"); self.tight = saved; self.block(b); self.tok("end"); }
            StatKind::If(arms, els) => {
                for (i, (c, b)) in arms.iter().enumerate() {
                    self.tok(if i == 0 { "if" } else { "elseif" }); self.out.push(' ');
                    self.tight = s.tight;
                    self.expr(c); self.sp(); self.tok("then");
                    self.block(b);
                }
                if let Some(b) = els { self.tok("else"); self.block(b); }
                self.tok("end");
            }
            StatKind::NumFor { var, from, to, step, body } => {
                self.tok("for"); self.out.push(' ');
                let d = self.decl_name(var, DK::LoopVar);
                self.eq();
                self.headers.push((vec![d], self.closure_depth));
                self.expr(from); self.tok(","); self.sp(); self.expr(to);
                if let Some(st) = step { self.tok(","); self.sp(); self.expr(st); }
                self.headers.pop();
                self.sp(); self.tok("do");
                let mark = self.env.len();
                self.push_env(d);
                self.stats(body);
                self.env.truncate(mark);
                self.tok("end");
            }
            StatKind::GenFor { vars, exprs, body } => {
                self.tok("for"); self.out.push(' ');
                let mut ids = Vec::new();
                for (i, v) in vars.iter().enumerate() { if i > 0 { self.tok(","); self.sp(); } ids.push(self.decl_name(v, DK::LoopVar)); }
                self.out.push(' '); self.tok("in"); self.out.push(' ');
                self.headers.push((ids.clone(), self.closure_depth));
                self.list(exprs);
                self.headers.pop();
                self.sp(); self.tok("do");
                let mark = self.env.len();
                for d in ids { self.push_env(d); }
                self.stats(body);
                self.env.truncate(mark);
                self.tok("end");
            }
            StatKind::Repeat(b, c) => {
                self.tok("repeat");
                let mark = self.env.len();
                self.stats(b);
                self.tok("until"); self.out.push(' ');
                self.tight = s.tight;
                if b.stats.is_empty() { self.until_empty.push(self.decls.len()); }
                self.expr(c);
                if b.stats.is_empty() { self.until_empty.pop(); }
                self.env.truncate(mark);
            }
            StatKind::Return(es) => { self.tok("return"); if !es.is_empty() { self.out.push(' '); self.list(es); } }
            StatKind::Break => self.tok("break"),
        }
        self.tight = saved;
    }
}

fn render(chunk: &Block, ver: usize) -> Prog {
    let mut c = Ctx { ver, out: String::new(), env: vec![], decls: vec![], uses: vec![], tight: false, closure_depth: 0, headers: vec![], until_empty: vec![] };
    c.stats(chunk);
    Prog { text: c.out, decls: c.decls, uses: c.uses }
}

// ------------------------------------------------------------------------------------------------ the real code
struct Setup(String);
/// (clause, what, the known open finding it is an instance of)
type Viol = (&'static str, String, Option<&'static str>);
const L1: &str = "L1-header-closure-sees-loop-variable";
const L2: &str = "L2-empty-repeat-condition-sees-closure-parameters";

fn token_at(root: &emmylua_parser::LuaChunk, pos: u32, text: &str) -> Result<LuaSyntaxToken, Setup> {
    let t = match root.syntax().token_at_offset(TextSize::new(pos)) {
        TokenAtOffset::Single(t) => t,
        TokenAtOffset::Between(_, r) => r,
        TokenAtOffset::None => return Err(Setup(format!("no token at offset {pos}"))),
    };
    if u32::from(t.text_range().start()) != pos || t.text() != text { return Err(Setup(format!("token at offset {pos} is {:?} at {:?}, the generator wrote {text:?}", t.text(), t.text_range()))); }
    Ok(t)
}

fn show_sem(db: &emmylua_code_analysis::DbIndex, s: &Option<LuaSemanticDeclId>) -> String {
    match s {
        None => "none".to_string(),
        Some(LuaSemanticDeclId::LuaDecl(id)) => show_decl(db, &Some(*id)),
        Some(other) => format!("{other:?}"),
    }
}
fn show_decl(db: &emmylua_code_analysis::DbIndex, id: &Option<LuaDeclId>) -> String {
    match id {
        None => "none".to_string(),
        Some(id) => match db.get_decl_index().get_decl(id) {
            None => format!("declaration @{} THAT DOES NOT EXIST", u32::from(id.position)),
            Some(d) => format!("{} `{}` @{}", if d.is_global() { "global" } else if d.is_implicit_self() { "implicit self" } else if d.is_param() { "parameter" } else { "local" }, d.get_name(), u32::from(id.position)),
        },
    }
}

/// all clauses on one analysed version
fn check(ws: &VirtualWorkspace, file_id: FileId, p: &Prog) -> Result<Vec<Viol>, Setup> {
    let mut out: Vec<Viol> = Vec::new();
    let db = ws.analysis.compilation.get_db();
    let model = ws.analysis.compilation.get_semantic_model(file_id).ok_or(Setup("no semantic model".to_string()))?;
    if let Some(errs) = model.get_file_parse_error() { if !errs.is_empty() { return Err(Setup(format!("generated text does not parse: {:?}", errs.iter().map(|e| (e.message.clone(), e.range)).collect::<Vec<_>>()))); } }
    let root = model.get_root().clone();
    let refs = db.get_reference_index();
    let want_str = |b: &Bind| match b { Bind::Global => "global".to_string(), Bind::Decl(i) => format!("{} `{}` @{}", match p.decls[*i].kind { DK::ImplicitSelf => "implicit self", DK::Param | DK::Vararg => "parameter", _ => "local" }, p.decls[*i].name, p.decls[*i].pos) };

    // [builder]
    for d in &p.decls {
        let id = LuaDeclId::new(file_id, TextSize::new(d.pos));
        match db.get_decl_index().get_decl(&id) {
            None => out.push(("builder", format!("no declaration recorded for `{}` at offset {}", d.name, d.pos), None)),
            Some(decl) => {
                if decl.get_name() != d.name { out.push(("builder", format!("declaration at offset {} is named `{}`, the program declares `{}`", d.pos, decl.get_name(), d.name), None)); }
                if decl.is_global() || decl.is_implicit_self() != (d.kind == DK::ImplicitSelf) { out.push(("builder", format!("declaration `{}` at offset {} has the wrong kind: {}", d.name, d.pos, show_decl(db, &Some(id))), None)); }
            }
        }
    }
    let decl_at: BTreeMap<u32, usize> = p.decls.iter().enumerate().map(|(i, d)| (d.pos, i)).collect();
    let use_at: BTreeMap<u32, usize> = p.uses.iter().enumerate().map(|(i, u)| (u.pos, i)).collect();

    // [resolve] + [definition] + [hover]
    let mut known_uses: BTreeMap<u32, &'static str> = BTreeMap::new();
    for u in &p.uses {
        let range = TextRange::new(TextSize::new(u.pos), TextSize::new(u.pos + u.name.len() as u32));
        let got = refs.get_var_reference_decl(&file_id, range);
        let ok_global = |id: &LuaDeclId, name: &str| db.get_decl_index().get_decl(id).is_some_and(|d| d.is_global() && d.get_name() == name);
        let ok = match u.bind {
            Bind::Decl(i) => got.is_some_and(|id| id.file_id == file_id && u32::from(id.position) == p.decls[i].pos),
            Bind::Global => match &got { None => true, Some(id) => !u.dots && ok_global(id, &u.name) },
        };
        // L1: a closure in a `for` header that is bound to a variable of that loop
        let in_hdr = |pos: u32| u.hdr.iter().any(|&h| p.decls[h].pos == pos);
        // L2: in the condition of `repeat until ..` (empty body), bound to a parameter of a closure written earlier in the condition
        let in_until = |pos: u32| u.until_from.is_some_and(|from| pos < u.pos && decl_at.get(&pos).is_some_and(|&j| j >= from && matches!(p.decls[j].kind, DK::Param | DK::Vararg)));
        let known: Option<&'static str> = match &got { Some(id) if !ok && id.file_id == file_id => if in_hdr(u32::from(id.position)) { Some(L1) } else if in_until(u32::from(id.position)) { Some(L2) } else { None }, _ => None };
        if let Some(k) = known { known_uses.insert(u.pos, k); }
        if !ok { out.push(("resolve", format!("`{}` at offset {}: scoping binds it to {}, the reference index to {}", u.name, u.pos, want_str(&u.bind), show_decl(db, &got)), known)); }
        if u.dots { continue; }
        let l1_sem = |s: &Option<LuaSemanticDeclId>| -> Option<&'static str> { match s { Some(LuaSemanticDeclId::LuaDecl(id)) if id.file_id == file_id && known == Some(L1) && in_hdr(u32::from(id.position)) => Some(L1), Some(LuaSemanticDeclId::LuaDecl(id)) if id.file_id == file_id && known == Some(L2) && in_until(u32::from(id.position)) => Some(L2), _ => None } };
        let token = token_at(&root, u.pos, &u.name)?;
        // what the handlers are expected to name: the declaration itself, or for the implicit self what `t` of `function t:m` names
        let (target, judged_trace): (Option<Bind>, bool) = match u.bind {
            Bind::Global => (Some(Bind::Global), false),
            Bind::Decl(i) if p.decls[i].kind == DK::ImplicitSelf => (p.decls[i].self_prefix, p.decls[i].self_prefix.is_some()),
            Bind::Decl(i) => (Some(Bind::Decl(i)), !p.decls[i].traced),
        };
        let Some(target) = target else { continue };
        let target_name = match u.bind { Bind::Decl(i) if p.decls[i].kind == DK::ImplicitSelf => { // the name written before the colon
                let colon = p.decls[i].pos; p.uses.iter().filter(|x| x.pos < colon).last().map(|x| x.name.clone()).unwrap_or_default() }
            _ => u.name.clone() };
        let judge = |s: &Option<LuaSemanticDeclId>| -> bool {
            match target {
                Bind::Decl(j) => matches!(s, Some(LuaSemanticDeclId::LuaDecl(id)) if id.file_id == file_id && u32::from(id.position) == p.decls[j].pos),
                Bind::Global => match s { None => true, Some(LuaSemanticDeclId::LuaDecl(id)) => ok_global(id, &target_name), Some(_) => false },
            }
        };
        let r0 = model.find_decl(NodeOrToken::Token(token.clone()), SemanticDeclLevel::NoTrace);
        if !judge(&r0) { out.push(("definition", format!("`{}` at offset {}: scoping binds it to {}{}, find_decl(NoTrace) answers {}", u.name, u.pos, want_str(&u.bind), if target != u.bind { format!(" (handlers go to {})", want_str(&target)) } else { String::new() }, show_sem(db, &r0)), l1_sem(&r0))); }
        if judged_trace && target != Bind::Global {
            let r1 = model.find_decl(NodeOrToken::Token(token.clone()), SemanticDeclLevel::default());
            if !judge(&r1) { out.push(("definition-trace", format!("`{}` at offset {}: scoping binds it to {}, find_decl(default) answers {}", u.name, u.pos, want_str(&u.bind), show_sem(db, &r1)), l1_sem(&r1))); }
            let r2 = model.get_semantic_info(NodeOrToken::Token(token)).and_then(|i| i.semantic_decl);
            if !judge(&r2) { out.push(("hover", format!("`{}` at offset {}: scoping binds it to {}, get_semantic_info answers {}", u.name, u.pos, want_str(&u.bind), show_sem(db, &r2)), l1_sem(&r2))); }
        }
    }

    // [references]
    for (i, d) in p.decls.iter().enumerate() {
        let id = LuaDeclId::new(file_id, TextSize::new(d.pos));
        let want: Vec<(u32, u32)> = p.uses.iter().filter(|u| u.bind == Bind::Decl(i)).map(|u| (u.pos, u.pos + u.name.len() as u32)).collect();
        let mut got: Vec<(u32, u32)> = refs.get_decl_references(&file_id, &id).map(|r| r.cells.iter().map(|c| (u32::from(c.range.start()), u32::from(c.range.end()))).collect()).unwrap_or_default();
        got.sort();
        if got != want {
            // a known finding seen from the declarations: every difference is a use that the index gave away in one of the known ways
            let diff: Vec<u32> = got.iter().filter(|g| !want.contains(g)).chain(want.iter().filter(|w| !got.contains(w))).map(|r| r.0).collect();
            let no_dups = { let mut g = got.clone(); g.dedup(); g.len() == got.len() };
            let known: Option<&'static str> = if no_dups && diff.iter().all(|d| known_uses.contains_key(d)) { diff.first().and_then(|d| known_uses.get(d).copied()) } else { None };
            out.push(("references", format!("{} `{}` at offset {}: scoping gives the uses {:?}, the reference index lists {:?}", if d.kind == DK::ImplicitSelf { "implicit self" } else { "declaration" }, d.name, d.pos, want, got), known));
        }
    }
    if let Some(map) = refs.get_decl_references_map(&file_id) {
        let mut keys: Vec<&LuaDeclId> = map.keys().collect();
        keys.sort_by_key(|k| u32::from(k.position));
        for id in keys {
            if id.file_id == file_id && decl_at.contains_key(&u32::from(id.position)) { continue; }
            let cells = &map[id].cells;
            if cells.is_empty() { continue; }
            let decl = db.get_decl_index().get_decl(id);
            for c in cells {
                let s = u32::from(c.range.start());
                let ok = decl.is_some_and(|d| d.is_global()) && use_at.get(&s).is_some_and(|&ui| { let u = &p.uses[ui]; u.bind == Bind::Global && !u.dots && decl.is_some_and(|d| d.get_name() == u.name) && u32::from(c.range.end()) == s + u.name.len() as u32 });
                if !ok { out.push(("references", format!("{} owns the range {:?}, which scoping binds to {}", show_decl(db, &Some(*id)), c.range, use_at.get(&s).map(|&ui| want_str(&p.uses[ui].bind)).unwrap_or("nothing (not a name use)".to_string())), None)); }
            }
        }
    }
    Ok(out)
}

const PHASES: [(&str, usize); 3] = [("", 0), (" after edit", 1), (" after edit back", 0)];

struct Env { ws: VirtualWorkspace, counter: u64, /// known open findings that are reported as KNOWN-OPEN instead of FOUND
             accepted: Vec<String> }

/// P, then P' on the same uri, then P again; the violations of every step (empty steps left out).  A violation keeps its
/// known-finding tag only when that finding is listed as accepted.
fn run_scenario(env: &mut Env, chunk: &Block) -> Result<Vec<(usize, Vec<Viol>)>, Setup> {
    env.counter += 1;
    let name = format!("c13_{}.lua", env.counter);
    let uri = env.ws.virtual_url_generator.new_uri(&name);
    let mut first_id = None;
    let mut result = Vec::new();
    for (ph, (_, ver)) in PHASES.iter().enumerate() {
        let p = render(chunk, *ver);
        let file_id = env.ws.def_file(&name, &p.text);
        if *first_id.get_or_insert(file_id) != file_id { return Err(Setup("the file id changed on an edit of the same uri".to_string())); }
        let mut v = check(&env.ws, file_id, &p).map_err(|e| Setup(format!("{} [version {} of]\n{}", e.0, ver, p.text)))?;
        for x in &mut v { if x.2.is_some_and(|k| !env.accepted.iter().any(|a| a == k)) { x.2 = None; } }
        if !v.is_empty() { result.push((ph, v)); }
    }
    env.ws.analysis.remove_file_by_uri(&uri);
    Ok(result)
}
/// the first step with a violation that is not an accepted known finding / with one that is
fn first_with(r: &[(usize, Vec<Viol>)], known: bool) -> Option<(usize, &Viol)> {
    r.iter().find_map(|(ph, v)| v.iter().find(|x| x.2.is_some() == known).map(|x| (*ph, x)))
}

// ------------------------------------------------------------------------------------------------ shrinking
fn for_each_block(b: &mut Block, f: &mut dyn FnMut(&mut Block)) {
    fn ex(e: &mut Expr, f: &mut dyn FnMut(&mut Block)) {
        match e {
            Expr::Index(b, _) | Expr::Not(b) | Expr::Paren(b) => ex(b, f),
            Expr::IndexE(a, b) | Expr::Bin(a, _, b) => { ex(a, f); ex(b, f) }
            Expr::Call(c, a) | Expr::MCall(c, _, a) => { ex(c, f); for x in a { ex(x, f) } }
            Expr::Func(fb) => for_each_block(&mut fb.body, f),
            Expr::Table(items) => for (k, v) in items { if let TKey::Expr(k) = k { ex(k, f) } ex(v, f) },
            _ => {}
        }
    }
    f(b);
    for s in &mut b.stats {
        match &mut s.kind {
            StatKind::Local { exprs, .. } | StatKind::Return(exprs) => for e in exprs { ex(e, f) },
            StatKind::LocalFunc { f: fb, .. } | StatKind::Func { f: fb, .. } => for_each_block(&mut fb.body, f),
            StatKind::Assign { targets, exprs } => { for e in targets { ex(e, f) } for e in exprs { ex(e, f) } }
            StatKind::Call(e) => ex(e, f),
            StatKind::Do(b) => for_each_block(b, f),
            StatKind::While(c, b) => { ex(c, f); for_each_block(b, f) }
            StatKind::If(arms, els) => { for (c, b) in arms { ex(c, f); for_each_block(b, f) } if let Some(b) = els { for_each_block(b, f) } }
            StatKind::NumFor { from, to, step, body, .. } => { ex(from, f); ex(to, f); if let Some(s) = step { ex(s, f) } for_each_block(body, f) }
            StatKind::GenFor { exprs, body, .. } => { for e in exprs { ex(e, f) } for_each_block(body, f) }
            StatKind::Repeat(b, c) => { for_each_block(b, f); ex(c, f) }
            StatKind::Break => {}
        }
    }
}
fn count_stats(chunk: &mut Block) -> usize { let mut n = 0; for_each_block(chunk, &mut |b| n += b.stats.len()); n }
/// statement number `n` (in for_each_block order): remove it (`hoist` false) or replace it by the statements of its first block
fn edit_stat(chunk: &mut Block, n: usize, hoist: bool) -> bool {
    let (mut seen, mut passed, mut done) = (0usize, false, false);
    for_each_block(chunk, &mut |b| {
        if passed { return; }
        if n >= seen + b.stats.len() { seen += b.stats.len(); return; }
        passed = true;
        let i = n - seen;
        if !hoist { b.stats.remove(i); done = true; return; }
        let inner = match &b.stats[i].kind {
            StatKind::Do(x) | StatKind::While(_, x) | StatKind::Repeat(x, _) => Some(x.stats.clone()),
            StatKind::NumFor { body, .. } | StatKind::GenFor { body, .. } => Some(body.stats.clone()),
            StatKind::If(arms, _) => arms.first().map(|(_, x)| x.stats.clone()),
            _ => None,
        };
        if let Some(inner) = inner { if !inner.iter().any(|s| matches!(s.kind, StatKind::Break | StatKind::Return(_))) { b.stats.splice(i..=i, inner); done = true; } }
    });
    done
}
/// expression node number `n` (pre-order over all statements): replace it by a literal.
/// Some(true) replaced, Some(false) it is a literal already, None: there is no such node
fn simplify_expr(chunk: &mut Block, n: usize) -> Option<bool> {
    fn ex(e: &mut Expr, n: usize, seen: &mut usize, done: &mut bool, is_target: bool) {
        if *done { return; }
        if !is_target {
            if *seen == n { if !matches!(e, Expr::Num(_) | Expr::Nil | Expr::True | Expr::Str) { *e = Expr::Num(0); *done = true; } *seen += 1; return; }
            *seen += 1;
        }
        match e {
            Expr::Index(b, _) | Expr::Not(b) | Expr::Paren(b) => ex(b, n, seen, done, false),
            Expr::IndexE(a, b) | Expr::Bin(a, _, b) => { ex(a, n, seen, done, false); ex(b, n, seen, done, false) }
            Expr::Call(c, a) | Expr::MCall(c, _, a) => { ex(c, n, seen, done, true); for x in a { ex(x, n, seen, done, false) } }
            Expr::Func(fb) => bl(&mut fb.body, n, seen, done),
            Expr::Table(items) => for (k, v) in items { if let TKey::Expr(k) = k { ex(k, n, seen, done, false) } ex(v, n, seen, done, false) },
            _ => {}
        }
    }
    fn bl(b: &mut Block, n: usize, seen: &mut usize, done: &mut bool) {
        for s in &mut b.stats {
            match &mut s.kind {
                StatKind::Local { exprs, .. } | StatKind::Return(exprs) => for e in exprs { ex(e, n, seen, done, false) },
                StatKind::LocalFunc { f: fb, .. } | StatKind::Func { f: fb, .. } => bl(&mut fb.body, n, seen, done),
                StatKind::Assign { targets, exprs } => { for e in targets { ex(e, n, seen, done, true) } for e in exprs { ex(e, n, seen, done, false) } }
                StatKind::Call(e) => ex(e, n, seen, done, true),
                StatKind::Do(b) => bl(b, n, seen, done),
                StatKind::While(c, b) => { ex(c, n, seen, done, false); bl(b, n, seen, done) }
                StatKind::If(arms, els) => { for (c, b) in arms { ex(c, n, seen, done, false); bl(b, n, seen, done) } if let Some(b) = els { bl(b, n, seen, done) } }
                StatKind::NumFor { from, to, step, body, .. } => { ex(from, n, seen, done, false); ex(to, n, seen, done, false); if let Some(s) = step { ex(s, n, seen, done, false) } bl(body, n, seen, done) }
                StatKind::GenFor { exprs, body, .. } => { for e in exprs { ex(e, n, seen, done, false) } bl(body, n, seen, done) }
                StatKind::Repeat(b, c) => { bl(b, n, seen, done); ex(c, n, seen, done, false) }
                StatKind::Break => {}
            }
        }
    }
    let (mut seen, mut done) = (0, false);
    bl(chunk, n, &mut seen, &mut done);
    if done { Some(true) } else if seen > n { Some(false) } else { None }
}

/// smallest program found that still shows a violation of the same clause, in the same step, with the same known-finding tag
fn shrink(env: &mut Env, chunk: Block, ph: usize, clause: &'static str, known: Option<&'static str>) -> Block {
    let mut cur = chunk;
    let fails = |c: &Block, env: &mut Env| -> bool {
        matches!(run_scenario(env, c), Ok(r) if r.iter().any(|(p, v)| *p == ph && v.iter().any(|x| x.0 == clause && x.2 == known)) && (known.is_none() || first_with(&r, false).is_none()))
    };
    for _round in 0..6 {
        let mut progress = false;
        for hoist in [false, true] {
            let mut i = 0;
            while i < count_stats(&mut cur) {
                let mut cand = cur.clone();
                if edit_stat(&mut cand, i, hoist) && fails(&cand, env) { cur = cand; progress = true; } else { i += 1; }
            }
        }
        let mut i = 0;
        loop {
            let mut cand = cur.clone();
            match simplify_expr(&mut cand, i) {
                None => break,
                Some(false) => i += 1,
                Some(true) => if fails(&cand, env) { cur = cand; progress = true; } else { i += 1; },
            }
        }
        // drop the edit where it is not needed: make version 1 equal to version 0 name by name
        let mut total = 0; visit_nms(&mut cur, &mut |_, _| total += 1);
        for i in 0..total {
            let mut cand = cur.clone();
            let (mut j, mut changed) = (0, false);
            visit_nms(&mut cand, &mut |n, _| { if j == i && n.0[0] != n.0[1] { n.0[1] = n.0[0].clone(); changed = true; } j += 1; });
            if changed && fails(&cand, env) { cur = cand; progress = true; }
        }
        if !progress { break; }
    }
    // plain layout where the violation survives it
    let mut cand = cur.clone();
    for_each_block(&mut cand, &mut |b| { for s in &mut b.stats { s.sep = Sep::Nl; s.tight = false; } b.close = Sep::Nl; });
    if fails(&cand, env) { cur = cand; }
    cur
}

// ------------------------------------------------------------------------------------------------ tables
fn oracle_table(p: &Prog) -> String {
    let mut s = String::new();
    for u in &p.uses {
        s.push_str(&format!("  use  `{}` @{:<4} -> {}\n", u.name, u.pos, match u.bind { Bind::Global => "global".to_string(), Bind::Decl(i) => format!("{:?} `{}` @{}", p.decls[i].kind, p.decls[i].name, p.decls[i].pos) }));
    }
    s
}

fn real_table(ws: &VirtualWorkspace, file_id: FileId) -> String {
    let db = ws.analysis.compilation.get_db();
    let Some(model) = ws.analysis.compilation.get_semantic_model(file_id) else { return "no semantic model\n".to_string() };
    let doc = model.get_document();
    let mut s = String::new();
    if let Some(errs) = model.get_file_parse_error() { for e in errs { s.push_str(&format!("  parse error {:?} {:?}\n", e.range, e.message)); } }
    let refs = db.get_reference_index();
    let lc = |pos: TextSize| doc.get_line_col(pos).map(|(l, c)| format!("{}:{}", l + 1, c + 1)).unwrap_or_default();
    s.push_str("  name uses: offset line:col name -> reference index | find_decl(NoTrace) | find_decl(default) | hover\n");
    for ne in model.get_root().descendants::<LuaNameExpr>() {
        let Some(tok) = ne.get_name_token() else { continue };
        let range = tok.get_range();
        let t = tok.syntax().clone();
        let r = refs.get_var_reference_decl(&file_id, range);
        let r0 = model.find_decl(NodeOrToken::Token(t.clone()), SemanticDeclLevel::NoTrace);
        let r1 = model.find_decl(NodeOrToken::Token(t.clone()), SemanticDeclLevel::default());
        let r2 = model.get_semantic_info(NodeOrToken::Token(t)).and_then(|i| i.semantic_decl);
        s.push_str(&format!("  @{:<4} {:<6} `{}` -> {} | {} | {} | {}\n", u32::from(range.start()), lc(range.start()), tok.get_name_text(), show_decl(db, &r), show_sem(db, &r0), show_sem(db, &r1), show_sem(db, &r2)));
    }
    s.push_str("  declarations: offset line:col kind name -> references\n");
    if let Some(tree) = db.get_decl_index().get_decl_tree(&file_id) {
        let mut ds: Vec<_> = tree.get_decls().values().collect();
        ds.sort_by_key(|d| u32::from(d.get_position()));
        for d in ds {
            let mut cells: Vec<u32> = refs.get_decl_references(&file_id, &d.get_id()).map(|r| r.cells.iter().map(|c| u32::from(c.range.start())).collect()).unwrap_or_default();
            cells.sort();
            s.push_str(&format!("  @{:<4} {:<6} {} -> {:?}\n", u32::from(d.get_position()), lc(d.get_position()), show_decl(db, &Some(d.get_id())), cells));
        }
    }
    if let Some(map) = refs.get_decl_references_map(&file_id) {
        let known: BTreeSet<u32> = db.get_decl_index().get_decl_tree(&file_id).map(|t| t.get_decls().keys().map(|k| u32::from(k.position)).collect()).unwrap_or_default();
        for (id, r) in map { if !known.contains(&u32::from(id.position)) { s.push_str(&format!("  STALE owner @{} -> {:?}\n", u32::from(id.position), r.cells.iter().map(|c| u32::from(c.range.start())).collect::<Vec<_>>())); } }
    }
    s
}

fn report(chunk: &Block, ph: usize, viols: &[Viol]) {
    let (p0, p1) = (render(chunk, 0), render(chunk, 1));
    match ph {
        0 => println!("program:\n{}\n--", p0.text),
        1 => println!("program P (analysed first):\n{}\n--\nprogram P' (re-submitted on the same uri; every token keeps its range):\n{}\n--", p0.text, p1.text),
        _ => println!("program P (analysed first, and again third):\n{}\n--\nprogram P' (submitted in between on the same uri):\n{}\n--", p0.text, p1.text),
    }
    for (c, m, k) in viols { println!("  [{c}{}] {m}{}", PHASES[ph].0, k.map(|k| format!("   (known open finding {k})")).unwrap_or_default()); }
}

/// print the generated and the minimised program for the step `ph`
fn explain(env: &mut Env, chunk: &Block, r: &[(usize, Vec<Viol>)], ph: usize, clause: &'static str, known: Option<&'static str>) {
    println!("-- as generated");
    if let Some((_, v)) = r.iter().find(|(p, _)| *p == ph) { report(chunk, ph, v); }
    let small = shrink(env, chunk.clone(), ph, clause, known);
    match run_scenario(env, &small) {
        Ok(r2) if r2.iter().any(|(p, _)| *p == ph) => { println!("-- minimised"); for (p, v) in &r2 { if *p == ph { report(&small, ph, v); } } }
        _ => println!("-- (minimisation lost the violation; the generated program above stands)"),
    }
}

fn load_known(path: &str) -> Vec<String> {
    match std::fs::read_to_string(path) {
        Ok(t) => t.lines().map(|l| l.trim()).filter(|l| !l.is_empty() && !l.starts_with('#')).filter_map(|l| l.split_whitespace().next().map(|w| w.to_string())).collect(),
        Err(_) => Vec::new(),
    }
}

fn main() {
    let mut a: Vec<String> = std::env::args().skip(1).collect();
    // --known <file|none>: the open findings that do not fail the search (default: known_open_findings.txt next to Cargo.toml)
    let mut known_path = concat!(env!("CARGO_MANIFEST_DIR"), "/known_open_findings.txt").to_string();
    if let Some(i) = a.iter().position(|x| x == "--known") { if i + 1 < a.len() { known_path = a[i + 1].clone(); a.drain(i..=i + 1); } else { eprintln!("--known needs a file (or `none`)"); std::process::exit(2); } }
    let accepted = if known_path == "none" { Vec::new() } else { load_known(&known_path) };
    let mode = a.first().map(|s| s.as_str()).unwrap_or("search");
    let mut env = Env { ws: VirtualWorkspace::new(), counter: 0, accepted };
    match mode {
        "text" => {
            let Some(path) = a.get(1) else { eprintln!("usage: replay text <lua file>"); std::process::exit(2) };
            let text = match std::fs::read_to_string(path) { Ok(t) => t, Err(e) => { eprintln!("cannot read {path}: {e}"); std::process::exit(2) } };
            let id = env.ws.def_file("c13_text.lua", &text);
            print!("{}", real_table(&env.ws, id));
        }
        "show" => {
            let seed: u64 = a.get(1).and_then(|s| s.parse().ok()).unwrap_or(1);
            let k: u64 = a.get(2).and_then(|s| s.parse().ok()).unwrap_or(0);
            let chunk = generate(seed, k);
            for (label, ver) in [("P", 0usize), ("P' (same uri)", 1), ("P again (same uri)", 0)] {
                let p = render(&chunk, ver);
                println!("== {label}\n{}\n-- oracle", p.text);
                print!("{}", oracle_table(&p));
                let id = env.ws.def_file("c13_show.lua", &p.text);
                println!("-- real code");
                print!("{}", real_table(&env.ws, id));
                match check(&env.ws, id, &p) { Ok(v) => { for (c, m, k) in &v { println!("  VIOLATION [{c}] {m}{}", k.map(|k| format!("   ({k})")).unwrap_or_default()); } if v.is_empty() { println!("  all clauses hold"); } } Err(e) => println!("  SETUP {}", e.0) }
            }
        }
        "search" => {
            let seed: u64 = a.get(1).and_then(|s| s.parse().ok()).unwrap_or(1);
            let count: u64 = a.get(2).and_then(|s| s.parse().ok()).unwrap_or(3000);
            let (mut n_uses, mut n_decls, mut n_local, mut n_changed, mut n_stats) = (0usize, 0usize, 0usize, 0usize, 0usize);
            let mut known_hits: BTreeMap<&'static str, (u64, u64)> = BTreeMap::new(); // finding -> (programs, first program)
            for k in 0..count {
                let mut chunk = generate(seed, k);
                n_stats += count_stats(&mut chunk);
                let (p0, p1) = (render(&chunk, 0), render(&chunk, 1));
                if p0.text.len() != p1.text.len() { eprintln!("SETUP the two versions differ in length (seed {seed} program {k})"); std::process::exit(2); }
                n_uses += p0.uses.len(); n_decls += p0.decls.len();
                n_local += p0.uses.iter().filter(|u| u.bind != Bind::Global).count();
                n_changed += p0.uses.iter().zip(p1.uses.iter()).filter(|(x, y)| x.bind != y.bind || x.name != y.name).count();
                let r = match run_scenario(&mut env, &chunk) { Ok(r) => r, Err(e) => { eprintln!("SETUP seed {seed} program {k}: {}", e.0); std::process::exit(2); } };
                if let Some((ph, v)) = first_with(&r, false) {
                    let (clause, what) = (v.0, v.1.clone());
                    println!("FOUND [{clause}{}] seed {seed} program {k} (`replay show {seed} {k}`): {what}", PHASES[ph].0);
                    explain(&mut env, &chunk, &r, ph, clause, None);
                    std::process::exit(1);
                }
                if let Some((ph, v)) = first_with(&r, true) {
                    let (clause, what, id) = (v.0, v.1.clone(), v.2.unwrap_or(""));
                    let e = known_hits.entry(id).or_insert((0, k));
                    e.0 += 1;
                    if e.0 == 1 {
                        println!("KNOWN-OPEN {id} [{clause}{}] seed {seed} program {k}: {what}", PHASES[ph].0);
                        explain(&mut env, &chunk, &r, ph, clause, Some(id));
                    }
                }
            }
            for (id, (n, first)) in &known_hits { println!("KNOWN-OPEN {id}: {n} of {count} programs show it and nothing else (first: program {first}); listed in {known_path}, does not fail the search"); }
            println!("no {}scoping violation in {count} generated programs (seed {seed}; {n_stats} statements, {n_decls} declarations, {n_uses} name uses of which {n_local} bind to a local; {n_changed} uses bind differently after the range-preserving edit); clauses builder / resolve / references / definition / definition-trace / hover, each on P, P' and P again on one uri", if known_hits.is_empty() { "" } else { "new " });
        }
        _ => { eprintln!("usage: replay search [seed] [count] [--known <file|none>] | replay show <seed> <k> | replay text <lua file>"); std::process::exit(2); }
    }
}
