//! C33 bounded witness search: "A `require("a.b")` resolves to the workspace file whose path matches a configured
//! pattern (`?.lua`, `?/init.lua` or custom), with module-map rewrites applied. Exact matches are preferred over fuzzy
//! suffix matches, and when several files share a module name the choice among them is deterministic. Go-to-definition
//! on the require string and the inferred module type agree with that resolution, and removing the file makes it
//! unresolvable." -- on the REAL crate through its public API only: `EmmyLuaAnalysis::{update_config (an Emmyrc
//! deserialised from JSON: runtime.requirePattern, workspace.moduleMap, strict.requirePath), add_main_workspace,
//! add_library_workspace, update_file_by_uri, remove_file_by_uri}`, `db.get_module_index().find_module(path)` /
//! `find_module_node(path)`, `SemanticModel::infer_expr`.
//!
//!   replay search [seed] [random]   generated workspaces + histories (default seed 1, 60 random histories on top of the
//!                                   systematic ones); `FOUND <clause> ...` + exit 1; `KNOWN ...` lines do not fail;
//!                                   exit 0 otherwise; exit 2 when a scenario cannot be set up (no uri / file id)
//!   replay child <seed> <random>    (internal) one line `index hash` per history, for the cross-process comparison
//!   replay show <k> [seed] [random] history k in full: operations and every observation
//! Decides nothing: a hit is a concrete configuration + sequence of public-API calls + require path.
//!
//! ORACLE (computed in this file from the statement; it shares no code with the module index):
//!   module path M(F) of a file F = its path relative to the workspace root that contains it, stripped by a configured
//!     pattern (`P = pre?post`: the text between `pre` and `post`), `/` -> `.`, then the module-map rules applied in
//!     order (regex replace_all).  The patterns are `?.lua;?/init.lua` unless the configuration lists its own; a file
//!     that matches several patterns is named by the one that strips the most (`pkg/init.lua` is `pkg`, not `pkg.init`:
//!     the statement does not say this, it is the reading every Lua user has; no query asks for the other name).
//!   require(R): Rn = R with `/` -> `.`, Rm = Rn rewritten by the module map.
//!     EXACT(R) = present files with M(F) in {Rn, Rm};  FUZZY(R) = present files whose M(F) ends with `.Rn` or `.Rm`.
//!     EXACT non-empty  -> find_module(R) must be one of EXACT               [exact-over-fuzzy] when it is one of FUZZY
//!     else, non-strict, FUZZY non-empty -> one of FUZZY; otherwise None     [resolve] / [removed-still-resolves]
//!     WHICH one of several is not guessed; it only has to be the same on every run   [deterministic]
//!   every present file F is listed at find_module_node(M(F))                [node] (what completion walks)
//!   agreement: a second file `local m_i = require(R)  local u_i = m_i` is (re)analysed after every operation;
//!     infer_expr of the require call and of the reference `m_i` both name the class that only the file chosen by
//!     find_module declares, and name no such class when find_module answers None           [agreement]
//!     (go-to-definition itself lives in emmylua_ls/handlers/definition/goto_module_file.rs and is one call of the same
//!     find_module; the language-server crate is not linked here)
//!   history independence: when one history reaches the same set of present files twice and the choice differs, that is
//!     the OPEN known finding (re-submitting a.lua makes require "a" switch to a/init.lua): `KNOWN history-dependent
//!     choice`, never a failure.
//! BOUNDS  7 families (default patterns: file + directory of one name with a deep chain `a.lua` / `a/b/c/d.lua`; one
//!   name below different directories; module maps `^@(\w+)$ -> packages.$1.index`, `^foo$ -> bar.baz`,
//!   `^src\.(.*)$ -> $1`; custom patterns `?.lua;?/init.lua;lib/?.lua`; a main root + a library root with the same
//!   module) x strict.requirePath false / true.  Systematic histories per family (3-6 files): add the files one by
//!   one (in the given and in the reverse order), then: re-submit every file; for every file i: remove i, re-add i;
//!   (given order only) for every ordered pair (i, j): remove i, remove j, re-add j, re-add i; all files in ONE
//!   update_files_by_uri batch (both orders), then remove / re-add every file.  Random histories: 3-6
//!   files of the family's pool (up to 9) in random order, then 10 random add / remove / re-submit operations.
//!   Observed after every operation (the partial workspaces while adding: once per order, not again in every history):
//!   all queries = every M(F), every dotted suffix of it, the family's mapped / missing names.  Every history is run
//!   5 times in fresh analyses in this process and once in each of 2 child processes (running alongside).
//!   Default run: 526 histories, about 50 s in a debug build.
use emmylua_code_analysis::{EmmyLuaAnalysis, Emmyrc, FileId, RenderLevel, WorkspaceFolder, file_path_to_uri, humanize_type};
use emmylua_parser::{LuaAstNode, LuaCallExpr, LuaExpr, LuaNameExpr};
use regex::Regex;
use serde_json::json;
use std::collections::BTreeMap;
use std::path::PathBuf;
use std::sync::Arc;

const BASE: &str = "/vr_c33";
const USER: &str = "zz_c33_user.lua";

// ------------------------------------------------------------------------------------------------ scenarios
#[derive(Clone)]
struct Family {
    name: &'static str,
    patterns: &'static [&'static str],          // empty = the default patterns
    map: &'static [(&'static str, &'static str)],
    roots: &'static [(&'static str, bool)],     // (directory below BASE, is a library)
    pool: &'static [(usize, &'static str)],     // (root, relative path); the first `core` are the systematic workspace
    core: usize,
    extra_queries: &'static [&'static str],
}

const FAMILIES: &[Family] = &[
    Family { name: "file-and-directory", patterns: &[], map: &[], roots: &[("main", false)],
        pool: &[(0, "pkg.lua"), (0, "pkg/init.lua"), (0, "pkg/sub.lua"), (0, "a.lua"), (0, "a/b/c/d.lua"), (0, "other.lua"), (0, "pkg/sub/init.lua"), (0, "a/b.lua"), (0, "x/pkg/init.lua")],
        core: 6, extra_queries: &["missing", "pkg.missing"] },
    Family { name: "same-name-different-directories", patterns: &[], map: &[], roots: &[("main", false)],
        pool: &[(0, "x/bar/baz.lua"), (0, "y/baz.lua"), (0, "z/bar/baz.lua"), (0, "net/init.lua"), (0, "net/http.lua"), (0, "baz.lua"), (0, "y/bar/baz/init.lua")],
        core: 5, extra_queries: &["missing", "bar/baz"] },
    Family { name: "map-last-segment", patterns: &[], map: &[(r"^@(\w+)$", "packages.$1.index")], roots: &[("main", false)],
        pool: &[(0, "vendor/packages/ui/index.lua"), (0, "vendor/packages/net/index.lua"), (0, "packages/top/index.lua"), (0, "ui.lua"), (0, "packages/ui/index.lua"), (0, "other/index.lua")],
        core: 4, extra_queries: &["@ui", "@net", "@top", "@none"] },
    Family { name: "map-whole-name", patterns: &[], map: &[(r"^foo$", "bar.baz")], roots: &[("main", false)],
        pool: &[(0, "x/bar/baz.lua"), (0, "y/foo.lua"), (0, "w/qux.lua"), (0, "bar/baz.lua"), (0, "foo.lua")],
        core: 3, extra_queries: &["foo"] },
    Family { name: "map-strips-source-root", patterns: &[], map: &[(r"^src\.(.*)$", "$1")], roots: &[("main", false)],
        pool: &[(0, "src/util/str.lua"), (0, "lib/util/str.lua"), (0, "src/main.lua"), (0, "src/pkg/init.lua"), (0, "util/str.lua"), (0, "main.lua")],
        core: 4, extra_queries: &["src.util.str", "src.main", "src.pkg", "src.none"] },
    Family { name: "custom-patterns", patterns: &["?.lua", "?/init.lua", "lib/?.lua"], map: &[], roots: &[("main", false)],
        pool: &[(0, "lib/foo.lua"), (0, "a/lib/foo.lua"), (0, "pkg/init.lua"), (0, "lib/pkg/sub.lua"), (0, "foo.lua"), (0, "pkg/sub.lua")],
        core: 4, extra_queries: &["missing"] },
    Family { name: "main-and-library-root", patterns: &[], map: &[], roots: &[("main", false), ("lib1", true)],
        pool: &[(0, "util.lua"), (1, "util.lua"), (1, "json/init.lua"), (1, "json/decode.lua"), (0, "app/init.lua"), (0, "app/json.lua")],
        core: 5, extra_queries: &["missing"] },
];

#[derive(Clone, Copy, Debug, PartialEq)]
enum Op { Add(usize), Remove(usize), /// all files of the scenario in ONE update_files_by_uri call (in the given / the reverse order)
          Batch(bool) } // Add of a present file = re-submission of the same text

#[derive(Clone)]
struct Scenario { fam: usize, strict: bool, files: Vec<(usize, &'static str)>, queries: Vec<String>, ops: Vec<Op>, what: String,
                  /// operations before this one are applied without being observed (the same prefix is observed by an earlier history)
                  observe_from: usize }

impl Scenario {
    fn family(&self) -> &'static Family { &FAMILIES[self.fam] }
    fn config_json(&self) -> serde_json::Value {
        let f = self.family();
        let mut v = json!({"strict": {"requirePath": self.strict}});
        if !f.patterns.is_empty() { v["runtime"] = json!({"requirePattern": f.patterns}); }
        if !f.map.is_empty() { v["workspace"] = json!({"moduleMap": f.map.iter().map(|(p, r)| json!({"pattern": p, "replace": r})).collect::<Vec<_>>()}); }
        v
    }
    fn path(&self, i: usize) -> String { let (r, rel) = self.files[i]; format!("{BASE}/{}/{rel}", self.family().roots[r].0) }
    fn show_ops(&self, upto: usize) -> String {
        self.ops[..upto].iter().map(|o| match o {
            Op::Add(i) => format!("+{}", self.short(*i)), Op::Remove(i) => format!("-{}", self.short(*i)),
            Op::Batch(rev) => { let mut v: Vec<String> = (0..self.files.len()).map(|i| self.short(i)).collect(); if *rev { v.reverse(); } format!("batch[{}]", v.join(", ")) }
        }).collect::<Vec<_>>().join(" ")
    }
    fn short(&self, i: usize) -> String { let (r, rel) = self.files[i]; if self.family().roots.len() > 1 { format!("{}/{rel}", self.family().roots[r].0) } else { rel.to_string() } }
}

// ------------------------------------------------------------------------------------------------ oracle
struct Oracle { patterns: Vec<(String, String)>, map: Vec<(Regex, String)>, strict: bool }

impl Oracle {
    fn new(sc: &Scenario) -> Oracle {
        let f = sc.family();
        let pats: Vec<&str> = if f.patterns.is_empty() { vec!["?.lua", "?/init.lua"] } else { f.patterns.to_vec() };
        Oracle {
            patterns: pats.iter().map(|p| { let (a, b) = p.split_once('?').expect("pattern with ?"); (a.to_string(), b.to_string()) }).collect(),
            map: f.map.iter().map(|(p, r)| (Regex::new(p).expect("regex"), r.to_string())).collect(),
            strict: sc.strict,
        }
    }
    fn rewrite(&self, s: &str) -> String {
        let mut s = s.to_string();
        for (re, rep) in &self.map { s = re.replace_all(&s, rep.as_str()).into_owned(); }
        s
    }
    /// M(F): the root-relative path stripped by the pattern that strips the most, dotted, rewritten
    fn module_path(&self, rel: &str) -> Option<String> {
        let mut best: Option<&str> = None;
        for (pre, post) in &self.patterns {
            if rel.len() >= pre.len() + post.len() && rel.starts_with(pre.as_str()) && rel.ends_with(post.as_str()) {
                let x = &rel[pre.len()..rel.len() - post.len()];
                if best.is_none_or(|b| x.len() < b.len()) { best = Some(x); }
            }
        }
        best.map(|x| self.rewrite(&x.replace('/', ".")))
    }
    /// (EXACT, FUZZY) among the present files
    fn candidates(&self, sc: &Scenario, present: &[bool], query: &str) -> (Vec<usize>, Vec<usize>) {
        let rn = query.replace(['/', '\\'], ".");
        let rm = self.rewrite(&rn);
        let (mut exact, mut fuzzy) = (Vec::new(), Vec::new());
        for (i, (_, rel)) in sc.files.iter().enumerate() {
            if !present[i] { continue; }
            let Some(m) = self.module_path(rel) else { continue };
            if m == rn || m == rm { exact.push(i); }
            else if m.ends_with(&format!(".{rn}")) || m.ends_with(&format!(".{rm}")) { fuzzy.push(i); }
        }
        (exact, fuzzy)
    }
}

// ------------------------------------------------------------------------------------------------ the real code
/// what the real analysis answers for one query after one operation
#[derive(Clone, Debug, PartialEq)]
struct Obs { found: Option<Result<usize, String>>, call_ty: String, local_ty: String }
#[derive(Clone, Debug, PartialEq)]
struct Step { present: Vec<bool>, obs: Vec<Obs>, node_ok: Vec<Option<bool>> }

fn setup_fail(what: &str) -> ! { println!("UNDECIDED {what}"); std::process::exit(2) }

fn module_text(i: usize) -> String { format!("---@class C33F{i}E\nlocal M = {{}}\nM.id = {i}\nreturn M\n") }
fn user_text(queries: &[String]) -> String {
    queries.iter().enumerate().map(|(i, q)| format!("local m_{i} = require({q:?})\nlocal u_{i} = m_{i}\n")).collect()
}
fn marker(s: &str) -> Option<usize> {
    let p = s.find("C33F")?;
    let rest = &s[p + 4..];
    let e = rest.find('E')?;
    rest[..e].parse().ok()
}

fn run_history(sc: &Scenario) -> Vec<Step> {
    let fam = sc.family();
    let emmyrc: Emmyrc = serde_json::from_value(sc.config_json()).unwrap_or_else(|e| setup_fail(&format!("configuration does not deserialise: {e}")));
    let mut a = EmmyLuaAnalysis::new();
    a.update_config(Arc::new(emmyrc));
    for (dir, lib) in fam.roots {
        let root = PathBuf::from(format!("{BASE}/{dir}"));
        if *lib { a.add_library_workspace(&WorkspaceFolder::new(root, true)); } else { a.add_main_workspace(root); }
    }
    let uris: Vec<_> = (0..sc.files.len()).map(|i| file_path_to_uri(&PathBuf::from(sc.path(i))).unwrap_or_else(|| setup_fail("no uri"))).collect();
    let user_uri = file_path_to_uri(&PathBuf::from(format!("{BASE}/{}/{USER}", fam.roots[0].0))).unwrap_or_else(|| setup_fail("no uri"));
    let oracle = Oracle::new(sc);
    let mut present = vec![false; sc.files.len()];
    let mut ids: Vec<Option<FileId>> = vec![None; sc.files.len()];
    let mut steps = Vec::new();
    for (op_index, op) in sc.ops.iter().enumerate() {
        match *op {
            Op::Add(i) => { ids[i] = Some(a.update_file_by_uri(&uris[i], Some(module_text(i))).unwrap_or_else(|| setup_fail("no file id"))); present[i] = true; }
            Op::Remove(i) => { if present[i] { a.remove_file_by_uri(&uris[i]); present[i] = false; ids[i] = None; } }
            Op::Batch(rev) => {
                let mut order: Vec<usize> = (0..sc.files.len()).collect();
                if rev { order.reverse(); }
                a.update_files_by_uri(order.iter().map(|i| (uris[*i].clone(), Some(module_text(*i)))).collect());
                for i in 0..sc.files.len() { ids[i] = Some(a.get_file_id(&uris[i]).unwrap_or_else(|| setup_fail("no file id after the batch"))); present[i] = true; }
            }
        }
        if op_index < sc.observe_from { steps.push(Step { present: present.clone(), obs: Vec::new(), node_ok: Vec::new() }); continue; }
        let user_id = a.update_file_by_uri(&user_uri, Some(user_text(&sc.queries))).unwrap_or_else(|| setup_fail("no file id"));
        let db = a.compilation.get_db();
        let model = a.compilation.get_semantic_model(user_id).unwrap_or_else(|| setup_fail("no semantic model for the requiring file"));
        let calls: Vec<LuaCallExpr> = model.get_root().descendants::<LuaCallExpr>().filter(|c| c.is_require()).collect();
        let names: Vec<LuaNameExpr> = model.get_root().descendants::<LuaNameExpr>().filter(|n| n.get_name_text().is_some_and(|t| t.starts_with("m_"))).collect();
        if calls.len() != sc.queries.len() || names.len() != sc.queries.len() { setup_fail("the requiring file does not parse into one require call per query"); }
        let show = |r: Result<emmylua_code_analysis::LuaType, emmylua_code_analysis::InferFailReason>| match r { Ok(t) => humanize_type(db, &t, RenderLevel::Simple), Err(_) => "<no type>".to_string() };
        let mut obs = Vec::new();
        for (k, q) in sc.queries.iter().enumerate() {
            let found = db.get_module_index().find_module(q).map(|info| {
                match ids.iter().position(|x| *x == Some(info.file_id)) { Some(i) => Ok(i), None => Err(a.get_uri(info.file_id).map(|u| u.to_string()).unwrap_or_else(|| format!("{:?} (no uri: removed)", info.file_id))) }
            });
            obs.push(Obs { found, call_ty: show(model.infer_expr(LuaExpr::CallExpr(calls[k].clone()))), local_ty: show(model.infer_expr(LuaExpr::NameExpr(names[k].clone()))) });
        }
        let node_ok = (0..sc.files.len()).map(|i| {
            if !present[i] { return None; }
            let m = oracle.module_path(sc.files[i].1)?;
            Some(db.get_module_index().find_module_node(&m).is_some_and(|n| ids[i].is_some_and(|id| n.file_ids.contains(&id))))
        }).collect();
        steps.push(Step { present: present.clone(), obs, node_ok });
    }
    steps
}

// ------------------------------------------------------------------------------------------------ checking
struct Finding { clause: &'static str, step: usize, query: usize, text: String }

fn check(sc: &Scenario, steps: &[Step]) -> (Vec<Finding>, Vec<String>) {
    let oracle = Oracle::new(sc);
    let (mut out, mut known) = (Vec::new(), Vec::new());
    let mut seen: BTreeMap<(Vec<bool>, usize), (usize, Option<Result<usize, String>>)> = BTreeMap::new();
    for (s, st) in steps.iter().enumerate() {
        if s < sc.observe_from { continue; }
        for (i, ok) in st.node_ok.iter().enumerate() {
            if *ok == Some(false) {
                out.push(Finding { clause: "node", step: s, query: usize::MAX, text: format!("`{}` is present (module path `{}`) but find_module_node does not list it there",
                    sc.short(i), oracle.module_path(sc.files[i].1).unwrap_or_default()) });
            }
        }
        for (k, o) in st.obs.iter().enumerate() {
            let q = &sc.queries[k];
            let (exact, fuzzy) = oracle.candidates(sc, &st.present, q);
            let names = |v: &[usize]| format!("[{}]", v.iter().map(|i| sc.short(*i)).collect::<Vec<_>>().join(", "));
            let got = match &o.found { None => "None".to_string(), Some(Ok(i)) => sc.short(*i), Some(Err(u)) => format!("{u} (not a present file)") };
            let mut push = |clause: &'static str, text: String| out.push(Finding { clause, step: s, query: k, text });
            match &o.found {
                Some(Err(_)) => push("removed-still-resolves", format!("require({q:?}) -> {got}")),
                Some(Ok(i)) if !st.present[*i] => push("removed-still-resolves", format!("require({q:?}) -> {got}, which was removed")),
                Some(Ok(i)) => {
                    if !exact.is_empty() { if !exact.contains(i) { push(if fuzzy.contains(i) { "exact-over-fuzzy" } else { "resolve" }, format!("require({q:?}) -> {got}; exact matches {} (fuzzy {})", names(&exact), names(&fuzzy))); } }
                    else if oracle.strict { push("resolve", format!("require({q:?}) -> {got}; strict.requirePath and no exact match")); }
                    else if !fuzzy.contains(i) { push("resolve", format!("require({q:?}) -> {got}; no exact match, suffix matches {}", names(&fuzzy))); }
                }
                None => {
                    if !exact.is_empty() { push("resolve", format!("require({q:?}) -> None; exact matches {}", names(&exact))); }
                    else if !oracle.strict && !fuzzy.is_empty() { push("resolve", format!("require({q:?}) -> None; not strict, suffix matches {}", names(&fuzzy))); }
                }
            }
            let want = match &o.found { Some(Ok(i)) => Some(*i), _ => None };
            for (what, ty) in [("the require call", &o.call_ty), ("the local bound to it", &o.local_ty)] {
                if marker(ty) != want {
                    push("agreement", format!("find_module({q:?}) -> {got} but the inferred type of {what} is `{ty}`{}", marker(ty).map(|i| format!(" (declared by {})", sc.short(i))).unwrap_or_default()));
                }
            }
            // the same set of files reached twice in one history
            if let Some((s0, first)) = seen.get(&(st.present.clone(), k)) {
                if *first != o.found && known.is_empty() {
                    let g0 = match first { None => "None".to_string(), Some(Ok(i)) => sc.short(*i), Some(Err(u)) => u.clone() };
                    known.push(format!("KNOWN history-dependent choice: [{}] strict={} require({q:?}) -> {g0} after `{}`, -> {got} after `{}` (same files present)",
                        sc.family().name, sc.strict, sc.show_ops(*s0 + 1), sc.show_ops(s + 1)));
                }
            } else { seen.insert((st.present.clone(), k), (s, o.found.clone())); }
        }
    }
    (out, known)
}

fn transcript_hash(steps: &[Step]) -> u64 {
    let mut h: u64 = 0xcbf29ce484222325;
    for b in format!("{steps:?}").bytes() { h ^= b as u64; h = h.wrapping_mul(0x100000001b3); }
    h
}

// ------------------------------------------------------------------------------------------------ generation
struct Rng(u64);
impl Rng {
    fn next(&mut self) -> u64 { self.0 ^= self.0 << 13; self.0 ^= self.0 >> 7; self.0 ^= self.0 << 17; self.0 }
    fn below(&mut self, n: usize) -> usize { (self.next() % n as u64) as usize }
}

fn queries_for(fam: usize, strict: bool, files: &[(usize, &'static str)]) -> Vec<String> {
    let probe = Scenario { fam, strict, files: files.to_vec(), queries: vec![], ops: vec![], what: String::new(), observe_from: 0 };
    let oracle = Oracle::new(&probe);
    let mut qs: Vec<String> = Vec::new();
    for (_, rel) in files {
        if let Some(m) = oracle.module_path(rel) {
            let parts: Vec<&str> = m.split('.').collect();
            for i in 0..parts.len() { let q = parts[i..].join("."); if !qs.contains(&q) { qs.push(q); } }
        }
    }
    for q in FAMILIES[fam].extra_queries { if !qs.contains(&q.to_string()) { qs.push(q.to_string()); } }
    qs
}

fn scenarios(seed: u64, random: usize) -> Vec<Scenario> {
    let mut out = Vec::new();
    for (fi, fam) in FAMILIES.iter().enumerate() {
        for strict in [false, true] {
            let files: Vec<(usize, &'static str)> = fam.pool[..fam.core].to_vec();
            let n = files.len();
            let queries = queries_for(fi, strict, &files);
            for reverse in [false, true] {
                let adds: Vec<Op> = if reverse { (0..n).rev().map(Op::Add).collect() } else { (0..n).map(Op::Add).collect() };
                // the partial workspaces on the way are observed once per order (first history), afterwards from the last add on
                let mut first = true;
                let mut mk = |tail: Vec<Op>, what: String| {
                    let mut ops = adds.clone(); ops.extend(tail);
                    out.push(Scenario { fam: fi, strict, files: files.clone(), queries: queries.clone(), ops, what: format!("{}{}", what, if reverse { ", files added in reverse order" } else { "" }),
                                        observe_from: if first { 0 } else { n - 1 } });
                    first = false;
                };
                mk((0..n).map(Op::Add).collect(), "re-submit every file".to_string());
                for i in 0..n { mk(vec![Op::Remove(i), Op::Add(i)], format!("remove / re-add #{i}")); }
                if !reverse { for i in 0..n { for j in 0..n { if i != j { mk(vec![Op::Remove(i), Op::Remove(j), Op::Add(j), Op::Add(i)], format!("remove #{i}, #{j}; re-add #{j}, #{i}")); } } } }
                // the whole workspace in one batch (what a workspace load does)
                out.push(Scenario { fam: fi, strict, files: files.clone(), queries: queries.clone(), ops: vec![Op::Batch(reverse)], what: "one batch".to_string(), observe_from: 0 });
                if !reverse { for i in 0..n { out.push(Scenario { fam: fi, strict, files: files.clone(), queries: queries.clone(), ops: vec![Op::Batch(false), Op::Remove(i), Op::Add(i)], what: format!("one batch, remove / re-add #{i}"), observe_from: 1 }); } }
            }
        }
    }
    let mut rng = Rng(seed.wrapping_mul(0x9E37_79B9_7F4A_7C15) | 1);
    for _ in 0..random {
        let fi = rng.below(FAMILIES.len());
        let fam = &FAMILIES[fi];
        let strict = rng.below(2) == 1;
        let mut files: Vec<(usize, &'static str)> = fam.pool.to_vec();
        while files.len() > 3 + rng.below(4) { let k = rng.below(files.len()); files.remove(k); }
        for k in (1..files.len()).rev() { let j = rng.below(k + 1); files.swap(k, j); }
        let n = files.len();
        let mut ops: Vec<Op> = (0..n).map(Op::Add).collect();
        let mut present = vec![true; n];
        for _ in 0..10 {
            let i = rng.below(n);
            if present[i] && rng.below(3) != 0 { ops.push(Op::Remove(i)); present[i] = false; } else { ops.push(Op::Add(i)); present[i] = true; }
        }
        let queries = queries_for(fi, strict, &files);
        out.push(Scenario { fam: fi, strict, files, queries, ops, what: "random".to_string(), observe_from: 0 });
    }
    out
}

// ------------------------------------------------------------------------------------------------ reporting
/// drop operations while the same clause still fails for the same query
fn minimise(sc: &Scenario, clause: &str, query: usize) -> (Scenario, Finding) {
    let fails = |s: &Scenario| check(s, &run_history(s)).0.into_iter().find(|f| f.clause == clause && (f.query == query || query == usize::MAX));
    let mut cur = sc.clone();
    cur.observe_from = 0;
    let mut f = fails(&cur).expect("the finding reproduces");
    cur.ops.truncate(f.step + 1);
    'outer: loop {
        for k in 0..cur.ops.len() {
            let mut cand = cur.clone();
            cand.ops.remove(k);
            if let Some(g) = fails(&cand) { cand.ops.truncate(g.step + 1); cur = cand; f = g; continue 'outer; }
        }
        return (cur, f);
    }
}

fn describe(sc: &Scenario) -> String {
    format!("family `{}`, config {}, roots {:?}", sc.family().name, sc.config_json(), sc.family().roots.iter().map(|(d, l)| format!("{BASE}/{d}{}", if *l { " (library)" } else { "" })).collect::<Vec<_>>())
}

fn main() {
    let a: Vec<String> = std::env::args().skip(1).collect();
    let num = |i: usize, d: u64| a.get(i).and_then(|s| s.parse::<u64>().ok()).unwrap_or(d);
    match a.first().map(|s| s.as_str()) {
        Some("child") => {
            for (k, sc) in scenarios(num(1, 1), num(2, 60) as usize).iter().enumerate() { println!("{k} {:016x}", transcript_hash(&run_history(sc))); }
        }
        Some("show") => {
            let all = scenarios(num(2, 1), num(3, 60) as usize);
            let sc = all.get(num(1, 0) as usize).unwrap_or_else(|| setup_fail("no such history"));
            println!("{} -- {}", describe(sc), sc.what);
            let steps = run_history(sc);
            for (s, st) in steps.iter().enumerate() {
                if st.obs.is_empty() { continue; }
                println!("after `{}`:", sc.show_ops(s + 1));
                for (k, o) in st.obs.iter().enumerate() { println!("    require({:?}) -> {:?}   call: {}   local: {}", sc.queries[k], o.found.as_ref().map(|r| r.as_ref().map(|i| sc.short(*i))), o.call_ty, o.local_ty); }
            }
            let (f, known) = check(sc, &steps);
            for x in f { println!("FOUND {}: after `{}`: {}", x.clause, sc.show_ops(x.step + 1), x.text); }
            for k in known { println!("{k}"); }
        }
        Some("search") | None => search(num(1, 1), num(2, 60) as usize),
        Some(other) => { eprintln!("unknown mode {other}"); std::process::exit(2); }
    }
}

fn search(seed: u64, random: usize) {
    let t0 = std::time::Instant::now();
    let all = scenarios(seed, random);
    // the 2 child processes run the same histories while this process does
    let me = std::env::current_exe().unwrap_or_else(|_| setup_fail("current_exe"));
    let children: Vec<_> = (0..2).map(|c| std::process::Command::new(&me).arg("child").arg(seed.to_string()).arg(random.to_string())
        .stdout(std::process::Stdio::piped()).stderr(std::process::Stdio::null()).spawn().unwrap_or_else(|e| setup_fail(&format!("child process {c}: {e}")))).collect();
    let mut found: Vec<&'static str> = Vec::new();
    let mut known_printed = false;
    let mut known_count = 0usize;
    let mut hashes = Vec::new();
    let (mut n_steps, mut n_obs) = (0usize, 0usize);
    for (k, sc) in all.iter().enumerate() {
        let steps = run_history(sc);
        n_steps += steps.len(); n_obs += steps.iter().map(|s| s.obs.len()).sum::<usize>();
        let (findings, known) = check(sc, &steps);
        for f in &findings {
            if found.contains(&f.clause) { continue; }
            found.push(f.clause);
            let (min, g) = minimise(sc, f.clause, f.query);
            println!("FOUND {}: history #{k} ({}), {}: after `{}`: {}", g.clause, sc.what, describe(&min), min.show_ops(min.ops.len()), g.text);
        }
        if !known.is_empty() { known_count += 1; if !known_printed { known_printed = true; println!("{}", known[0]); } }
        // the whole history 4 more times in fresh analyses
        let h = transcript_hash(&steps);
        for r in 1..5 {
            let again = run_history(sc);
            if again != steps && !found.contains(&"deterministic") {
                found.push("deterministic");
                let s = (0..steps.len()).find(|s| steps[*s] != again[*s]).unwrap_or(0);
                let q = (0..steps[s].obs.len()).find(|q| steps[s].obs[*q] != again[s].obs[*q]).unwrap_or(0);
                let show = |o: Option<&Obs>| o.map(|o| format!("{} (type of the call `{}`, of the local `{}`)", match &o.found { None => "None".to_string(), Some(Ok(i)) => sc.short(*i), Some(Err(u)) => u.clone() }, o.call_ty, o.local_ty)).unwrap_or_default();
                println!("FOUND deterministic: history #{k} ({}), {}: after `{}`: require({:?}) -> {} in run 1, -> {} in run {} of the same history in a fresh analysis",
                    sc.what, describe(sc), sc.show_ops(s + 1), sc.queries.get(q).cloned().unwrap_or_default(), show(steps[s].obs.get(q)), show(again[s].obs.get(q)), r + 1);
            }
        }
        hashes.push(h);
    }
    for (c, child) in children.into_iter().enumerate() {
        let out = match child.wait_with_output() {
            Ok(o) if o.status.success() => o,
            other => setup_fail(&format!("child process {c} failed: {:?}", other.map(|o| o.status))),
        };
        let text = String::from_utf8_lossy(&out.stdout);
        let lines: Vec<&str> = text.lines().collect();
        if lines.len() != all.len() { setup_fail(&format!("child process {c} printed {} lines for {} histories", lines.len(), all.len())); }
        for (k, l) in lines.iter().enumerate() {
            if *l != format!("{k} {:016x}", hashes[k]) && !found.contains(&"deterministic") {
                found.push("deterministic");
                println!("FOUND deterministic: history #{k} ({}), {}: `{}` gives other answers in child process {c} than in this process (`replay show {k} {seed} {random}` prints them)", all[k].what, describe(&all[k]), all[k].show_ops(all[k].ops.len()));
            }
        }
    }
    let secs = t0.elapsed().as_secs_f32();
    if known_count > 0 { println!("      ({known_count} histories show the known history-dependent choice; first one printed above)"); }
    if found.is_empty() {
        println!("OK C33 search seed {seed}: {} histories ({} systematic + {random} random), {n_steps} operations, {n_obs} require observations, each history x 5 fresh analyses + 2 child processes: resolution, exact-over-fuzzy, removal, module nodes, inferred types and repeatability agree with the statement ({secs:.1}s)", all.len(), all.len() - random);
        std::process::exit(0);
    }
    println!("{} clause(s) of C33 violated: {} ({} histories, {secs:.1}s)", found.len(), found.join(", "), all.len());
    std::process::exit(1);
}
