//! C02 replay / bounded search for the recursion-depth clause: parsing deeply nested input must produce a
//! tree and errors, never abort the process (stack overflow), on the stack of a tokio worker thread (2 MiB).
//!   replay probe <kind> <depth>    parse one generated input in a 2 MiB thread (the process dies on overflow)
//!   replay search                  runs `probe` in child processes for every kind at depths 1e2, 1e3, 1e4, 1e5;
//!                                  prints "FOUND kind=<k> depth=<d>" for every crash and exits 1 if any
use emmylua_parser::{LuaParser, ParserConfig};

const KINDS: &[&str] = &["paren", "table", "function", "unop", "binop-right", "index-call", "doc-paren", "doc-generic", "doc-union-fun", "if", "block-do"];

fn gen_input(kind: &str, d: usize) -> String {
    match kind {
        "paren" => format!("x = {}1{}", "(".repeat(d), ")".repeat(d)),
        "table" => format!("x = {}{}", "{".repeat(d), "}".repeat(d)),
        "function" => format!("x = {}{}", "function() return ".repeat(d), " end".repeat(d)),
        "unop" => format!("x = {}1", "not ".repeat(d)),
        "binop-right" => format!("x = {}1", "1 .. ".repeat(d)),
        "index-call" => format!("x = f{}", "()[1]".repeat(d)),
        "doc-paren" => format!("---@type {}T{}\nlocal x", "(".repeat(d), ")".repeat(d)),
        "doc-generic" => format!("---@type {}T{}\nlocal x", "A<".repeat(d), ">".repeat(d)),
        "doc-union-fun" => format!("---@type {}T\nlocal x", "fun():".repeat(d)),
        "if" => format!("{}{}", "if x then ".repeat(d), " end".repeat(d)),
        _ => format!("{}{}", "do ".repeat(d), " end".repeat(d)),
    }
}

fn main() {
    let a: Vec<String> = std::env::args().skip(1).collect();
    match a.first().map(|s| s.as_str()) {
        Some("probe") => {
            let text = gen_input(&a[1], a[2].parse().unwrap());
            let h = std::thread::Builder::new().stack_size(2 * 1024 * 1024).spawn(move || {
                let tree = LuaParser::parse(&text, ParserConfig::default());
                tree.get_red_root().text_range().len() == (text.len() as u32).into()
            }).unwrap();
            let ok = h.join().unwrap_or(false);
            println!("parsed, lossless={ok}");
        }
        Some("search") => {
            let exe = std::env::current_exe().unwrap();
            let mut found = 0;
            for k in KINDS {
                for d in [100usize, 1000, 10_000, 100_000] {
                    let st = std::process::Command::new(&exe).args(["probe", k, &d.to_string()]).output().expect("spawn");
                    if !st.status.success() {
                        println!("FOUND kind={k} depth={d}: parser process died ({:?}) on {} bytes of nested input", st.status, gen_input(k, d).len());
                        found += 1;
                        break;
                    }
                }
            }
            if found == 0 { println!("no crash for {} nesting kinds up to depth 100000 on a 2 MiB stack", KINDS.len()); }
            std::process::exit(if found > 0 { 1 } else { 0 });
        }
        _ => { eprintln!("usage: replay probe <kind> <depth> | replay search"); std::process::exit(2); }
    }
}
