//! C32 replay: configuration merging and key flattening on the REAL `load_configs_raw`.
//!   replay                 run every scenario below; exit 1 if any expectation derived from the property statement fails
//!   replay <scenario>      one of: arrays | later-wins | empty-key | value-and-prefix | deterministic
//!   replay files a.json b.json ...   load the given files in that order and print the merged configuration
//! Decides nothing: each FOUND line is a concrete set of configuration files on which the real loader does not do what
//! C32 says ("a dotted flat key means exactly the same as the nested form; the later file's value wins whichever spelling
//! each file uses; arrays from later files are appended without duplicates").
use emmylua_code_analysis::load_configs_raw;
use serde_json::{Value, json};
use std::path::PathBuf;

fn load(files: &[&str]) -> Value {
    let dir = std::env::temp_dir().join(format!("vp_c32_{}", std::process::id()));
    std::fs::create_dir_all(&dir).expect("tmp dir");
    let mut paths: Vec<PathBuf> = Vec::new();
    for (i, content) in files.iter().enumerate() {
        let p = dir.join(format!("{i}.json"));
        std::fs::write(&p, content).expect("write config");
        paths.push(p);
    }
    let r = load_configs_raw(paths, None);
    let _ = std::fs::remove_dir_all(&dir);
    r
}

fn check(name: &str, files: &[&str], expect: Value, bad: &mut u32) {
    let got = load(files);
    if got == expect {
        println!("ok     {name}: files {files:?} -> {got}");
    } else {
        println!("FOUND  {name}: files {files:?} -> {got}   (C32 says {expect})");
        *bad += 1;
    }
}

fn main() {
    let a: Vec<String> = std::env::args().skip(1).collect();
    if a.first().map(|s| s.as_str()) == Some("files") {
        let contents: Vec<String> = a[1..].iter().map(|p| std::fs::read_to_string(p).expect("read")).collect();
        let refs: Vec<&str> = contents.iter().map(|s| s.as_str()).collect();
        println!("{}", load(&refs));
        return;
    }
    let want = |s: &str| a.is_empty() || a.iter().any(|x| x == s);
    let mut bad = 0u32;
    if want("arrays") {
        // "arrays from later files are appended without duplicates"
        check("arrays/same-element-in-both-files",
              &[r#"{"diagnostics": {"disable": ["undefined-global"]}}"#, r#"{"diagnostics": {"disable": ["undefined-global"]}}"#],
              json!({"diagnostics": {"disable": ["undefined-global"]}}), &mut bad);
        check("arrays/new-elements-appended",
              &[r#"{"diagnostics": {"disable": ["a", "b"]}}"#, r#"{"diagnostics": {"disable": ["b", "c", "c"]}}"#],
              json!({"diagnostics": {"disable": ["a", "b", "c"]}}), &mut bad);
        check("arrays/flat-then-nested",
              &[r#"{"diagnostics.disable": ["a"]}"#, r#"{"diagnostics": {"disable": ["b"]}}"#],
              json!({"diagnostics": {"disable": ["a", "b"]}}), &mut bad);
    }
    if want("later-wins") {
        // "when several files set one scalar, the later file's value wins whichever spelling each file uses"
        check("later-wins/flat-then-nested",
              &[r#"{"diagnostics.enable": false}"#, r#"{"diagnostics": {"enable": true}}"#],
              json!({"diagnostics": {"enable": true}}), &mut bad);
        check("later-wins/nested-then-flat",
              &[r#"{"diagnostics": {"enable": true}}"#, r#"{"diagnostics.enable": false}"#],
              json!({"diagnostics": {"enable": false}}), &mut bad);
        check("later-wins/flat-then-flat",
              &[r#"{"diagnostics.enable": false}"#, r#"{"diagnostics.enable": true}"#],
              json!({"diagnostics": {"enable": true}}), &mut bad);
        check("later-wins/nested-then-nested",
              &[r#"{"diagnostics": {"enable": false}}"#, r#"{"diagnostics": {"enable": true}}"#],
              json!({"diagnostics": {"enable": true}}), &mut bad);
        check("later-wins/half-flat",
              &[r#"{"a.b.c": 1}"#, r#"{"a": {"b.c": 2}}"#, r#"{"a.b": {"c": 3}}"#, r#"{"a": {"b": {"c": 4}}}"#],
              json!({"a": {"b": {"c": 4}}}), &mut bad);
        check("later-wins/half-flat-reversed",
              &[r#"{"a": {"b": {"c": 4}}}"#, r#"{"a.b": {"c": 3}}"#, r#"{"a": {"b.c": 2}}"#, r#"{"a.b.c": 1}"#],
              json!({"a": {"b": {"c": 1}}}), &mut bad);
    }
    if want("empty-key") {
        // "a dotted flat key means exactly the same as the nested form": ".a" is the flat spelling of {"": {"a": ..}}
        let flat = load(&[r#"{".a": 1}"#]);
        let nested = load(&[r#"{"": {"a": 1}}"#]);
        if flat == nested { println!("ok     empty-key: {{\".a\": 1}} and {{\"\": {{\"a\": 1}}}} both -> {flat}"); }
        else { println!("FOUND  empty-key: {{\".a\": 1}} -> {flat}   but its nested form {{\"\": {{\"a\": 1}}}} -> {nested}"); bad += 1; }
    }
    if want("value-and-prefix") {
        // C31: never panics; the nested form is kept whichever entry the hash map yields first
        check("value-and-prefix", &[r#"{"a": 1, "a.b": 2}"#], json!({"a": {"b": 2}}), &mut bad);
        check("value-and-prefix/three", &[r#"{"a": 1, "a.b": 2, "a.b.c": 3, "a.d": 4}"#], json!({"a": {"b": {"c": 3}, "d": 4}}), &mut bad);
        check("dots-only", &[r#"{"": 1, ".": 2, "..": 3}"#], json!({"": {"": {"": 3}}}), &mut bad);
    }
    if want("deterministic") {
        // "loading the same configuration files in the same order always gives the same configuration"
        let files = [r#"{"a": 1, "a.b": 2, "c.d.e": [1], "c.d": 5, "x": {"y.z": null}}"#, r#"{"c": {"d": {"e": [2]}}, "a.b": 3}"#];
        let first = load(&files);
        let mut same = true;
        for _ in 0..200 { if load(&files) != first { same = false; } }
        if same { println!("ok     deterministic: 200 loads of {files:?} -> {first}"); }
        else { println!("FOUND  deterministic: repeated loads of {files:?} differ"); bad += 1; }
    }
    if bad > 0 { println!("{bad} expectation(s) of C32 violated by the real loader"); std::process::exit(1); }
    println!("all C32 expectations hold on the real loader");
}
