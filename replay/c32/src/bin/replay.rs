//! C32 replay + bounded witness search: configuration merging and key flattening on the REAL `load_configs_raw`.
//!   replay                 run every fixed scenario below; exit 1 if any expectation derived from the property statement fails
//!   replay <scenario>      one of: arrays | later-wins | empty-key | value-and-prefix | deterministic
//!   replay files a.json b.json ...   load the given files in that order and print the merged configuration
//!   replay search [seed] [count]     bounded witness search over GENERATED file lists (default seed 1, 2500 random lists on
//!                                    top of the 106 systematic ones, about 15 s); `FOUND <clause>: ...` + exit 1, exit 0
//!                                    otherwise, exit 2 when the scenario cannot be set up (temp dir, child process)
//!   replay child <dir> <n>           (internal) load the n lists written below <dir>, one result per line
//! Decides nothing: each FOUND line is a concrete set of configuration files on which the real loader does not do what
//! C32 says ("Loading the same configuration files in the same order always gives the same configuration. A dotted flat
//! key such as "diagnostics.enable" means exactly the same as the nested form. When several files set one scalar, the
//! later file's value wins whichever spelling each file uses, and arrays from later files are appended without
//! duplicates").
//!
//! search: ORACLE (computed in this file from the statement, it shares no code with the loader)
//!   denote(file)   = the list of (path -> leaf) of the file: every key at EVERY depth is split at its dots, so
//!                    {"a.b": {"c.d": 1}} and {"a": {"b": {"c": {"d": 1}}}} both denote a.b.c.d -> 1; a leaf is any
//!                    value that is not an object (arrays are leaves, objects inside arrays are array elements)
//!   merged(files)  = for every path, going through the files in order: a later array is APPENDED to an earlier array
//!                    at the same path, leaving out every element (string, number, object) that is already there; any
//!                    other later leaf REPLACES the earlier one
//!   expected       = the nested object of merged(files).  Where the first file that sets an array repeats an element
//!                    itself, the statement does not say whether the repetition stays: both answers are accepted.
//!   clauses        [deterministic]       30 in-process loads of the list (every hashbrown map has its own seed) and one
//!                                        load in each of 3 child processes all give the same value
//!                  [later-wins] [arrays] load == expected (named after the kind of the first path that differs)
//!                  [flat-equals-nested]  the same files re-spelled all-flat (one dotted key per setting at the top
//!                                        level), all-nested, and in two random mixed spellings load to the same value
//!   COLLISIONS     a list in which one file spells a path twice, or in which a path is both a leaf and a prefix of
//!                  another path ({"runtime": "Lua5.1", "runtime.version": "Lua5.4"}): the statement does not say which
//!                  shape wins, so only [deterministic] is checked for these.
//! BOUNDS  vocabulary: diagnostics.enable (bool), diagnostics.disable (string array), diagnostics.severity.<2 codes>,
//!   runtime.version, workspace.library (strings AND {path, ignoreDir, ignoreGlobs} objects), hint.levels (array of
//!   numbers; not a real setting, the raw loader is schema-agnostic), workspace.ignoreDir; 1-3 files, 1-4 settings per file,
//!   every spelling of a path (2^(segments-1): each separator is a dot or a nesting level, so MIXED forms such as
//!   {"diagnostics": {"severity.unused": "error"}} are included).  Systematic part: every scalar / array setting x every
//!   pair of spellings in two files, three-file chains, the collision files.  A hit is minimised (files, members, array
//!   elements removed while the same clause still fails) before it is printed.
use emmylua_code_analysis::load_configs_raw;
use serde_json::{Value, json};
use std::collections::BTreeMap;
use std::path::{Path, PathBuf};

fn load(files: &[&str]) -> Value {
    let dir = std::env::temp_dir().join(format!("vp_c32_{}", std::process::id()));
    std::fs::create_dir_all(&dir).expect("tmp dir");
    let mut paths: Vec<PathBuf> = Vec::new();
    for (i, content) in files.iter().enumerate() {
        let p = dir.join(format!("{i}.json"));
        std::fs::write(&p, content).expect("write config");
        paths.push(p);
    }
    let r = load_configs_raw(paths, None);
    let _ = std::fs::remove_dir_all(&dir);
    r
}

fn check(name: &str, files: &[&str], expect: Value, bad: &mut u32) {
    let got = load(files);
    if got == expect {
        println!("ok     {name}: files {files:?} -> {got}");
    } else {
        println!("FOUND  {name}: files {files:?} -> {got}   (C32 says {expect})");
        *bad += 1;
    }
}

fn main() {
    let a: Vec<String> = std::env::args().skip(1).collect();
    match a.first().map(|s| s.as_str()) {
        Some("search") => search::run(a.get(1).and_then(|s| s.parse().ok()).unwrap_or(1), a.get(2).and_then(|s| s.parse().ok()).unwrap_or(2500)),
        Some("child") => search::child(Path::new(&a[1]), a[2].parse().expect("n")),
        _ => fixed_scenarios(a),
    }
}

fn fixed_scenarios(a: Vec<String>) {
    if a.first().map(|s| s.as_str()) == Some("files") {
        let contents: Vec<String> = a[1..].iter().map(|p| std::fs::read_to_string(p).expect("read")).collect();
        let refs: Vec<&str> = contents.iter().map(|s| s.as_str()).collect();
        println!("{}", load(&refs));
        return;
    }
    let want = |s: &str| a.is_empty() || a.iter().any(|x| x == s);
    let mut bad = 0u32;
    if want("arrays") {
        // "arrays from later files are appended without duplicates"
        check("arrays/same-element-in-both-files",
              &[r#"{"diagnostics": {"disable": ["undefined-global"]}}"#, r#"{"diagnostics": {"disable": ["undefined-global"]}}"#],
              json!({"diagnostics": {"disable": ["undefined-global"]}}), &mut bad);
        check("arrays/new-elements-appended",
              &[r#"{"diagnostics": {"disable": ["a", "b"]}}"#, r#"{"diagnostics": {"disable": ["b", "c", "c"]}}"#],
              json!({"diagnostics": {"disable": ["a", "b", "c"]}}), &mut bad);
        check("arrays/flat-then-nested",
              &[r#"{"diagnostics.disable": ["a"]}"#, r#"{"diagnostics": {"disable": ["b"]}}"#],
              json!({"diagnostics": {"disable": ["a", "b"]}}), &mut bad);
    }
    if want("later-wins") {
        // "when several files set one scalar, the later file's value wins whichever spelling each file uses"
        check("later-wins/flat-then-nested",
              &[r#"{"diagnostics.enable": false}"#, r#"{"diagnostics": {"enable": true}}"#],
              json!({"diagnostics": {"enable": true}}), &mut bad);
        check("later-wins/nested-then-flat",
              &[r#"{"diagnostics": {"enable": true}}"#, r#"{"diagnostics.enable": false}"#],
              json!({"diagnostics": {"enable": false}}), &mut bad);
        check("later-wins/flat-then-flat",
              &[r#"{"diagnostics.enable": false}"#, r#"{"diagnostics.enable": true}"#],
              json!({"diagnostics": {"enable": true}}), &mut bad);
        check("later-wins/nested-then-nested",
              &[r#"{"diagnostics": {"enable": false}}"#, r#"{"diagnostics": {"enable": true}}"#],
              json!({"diagnostics": {"enable": true}}), &mut bad);
        check("later-wins/half-flat",
              &[r#"{"a.b.c": 1}"#, r#"{"a": {"b.c": 2}}"#, r#"{"a.b": {"c": 3}}"#, r#"{"a": {"b": {"c": 4}}}"#],
              json!({"a": {"b": {"c": 4}}}), &mut bad);
        check("later-wins/half-flat-reversed",
              &[r#"{"a": {"b": {"c": 4}}}"#, r#"{"a.b": {"c": 3}}"#, r#"{"a": {"b.c": 2}}"#, r#"{"a.b.c": 1}"#],
              json!({"a": {"b": {"c": 1}}}), &mut bad);
    }
    if want("empty-key") {
        // "a dotted flat key means exactly the same as the nested form": ".a" is the flat spelling of {"": {"a": ..}}
        let flat = load(&[r#"{".a": 1}"#]);
        let nested = load(&[r#"{"": {"a": 1}}"#]);
        if flat == nested { println!("ok     empty-key: {{\".a\": 1}} and {{\"\": {{\"a\": 1}}}} both -> {flat}"); }
        else { println!("FOUND  empty-key: {{\".a\": 1}} -> {flat}   but its nested form {{\"\": {{\"a\": 1}}}} -> {nested}"); bad += 1; }
    }
    if want("value-and-prefix") {
        // C31: never panics; the nested form is kept whichever entry the hash map yields first
        check("value-and-prefix", &[r#"{"a": 1, "a.b": 2}"#], json!({"a": {"b": 2}}), &mut bad);
        check("value-and-prefix/three", &[r#"{"a": 1, "a.b": 2, "a.b.c": 3, "a.d": 4}"#], json!({"a": {"b": {"c": 3}, "d": 4}}), &mut bad);
        check("dots-only", &[r#"{"": 1, ".": 2, "..": 3}"#], json!({"": {"": {"": 3}}}), &mut bad);
    }
    if want("deterministic") {
        // "loading the same configuration files in the same order always gives the same configuration"
        let files = [r#"{"a": 1, "a.b": 2, "c.d.e": [1], "c.d": 5, "x": {"y.z": null}}"#, r#"{"c": {"d": {"e": [2]}}, "a.b": 3}"#];
        let first = load(&files);
        let mut same = true;
        for _ in 0..200 { if load(&files) != first { same = false; } }
        if same { println!("ok     deterministic: 200 loads of {files:?} -> {first}"); }
        else { println!("FOUND  deterministic: repeated loads of {files:?} differ"); bad += 1; }
    }
    if bad > 0 { println!("{bad} expectation(s) of C32 violated by the real loader"); std::process::exit(1); }
    println!("all C32 expectations hold on the real loader");
}

mod search {
    use super::*;

    // ------------------------------------------------------------------------------------------- a tiny JSON model
    /// JSON text is produced by hand so that the member order (and the presence of two spellings of one path) is under
    /// the generator's control, whatever map type serde_json is built with.
    #[derive(Clone, Debug, PartialEq)]
    pub enum J { Bool(bool), Num(i64), Str(String), Arr(Vec<J>), Obj(Vec<(String, J)>) }

    impl J {
        fn text(&self) -> String {
            match self {
                J::Bool(b) => b.to_string(),
                J::Num(n) => n.to_string(),
                J::Str(s) => format!("{s:?}"),
                J::Arr(v) => format!("[{}]", v.iter().map(|e| e.text()).collect::<Vec<_>>().join(", ")),
                J::Obj(m) => format!("{{{}}}", m.iter().map(|(k, v)| format!("{k:?}: {}", v.text())).collect::<Vec<_>>().join(", ")),
            }
        }
        fn value(&self) -> Value {
            match self {
                J::Bool(b) => Value::Bool(*b),
                J::Num(n) => json!(n),
                J::Str(s) => Value::String(s.clone()),
                J::Arr(v) => Value::Array(v.iter().map(|e| e.value()).collect()),
                J::Obj(m) => Value::Object(m.iter().map(|(k, v)| (k.clone(), v.value())).collect()),
            }
        }
    }
    fn s(x: &str) -> J { J::Str(x.to_string()) }

    struct Rng(u64);
    impl Rng {
        fn next(&mut self) -> u64 { self.0 ^= self.0 << 13; self.0 ^= self.0 >> 7; self.0 ^= self.0 << 17; self.0 }
        fn below(&mut self, n: usize) -> usize { (self.next() % n as u64) as usize }
    }

    // ------------------------------------------------------------------------------------------- oracle
    type PathKey = Vec<String>;

    /// (path -> leaf) pairs of one file in document order: EVERY key at every depth is split at its dots
    fn denote(j: &J, prefix: &PathKey, out: &mut Vec<(PathKey, J)>) {
        match j {
            J::Obj(m) => for (k, v) in m {
                let mut p = prefix.clone();
                p.extend(k.split('.').map(String::from));
                denote(v, &p, out);
            },
            leaf => out.push((prefix.clone(), leaf.clone())),
        }
    }
    fn is_prefix(a: &PathKey, b: &PathKey) -> bool { a.len() < b.len() && b[..a.len()] == a[..] }

    /// None = the list has a collision (the statement fixes nothing but determinism); otherwise path -> leaf.
    /// `dedup_first`: whether an array's own repetitions are dropped in the file that sets it first.
    fn merged(files: &[J], dedup_first: bool) -> Option<BTreeMap<PathKey, J>> {
        let mut m: BTreeMap<PathKey, J> = BTreeMap::new();
        for f in files {
            let mut d = Vec::new();
            denote(f, &Vec::new(), &mut d);
            for (i, (p, _)) in d.iter().enumerate() {
                if d[..i].iter().any(|(q, _)| q == p || is_prefix(q, p) || is_prefix(p, q)) { return None; }
            }
            for (p, leaf) in d {
                if m.keys().any(|q| is_prefix(q, &p) || is_prefix(&p, q)) { return None; }
                let appended = match (m.get_mut(&p), &leaf) {
                    (Some(J::Arr(old)), J::Arr(new)) => { for e in new { if !old.contains(e) { old.push(e.clone()); } } true }
                    _ => false,
                };
                if !appended {
                    let leaf = match leaf {
                        J::Arr(v) if dedup_first => { let mut u: Vec<J> = Vec::new(); for e in v { if !u.contains(&e) { u.push(e); } } J::Arr(u) }
                        other => other,
                    };
                    m.insert(p, leaf);
                }
            }
        }
        Some(m)
    }
    fn nested(m: &BTreeMap<PathKey, J>) -> Value {
        let mut root = Value::Object(Default::default());
        for (p, leaf) in m {
            let mut cur = &mut root;
            for (i, seg) in p.iter().enumerate() {
                let obj = cur.as_object_mut().expect("collision-free paths");
                if i + 1 == p.len() { obj.insert(seg.clone(), leaf.value()); break; }
                cur = obj.entry(seg.clone()).or_insert_with(|| Value::Object(Default::default()));
            }
        }
        root
    }
    fn flat_view(v: &Value, prefix: String, out: &mut BTreeMap<String, Value>) {
        match v {
            Value::Object(m) if !m.is_empty() => for (k, x) in m { flat_view(x, if prefix.is_empty() { k.clone() } else { format!("{prefix}.{k}") }, out); },
            other => { out.insert(prefix, other.clone()); }
        }
    }

    // ------------------------------------------------------------------------------------------- spelling
    /// one setting of a file: path segments, leaf, and for each separator whether it is a nesting level (true) or a dot
    #[derive(Clone, Debug)]
    struct Entry { segs: Vec<String>, nest: Vec<bool>, leaf: J }

    fn groups(e: &Entry) -> Vec<String> {
        let mut g = vec![e.segs[0].clone()];
        for i in 1..e.segs.len() {
            if e.nest[i - 1] { g.push(e.segs[i].clone()); } else { let l = g.last_mut().expect("g"); l.push('.'); l.push_str(&e.segs[i]); }
        }
        g
    }
    /// the file that spells the entries as asked; an entry that cannot be placed (its key group is already a leaf / an
    /// object) is spelled as one dotted key at the top level instead; false = it cannot be placed at all (dropped)
    fn insert(obj: &mut Vec<(String, J)>, g: &[String], leaf: &J) -> bool {
        if g.len() == 1 {
            if obj.iter().any(|(k, _)| k == &g[0]) { return false; }
            obj.push((g[0].clone(), leaf.clone()));
            return true;
        }
        match obj.iter().position(|(k, _)| k == &g[0]) {
            Some(i) => match &mut obj[i].1 { J::Obj(inner) => insert(inner, &g[1..], leaf), _ => false },
            None => { let mut inner = Vec::new(); insert(&mut inner, &g[1..], leaf); obj.push((g[0].clone(), J::Obj(inner))); true }
        }
    }
    fn build(entries: &[Entry]) -> J {
        let mut obj: Vec<(String, J)> = Vec::new();
        for e in entries {
            // try on a copy: a failed insertion may have created empty objects on the way
            let mut trial = obj.clone();
            if insert(&mut trial, &groups(e), &e.leaf) { obj = trial; continue; }
            let flat = vec![e.segs.join(".")];
            let mut trial = obj.clone();
            if insert(&mut trial, &flat, &e.leaf) { obj = trial; }
        }
        J::Obj(obj)
    }
    /// the same denotation in another spelling: mode 0 all flat, 1 all nested, 2 random per setting
    fn respell(file: &J, mode: u8, rng: &mut Rng) -> J {
        let mut d = Vec::new();
        denote(file, &Vec::new(), &mut d);
        let entries: Vec<Entry> = d.into_iter().map(|(p, leaf)| {
            let nest = (1..p.len()).map(|_| match mode { 0 => false, 1 => true, _ => rng.below(2) == 1 }).collect();
            Entry { segs: p, nest, leaf }
        }).collect();
        build(&entries)
    }

    // ------------------------------------------------------------------------------------------- vocabulary
    fn lib_obj(path: &str, dirs: &[&str]) -> J {
        J::Obj(vec![("path".into(), s(path)), ("ignoreDir".into(), J::Arr(dirs.iter().map(|d| s(d)).collect())), ("ignoreGlobs".into(), J::Arr(vec![s("**/*.spec.lua")]))])
    }
    struct Setting { segs: &'static [&'static str], pool: Vec<J>, array: bool }
    fn vocabulary() -> Vec<Setting> {
        vec![
            Setting { segs: &["diagnostics", "enable"], pool: vec![J::Bool(true), J::Bool(false)], array: false },
            Setting { segs: &["diagnostics", "severity", "unused"], pool: vec![s("error"), s("warning"), s("hint")], array: false },
            Setting { segs: &["diagnostics", "severity", "undefined-global"], pool: vec![s("error"), s("warning"), s("information")], array: false },
            Setting { segs: &["runtime", "version"], pool: vec![s("Lua5.1"), s("Lua5.4"), s("LuaJIT")], array: false },
            Setting { segs: &["diagnostics", "disable"], pool: vec![s("undefined-global"), s("unused"), s("undefined-field"), s("redefined-local")], array: true },
            Setting { segs: &["workspace", "library"], pool: vec![s("/lib/a"), s("/lib/b"), lib_obj("/lib/a", &["test"]), lib_obj("/lib/c", &["test", "spec"]), lib_obj("/lib/c", &["spec"])], array: true },
            Setting { segs: &["workspace", "ignoreDir"], pool: vec![s("build"), s("dist"), s(".git")], array: true },
            Setting { segs: &["hint", "levels"], pool: vec![J::Num(1), J::Num(2), J::Num(3), J::Num(10)], array: true },
        ]
    }
    fn segs_of(st: &Setting) -> Vec<String> { st.segs.iter().map(|x| x.to_string()).collect() }
    fn spellings(n: usize) -> Vec<Vec<bool>> { (0..1u32 << (n - 1)).map(|m| (0..n - 1).map(|i| m >> i & 1 == 1).collect()).collect() }
    fn one(st: &Setting, nest: &[bool], leaf: J) -> J { build(&[Entry { segs: segs_of(st), nest: nest.to_vec(), leaf }]) }

    fn systematic() -> Vec<Vec<J>> {
        let voc = vocabulary();
        let mut out: Vec<Vec<J>> = Vec::new();
        for st in &voc {
            let sp = spellings(st.segs.len());
            for a in &sp { for b in &sp {
                if st.array {
                    let p = &st.pool;
                    // [x, y] then [y, z, z]: y is already there, z repeats inside the later file
                    out.push(vec![one(st, a, J::Arr(vec![p[0].clone(), p[1].clone()])), one(st, b, J::Arr(vec![p[1].clone(), p[2].clone(), p[2].clone()]))]);
                    if p.len() > 3 {
                        // the LAST pool elements (objects / larger numbers) repeated across and inside files
                        let (x, y) = (p[p.len() - 1].clone(), p[p.len() - 2].clone());
                        out.push(vec![one(st, a, J::Arr(vec![y.clone(), x.clone()])), one(st, b, J::Arr(vec![x.clone(), p[0].clone(), y.clone()]))]);
                    }
                } else {
                    out.push(vec![one(st, a, st.pool[0].clone()), one(st, b, st.pool[1].clone())]);
                }
            } }
            // three files, three spellings
            for k in 0..sp.len() {
                let (a, b, c) = (&sp[k], &sp[(k + 1) % sp.len()], &sp[(k + 2) % sp.len()]);
                if st.array {
                    let p = &st.pool;
                    out.push(vec![one(st, a, J::Arr(vec![p[0].clone()])), one(st, b, J::Arr(vec![p[1].clone(), p[0].clone()])), one(st, c, J::Arr(vec![p[2].clone(), p[1].clone(), p[p.len() - 1].clone()]))]);
                } else {
                    out.push(vec![one(st, a, st.pool[0].clone()), one(st, b, st.pool[1].clone()), one(st, c, st.pool[2 % st.pool.len()].clone())]);
                }
            }
        }
        // siblings below one section, one of them dotted below the top level
        out.push(vec![J::Obj(vec![("diagnostics".into(), J::Obj(vec![("severity.unused".into(), s("error")), ("enable".into(), J::Bool(true))]))]),
                      J::Obj(vec![("diagnostics".into(), J::Obj(vec![("severity".into(), J::Obj(vec![("unused".into(), s("warning"))])), ("enable".into(), J::Bool(false))]))])]);
        // collisions: a name that is a scalar AND a prefix; one path spelled twice in one file
        let c1 = J::Obj(vec![("runtime".into(), s("Lua5.1")), ("runtime.version".into(), s("Lua5.4"))]);
        let c2 = J::Obj(vec![("runtime.version".into(), s("Lua5.4")), ("runtime".into(), s("Lua5.1"))]);
        let c3 = J::Obj(vec![("diagnostics".into(), J::Obj(vec![("severity".into(), s("error")), ("severity.unused".into(), s("hint"))]))]);
        let c4 = J::Obj(vec![("diagnostics.enable".into(), J::Bool(true)), ("diagnostics".into(), J::Obj(vec![("enable".into(), J::Bool(false))]))]);
        let c5 = J::Obj(vec![("workspace".into(), s("x")), ("workspace.library".into(), J::Arr(vec![s("/lib/a")])), ("workspace.ignoreDir".into(), J::Arr(vec![s("build")]))]);
        let plain = J::Obj(vec![("runtime".into(), J::Obj(vec![("version".into(), s("LuaJIT"))]))]);
        for c in [&c1, &c2, &c3, &c4, &c5] {
            out.push(vec![c.clone()]);
            out.push(vec![c.clone(), plain.clone()]);
            out.push(vec![plain.clone(), c.clone()]);
        }
        out.push(vec![J::Obj(vec![("runtime".into(), s("Lua5.1"))]), J::Obj(vec![("runtime.version".into(), s("Lua5.4"))])]);
        out.push(vec![J::Obj(vec![("runtime.version".into(), s("Lua5.4"))]), J::Obj(vec![("runtime".into(), s("Lua5.1"))])]);
        out
    }

    fn random_list(rng: &mut Rng) -> Vec<J> {
        let voc = vocabulary();
        let nfiles = 1 + rng.below(3);
        (0..nfiles).map(|_| {
            let k = 1 + rng.below(4);
            let mut entries: Vec<Entry> = Vec::new();
            for _ in 0..k {
                let st = &voc[rng.below(voc.len())];
                if entries.iter().any(|e| e.segs == segs_of(st)) { continue; }
                let leaf = if st.array { J::Arr((0..1 + rng.below(3)).map(|_| st.pool[rng.below(st.pool.len())].clone()).collect()) } else { st.pool[rng.below(st.pool.len())].clone() };
                let nest = (1..st.segs.len()).map(|_| rng.below(2) == 1).collect();
                entries.push(Entry { segs: segs_of(st), nest, leaf });
            }
            // one file in eight carries a collision: a section name that is also a scalar, spelled flat at the top level
            if rng.below(8) == 0 {
                let sect = ["runtime", "diagnostics", "workspace", "diagnostics.severity"][rng.below(4)];
                let e = Entry { segs: sect.split('.').map(String::from).collect(), nest: vec![false; sect.split('.').count() - 1], leaf: s("scalar") };
                if rng.below(2) == 0 { entries.insert(0, e); } else { entries.push(e); }
            }
            build(&entries)
        }).collect()
    }

    // ------------------------------------------------------------------------------------------- running the real loader
    struct Scratch { dir: PathBuf }
    impl Scratch {
        fn write(&self, sub: &str, files: &[J]) -> Vec<PathBuf> {
            let d = self.dir.join(sub);
            if std::fs::create_dir_all(&d).is_err() { println!("UNDECIDED cannot create {d:?}"); std::process::exit(2); }
            files.iter().enumerate().map(|(i, f)| {
                let p = d.join(format!("{i}.json"));
                if std::fs::write(&p, f.text()).is_err() { println!("UNDECIDED cannot write {p:?}"); std::process::exit(2); }
                p
            }).collect()
        }
    }
    fn show(files: &[J]) -> String { format!("[{}]", files.iter().map(|f| f.text()).collect::<Vec<_>>().join(" ; ")) }

    /// the clause a list violates (None = none), with the text of the finding; `loads` in-process repetitions
    fn violation(sc: &Scratch, files: &[J], loads: usize, rng: &mut Rng) -> Option<(&'static str, String)> {
        let paths = sc.write("cur", files);
        let first = load_configs_raw(paths.clone(), None);
        for i in 1..loads {
            let again = load_configs_raw(paths.clone(), None);
            if again != first {
                return Some(("deterministic", format!("load 1 -> {first}   load {} of the same files -> {again}", i + 1)));
            }
        }
        let Some(strict) = merged(files, true) else { return None; };
        let lenient = merged(files, false).expect("same collisions");
        let (e1, e2) = (nested(&strict), nested(&lenient));
        if first != e1 && first != e2 {
            let (mut g, mut e) = (BTreeMap::new(), BTreeMap::new());
            flat_view(&first, String::new(), &mut g);
            flat_view(&e2, String::new(), &mut e);
            let at = e.iter().find(|(k, v)| g.get(*k) != Some(v)).map(|(k, v)| (k.clone(), v.clone()))
                .or_else(|| g.iter().find(|(k, _)| !e.contains_key(*k)).map(|(k, _)| (k.clone(), Value::Null)));
            let (k, v) = at.unwrap_or_default();
            let clause = if v.is_array() { "arrays" } else { "later-wins" };
            return Some((clause, format!("loaded {first}   (C32 says {e2}; first difference at `{k}`)")));
        }
        for mode in [0u8, 1, 2, 2] {
            let other: Vec<J> = files.iter().map(|f| respell(f, mode, rng)).collect();
            if merged(&other, false) != Some(lenient.clone()) { continue; } // a spelling that could not be built
            let r = load_configs_raw(sc.write("alt", &other), None);
            if r != first {
                return Some(("flat-equals-nested", format!("loaded {first}   but the same settings spelled {} load as {r}", show(&other))));
            }
        }
        None
    }

    /// every list obtained by removing one file, one object member or one array element
    fn reductions(files: &[J]) -> Vec<Vec<J>> {
        fn shrink(j: &J) -> Vec<J> {
            let mut out = Vec::new();
            match j {
                J::Obj(m) => for i in 0..m.len() {
                    let mut c = m.clone(); c.remove(i); out.push(J::Obj(c));
                    for smaller in shrink(&m[i].1) { let mut c = m.clone(); c[i].1 = smaller; out.push(J::Obj(c)); }
                },
                J::Arr(v) => for i in 0..v.len() {
                    let mut c = v.clone(); c.remove(i); out.push(J::Arr(c));
                    for smaller in shrink(&v[i]) { let mut c = v.clone(); c[i] = smaller; out.push(J::Arr(c)); }
                },
                _ => {}
            }
            out
        }
        let mut out = Vec::new();
        for i in 0..files.len() {
            if files.len() > 1 { let mut c = files.to_vec(); c.remove(i); out.push(c); }
            for smaller in shrink(&files[i]) {
                if matches!(&smaller, J::Obj(m) if m.is_empty()) { continue; }
                let mut c = files.to_vec(); c[i] = smaller; out.push(c);
            }
        }
        out
    }
    fn minimise(sc: &Scratch, mut files: Vec<J>, clause: &str, rng: &mut Rng) -> (Vec<J>, String) {
        let loads = if clause == "deterministic" { 60 } else { 2 };
        let mut msg = violation(sc, &files, loads, rng).map(|(_, m)| m).unwrap_or_default();
        'outer: loop {
            for cand in reductions(&files) {
                if let Some((c, m)) = violation(sc, &cand, loads, rng) && c == clause { files = cand; msg = m; continue 'outer; }
            }
            return (files, msg);
        }
    }

    pub fn child(dir: &Path, n: usize) {
        for k in 0..n {
            let d = dir.join(format!("l{k}"));
            let mut paths = Vec::new();
            for i in 0.. { let p = d.join(format!("{i}.json")); if p.exists() { paths.push(p); } else { break; } }
            println!("{}", load_configs_raw(paths, None));
        }
    }

    pub fn run(seed: u64, count: usize) {
        let t0 = std::time::Instant::now();
        let sc = Scratch { dir: std::env::temp_dir().join(format!("vr_c32s_{}", std::process::id())) };
        let _ = std::fs::remove_dir_all(&sc.dir);
        let mut rng = Rng(seed.wrapping_mul(0x9E37_79B9_7F4A_7C15) | 1);
        let mut lists = systematic();
        let n_sys = lists.len();
        for _ in 0..count { lists.push(random_list(&mut rng)); }
        let mut found: Vec<&'static str> = Vec::new();
        let (mut collisions, mut firsts) = (0usize, Vec::new());
        for (k, files) in lists.iter().enumerate() {
            if merged(files, false).is_none() { collisions += 1; }
            let paths = sc.write(&format!("l{k}"), files); // kept for the child processes
            firsts.push(load_configs_raw(paths, None));
            if let Some((clause, _)) = violation(&sc, files, 30, &mut rng) {
                if found.contains(&clause) { continue; }
                found.push(clause);
                let (min, msg) = minimise(&sc, files.clone(), clause, &mut rng);
                println!("FOUND {clause}: list #{k} minimised to files {} : {msg}", show(&min));
            }
        }
        // the same lists in 3 child processes
        let me = std::env::current_exe().expect("current_exe");
        for c in 0..3 {
            let out = match std::process::Command::new(&me).arg("child").arg(&sc.dir).arg(lists.len().to_string()).stderr(std::process::Stdio::null()).output() {
                Ok(o) if o.status.success() => o,
                other => { println!("UNDECIDED child process {c} failed: {other:?}"); std::process::exit(2); }
            };
            let text = String::from_utf8_lossy(&out.stdout);
            let lines: Vec<&str> = text.lines().collect();
            if lines.len() != lists.len() { println!("UNDECIDED child process {c} printed {} results for {} lists", lines.len(), lists.len()); std::process::exit(2); }
            for (k, l) in lines.iter().enumerate() {
                let v: Value = serde_json::from_str(l).unwrap_or(Value::Null);
                if v != firsts[k] && !found.contains(&"deterministic") {
                    found.push("deterministic");
                    println!("FOUND deterministic: list #{k} files {} : this process loaded {}   child process {c} loaded {v}", show(&lists[k]), firsts[k]);
                }
            }
        }
        let _ = std::fs::remove_dir_all(&sc.dir);
        let secs = t0.elapsed().as_secs_f32();
        if found.is_empty() {
            println!("OK C32 search seed {seed}: {} lists ({n_sys} systematic + {count} random, {collisions} with a collision: determinism only) x 30 loads + 3 child processes + 4 re-spellings: the real loader agrees with the statement ({secs:.1}s)", lists.len());
            std::process::exit(0);
        }
        println!("{} clause(s) of C32 violated by the real loader: {} ({} lists, {secs:.1}s)", found.len(), found.join(", "), lists.len());
        std::process::exit(1);
    }
}
