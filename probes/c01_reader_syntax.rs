use vstd::prelude::*;
use std::str::Chars;
verus! {
pub const EOF: char = '\0';
pub struct Reader<'a> {
    pub text: &'a str,
    pub chars: Chars<'a>,
    pub current_buffer_byte_pos: usize,
    pub current_buffer_byte_len: usize,
    pub next: char,
    pub current: char,
    pub prev: char,
}
impl<'a> Reader<'a> {
    pub fn bump(&mut self) {
        if self.current != EOF {
            self.current_buffer_byte_len += self.current.len_utf8();
            self.prev = self.current;
            self.current = self.next;
            self.next = self.chars.next().unwrap_or(EOF);
        }
    }
    pub fn eat_while<F>(&mut self, func: F) -> usize
    where
        F: Fn(char) -> bool,
    {
        let mut count = 0;
        while !self.is_eof() && func(self.current_char()) {
            count += 1;
            self.bump();
        }
        count
    }
    pub fn is_eof(&self) -> bool {
        self.current == EOF
    }
    pub fn current_char(&self) -> char {
        self.current
    }
}
}
fn main() {}
