use vstd::prelude::*;
verus! {
#[derive(Clone, Copy, PartialEq, Eq)]
pub enum LuaTokenKind {
    None,
    // KeyWord
    TkAnd,
    TkBreak,
    TkDo,
    TkElse,
    TkElseIf,
    TkEnd,
    TkFalse,
    TkFor,
    TkFunction,
    TkGoto,
    TkIf,
    TkIn,
    TkLocal,
    TkNil,
    TkNot,
    TkOr,
    TkRepeat,
    TkReturn,
    TkThen,
    TkTrue,
    TkUntil,
    TkWhile,
    TkGlobal, // global *

    // extension keywords
    TkContinue, // continue
    TkConst,    // const
    TkToggle,   // !

    TkWhitespace,    // whitespace
    TkEndOfLine,     // end of line
    TkPlus,          // +
    TkMinus,         // -
    TkMul,           // *
    TkDiv,           // /
    TkIDiv,          // //
    TkDot,           // .
    TkConcat,        // ..
    TkDots,          // ...
    TkComma,         // ,
    TkAssign,        // =
    TkEq,            // ==
    TkGe,            // >=
    TkLe,            // <=
    TkNe,            // ~=
    TkShl,           // <<
    TkShr,           // >>
    TkShrArithmetic, // "~>>"
    TkLt,            // <
    TkGt,            // >
    TkMod,           // %
    TkPow,           // ^
    TkLen,           // #
    TkBitAnd,        // &
    TkBitOr,         // |
    TkBitXor,        // ~
    TkColon,         // :
    TkDbColon,       // ::
    TkSemicolon,     // ;

    // compound assignment operators
    TkPlusAssign,          // +=
    TkMinusAssign,         // -=
    TkStarAssign,          // *=
    TkSlashAssign,         // /=
    TkPercentAssign,       // %=
    TkCaretAssign,         // ^=
    TkDoubleSlashAssign,   // //=
    TkPipeAssign,          // |=
    TkAmpAssign,           // &=
    TkShiftLeftAssign,     // <<=
    TkShiftRightAssign,    // >>=
    TkShrArithmeticAssign, // ~>>=
    TkConcatAssign,        // ..=
    TkXorAssign,           // ~=
    // TkNilCoalescingAssign, // ??=

    // luajit extension operators
    TkNilCoalescing,   // ??
    TkSafeNavigation,  // ?.
    TkTernary,         // ?
    TkArrow,           // ->
    TkLogicalOr,       // ||
    TkLogicalAnd,      // &&
    TkEmptyShortParam, // ||

    TkLeftBracket,  // [
    TkRightBracket, // ]
    TkLeftParen,    // (
    TkRightParen,   // )
    TkLeftBrace,    // {
    TkRightBrace,   // }
    TkComplex,      // complex
    TkInt,          // int
    TkFloat,        // float

    TkName,         // name
    TkString,       // string
    TkLongString,   // long string
    TkShortComment, // short comment
    TkLongComment,  // long comment
    TkShebang,      // shebang
    TkEof,          // eof

    TkUnknown, // unknown

    // doc
    TkNormalStart,      // -- or ---
    TkLongCommentStart, // --[[
    TkDocLongStart,     // --[[@
    TkDocStart,         // ---@
    TKDocTriviaStart,   // --------------
    TkDocTrivia,        // other can not parsed
    TkLongCommentEnd,   // ]] or ]===]
    TKNonStdComment,    // // comment, non-standard lua comment

    // tag
    TkTagClass,     // class
    TkTagEnum,      // enum
    TkTagInterface, // interface
    TkTagAlias,     // alias
    TkTagModule,    // module

    TkTagField,          // field
    TkTagType,           // type
    TkTagParam,          // param
    TkTagReturn,         // return
    TkTagOverload,       // overload
    TkTagGeneric,        // generic
    TkTagSee,            // see
    TkTagDeprecated,     // deprecated
    TkTagAsync,          // async
    TkTagCast,           // cast
    TkTagOther,          // other
    TkTagVisibility,     // public private protected package
    TkTagReadonly,       // readonly
    TkTagDiagnostic,     // diagnostic
    TkTagMeta,           // meta
    TkTagVersion,        // version
    TkTagAs,             // as
    TkTagNodiscard,      // nodiscard
    TkTagOperator,       // operator
    TkTagMapping,        // mapping
    TkTagNamespace,      // namespace
    TkTagUsing,          // using
    TkTagSource,         // source
    TkTagReturnCast,     // return cast
    TkTagReturnOverload, // return overload
    TkLanguage,          // language
    TKTagSchema,         // schema
    TkCallGeneric,       // call generic. function_name--[[@<type>]](...)

    TkDocOr,              // |
    TkDocAnd,             // &
    TkDocKeyOf,           // keyof
    TkDocExtends,         // extends
    TkDocNew,             // new
    TkDocAs,              // as
    TkDocIn,              // in
    TkDocInfer,           // infer
    TkDocConst,           // const
    TkDocElse,            // else (for return_cast)
    TkDocContinue,        // ---
    TkDocContinueOr,      // ---| or ---|+  or ---|>
    TkDocDetail,          // a description
    TkDocQuestion,        // '?'
    TkDocVisibility,      // public private protected package
    TkDocReadonly,        // readonly
    TkAt,                 // '@', invalid lua token, but for postfix completion
    TkDocVersionNumber,   // version number
    TkStringTemplateType, // type template
    TkDocMatch,           // =
    TKDocPath,            // path
    TkDocRegion,          // region
    TkDocEndRegion,       // endregion
    TkDocSeeContent,      // see content
    TkDocAttributeUse,    // '@[', used for attribute usage
}
#[derive(Clone, Copy, PartialEq, Eq)]
pub enum LuaSyntaxKind {
    None,
    // source
    Chunk,

    // block
    Block,

    // statements
    EmptyStat,
    LocalStat,
    LocalFuncStat,
    IfStat,
    ElseIfClauseStat,
    ElseClauseStat,
    WhileStat,
    DoStat,
    ForStat,
    ForRangeStat,
    RepeatStat,
    FuncStat,
    LabelStat,
    BreakStat,
    ContinueStat,
    ConstStat,
    ReturnStat,
    GotoStat,
    CallExprStat,
    AssignStat,
    GlobalStat,
    UnknownStat,

    // expressions
    ParenExpr,
    LiteralExpr,
    ClosureExpr,
    UnaryExpr,
    BinaryExpr,
    TableArrayExpr,       // { a, b, c}
    TableObjectExpr,      // { a = 1, b = 2, c = 3}
    TableEmptyExpr,       // {}
    CallExpr,             // a()
    RequireCallExpr,      // require('a')
    ErrorCallExpr,        // error('a')
    AssertCallExpr,       // assert(a)
    TypeCallExpr,         // type(a)
    SetmetatableCallExpr, // setmetatable(a, b)
    IndexExpr,
    NameExpr,
    TernaryExpr,   // a ? b : c
    SafeIndexExpr, // a?.b

    // other
    LocalName,
    ParamName,
    ParamList,
    CallArgList,
    TableFieldAssign,
    TableFieldValue,
    Attribute,

    // comment
    Comment,

    // doc tag
    DocTagClass,
    DocTagEnum,
    DocTagInterface,
    DocTagAlias,
    DocTagField,
    DocTagType,
    DocTagParam,
    DocTagReturn,
    DocTagReturnOverload,
    DocTagGeneric,
    DocTagSee,
    DocTagDeprecated,
    DocTagCast,
    DocTagOverload,
    DocTagAsync,
    DocTagVisibility,
    DocTagMeta,
    DocTagOther,
    DocTagDiagnostic,
    DocTagVersion,
    DocTagAs,
    DocTagNodiscard,
    DocTagOperator,
    DocTagModule,
    DocTagMapping,
    DocTagNamespace,
    DocTagUsing,
    DocTagSource,
    DocTagReadonly,
    DocTagReturnCast,
    DocTagLanguage,
    DocTagAttributeUse, // '@['
    DocTagCallGeneric,
    DocTagSchema,

    // doc Type
    TypeArray,          // baseType []
    TypeUnary,          // keyof type
    TypeBinary,         // aType | bType, aType & bType, aType extends bType, aType in bType
    TypeConditional,    // <conditionType> and <trueType> or <falseType>
    TypeFun,            // fun(<paramList>): returnType
    TypeGeneric,        // name<typeList>
    TypeTuple,          // [typeList]
    TypeObject, // { a: aType, b: bType } or { [1]: aType, [2]: bType } or { a: aType, b: bType, [number]: string }
    TypeLiteral, // "string" or <integer> or true or false
    TypeName,   // name
    TypeInfer,  // infer T
    TypeVariadic, // type...
    TypeNullable, // <Type>?
    TypeStringTemplate, // prefixName.`T`
    TypeMultiLineUnion, // | simple type # description

    // follow donot support now
    TypeMatch,
    TypeIndexAccess, // type[keyType]
    TypeMapped,      // { [p in KeyType]+? : ValueType }

    // doc other
    DocObjectField,
    DocContinueOrField,
    // doc parameter
    DocTypedParameter,
    DocNamedReturnType,
    DocGenericParameter,
    DocGenericDeclareList,
    DocDiagnosticNameList,
    DocTypeList,
    DocTypeFlag,             // (partial, global, local, ...)
    DocAttributeUse,         // use. attribute in @[attribute1, attribute2, ...]
    DocAttributeCallArgList, // use. argument list in @[attribute_name(arg1, arg2, ...)]
    DocOpType,               // +<type>, -<type>, +?
    DocEnumFieldList,        // ---| <EnumField>
    DocMappedKey,            // <+/-readonly> [Property in <keyof> KeyType]<+/-?>
    DocEnumField, // <string> # description or <integer> # description or <name> # description
    DocOneLineField, // <type> # description
    DocDiagnosticCodeList, // unused-local, undefined-global ...
    // start with '#' or '@'
    DocDescription,

    // [<|>] [<framework>] <version>, <version> can be '5.1', '5.2', '5.3', '5.4', 'JIT', <framework> can be 'openresty'
    DocVersion,
}
#[derive(Clone, Copy, PartialEq, Eq)]
pub struct SourceRange { pub start_offset: usize, pub length: usize }
#[derive(Clone, Copy)]
pub struct LuaTokenData { pub kind: LuaTokenKind, pub range: SourceRange }
pub enum MarkEvent {
    NodeStart { kind: LuaSyntaxKind, parent: usize },
    EatToken { kind: LuaTokenKind, range: SourceRange },
    NodeEnd,
    Trivia,
}
pub struct LuaParser {
    pub events: Vec<MarkEvent>,
    pub tokens: Vec<LuaTokenData>,
    pub token_index: usize,
    pub current_token: LuaTokenKind,
    pub support_doc: bool,
}
#[verifier::external_body]
pub fn vx_doc_parse(p: &mut LuaParser, tokens: &[LuaTokenData]) { unimplemented!() }
impl LuaParser {
pub fn init(&mut self) {
        if self.tokens.is_empty() {
            self.current_token = LuaTokenKind::TkEof;
        } else {
            self.current_token = self.tokens[0].kind;
        }

        if is_trivia_kind(self.current_token) {
            self.bump();
        }
    }
pub fn bump(&mut self) {
        if !is_invalid_kind(self.current_token) && self.token_index < self.tokens.len() {
            let token = &self.tokens[self.token_index];
            self.events.push(MarkEvent::EatToken {
                kind: token.kind,
                range: token.range,
            });
        }

        let mut next_index = self.token_index + 1;
        self.skip_trivia(&mut next_index);
        self.parse_trivia_tokens(next_index);
        self.token_index = next_index;

        if self.token_index >= self.tokens.len() {
            self.current_token = LuaTokenKind::TkEof;
            return;
        }

        self.current_token = self.tokens[self.token_index].kind;
    }
fn skip_trivia(&self, index: &mut usize) {
        if index >= &mut self.tokens.len() {
            return;
        }

        let mut kind = self.tokens[*index].kind;
        while is_trivia_kind(kind) {
            *index += 1;
            if *index >= self.tokens.len() {
                break;
            }
            kind = self.tokens[*index].kind;
        }
    }
fn parse_trivia_tokens(&mut self, next_index: usize) {
        let mut line_count = 0;
        let start = self.token_index;
        let mut doc_tokens: Vec<LuaTokenData> = Vec::new();
        for i in start..next_index {
            let token = &self.tokens[i];
            match token.kind {
                LuaTokenKind::TkShortComment | LuaTokenKind::TkLongComment => {
                    line_count = 0;
                    doc_tokens.push(*token);
                }
                LuaTokenKind::TkEndOfLine => {
                    line_count += 1;

                    if doc_tokens.is_empty() {
                        self.events.push(MarkEvent::EatToken {
                            kind: token.kind,
                            range: token.range,
                        });
                    } else {
                        doc_tokens.push(*token);
                    }

                    // If there are two EOFs after the comment, the previous comment is considered a group of comments
                    if line_count > 1 && !doc_tokens.is_empty() {
                        self.parse_comments(&doc_tokens);
                        doc_tokens.clear();
                    }
                    // check if the comment is an inline comment
                    // first is comment, second is endofline
                    else if doc_tokens.len() == 2 && i >= 2 {
                        let mut temp_index = i as isize - 2;
                        let mut inline_comment = false;
                        while temp_index >= 0 {
                            let kind = self.tokens[temp_index as usize].kind;
                            match kind {
                                LuaTokenKind::TkEndOfLine => {
                                    break;
                                }
                                LuaTokenKind::TkWhitespace => {
                                    temp_index -= 1;
                                    continue;
                                }
                                _ => {
                                    inline_comment = true;
                                    break;
                                }
                            }
                        }

                        if inline_comment {
                            self.parse_comments(&doc_tokens);
                            doc_tokens.clear();
                        }
                    }
                }
                LuaTokenKind::TkShebang | LuaTokenKind::TkWhitespace => {
                    if doc_tokens.is_empty() {
                        self.events.push(MarkEvent::EatToken {
                            kind: token.kind,
                            range: token.range,
                        });
                    } else {
                        doc_tokens.push(*token);
                    }
                }
                _ => {
                    if !doc_tokens.is_empty() {
                        self.parse_comments(&doc_tokens);
                        doc_tokens.clear();
                    }
                }
            }
        }

        if !doc_tokens.is_empty() {
            self.parse_comments(&doc_tokens);
        }
    }
fn parse_comments(&mut self, comment_tokens: &[LuaTokenData]) {
        if !self.support_doc {
            for token in comment_tokens {
                self.events.push(MarkEvent::EatToken {
                    kind: token.kind,
                    range: token.range,
                });
            }
            return;
        }

        let mut trivia_token_start = comment_tokens.len();
        // Reverse iterate over comment_tokens, removing whitespace and end-of-line tokens
        for i in (0..comment_tokens.len()).rev() {
            if matches!(
                comment_tokens[i].kind,
                LuaTokenKind::TkWhitespace | LuaTokenKind::TkEndOfLine
            ) {
                trivia_token_start = i;
            } else {
                break;
            }
        }

        let tokens = &comment_tokens[..trivia_token_start];
        vx_doc_parse(self, tokens);

        for token in comment_tokens.iter().skip(trivia_token_start) {
            self.events.push(MarkEvent::EatToken {
                kind: token.kind,
                range: token.range,
            });
        }
    }
}
fn is_trivia_kind(kind: LuaTokenKind) -> bool {
    matches!(
        kind,
        LuaTokenKind::TkShortComment
            | LuaTokenKind::TkLongComment
            | LuaTokenKind::TkEndOfLine
            | LuaTokenKind::TkWhitespace
            | LuaTokenKind::TkShebang
    )
}
fn is_invalid_kind(kind: LuaTokenKind) -> bool {
    matches!(
        kind,
        LuaTokenKind::None
            | LuaTokenKind::TkEof
            | LuaTokenKind::TkWhitespace
            | LuaTokenKind::TkShebang
            | LuaTokenKind::TkEndOfLine
            | LuaTokenKind::TkShortComment
            | LuaTokenKind::TkLongComment
    )
}
}
fn main() {}
