#![feature(allocator_api)]
use vstd::prelude::*;
use std::collections::HashMap;
use std::alloc::Allocator;
verus! {

pub assume_specification<T, A: Allocator, F: FnMut(&T) -> bool>[ Vec::<T, A>::retain ](v: &mut Vec<T, A>, f: F)
    ensures
        final(v)@.len() <= old(v)@.len(),
        forall|i: int| 0 <= i < final(v)@.len() ==> old(v)@.contains(#[trigger] final(v)@[i]);

fn rm(v: &mut Vec<u32>, x: u32)
    ensures final(v)@.len() <= old(v)@.len()
{
    v.retain(|id: &u32| *id != x);
}

pub struct Node { pub files: Vec<u32> }
fn gm(m: &mut HashMap<u32, Node>, k: u32) {
    if let Some(n) = m.get_mut(&k) {
        n.files.push(1);
    }
}
}
fn main() {}
