use vstd::prelude::*;
verus! {

#[derive(Clone, Copy, PartialEq, Eq, Debug)]
pub enum LuaSyntaxKind { None, Chunk, Block, Comment, TypeMultiLineUnion, DocDescription, Other }
#[derive(Clone, Copy, PartialEq, Eq, Debug)]
pub enum LuaTokenKind { None, TkWhitespace, TkEndOfLine, TkDocContinue, Other }
#[derive(Clone, Copy, Debug)]
pub struct SourceRange { pub start_offset: usize, pub length: usize }


#[verifier::external_body]
pub fn vx_drain_from(v: &mut Vec<usize>, a: usize) -> (r: Vec<usize>)
    requires a <= old(v)@.len()
    ensures final(v)@ == old(v)@.subrange(0, a as int), r@ == old(v)@.subrange(a as int, old(v)@.len() as int)
{ v.drain(a..).collect() }
#[verifier::external_body]
pub fn vx_drain_incl(v: &mut Vec<usize>, a: usize, b: usize) -> (r: Vec<usize>)
    requires a <= b + 1, b < old(v)@.len() || (a == b + 1 && a <= old(v)@.len())
    ensures final(v)@ == old(v)@.subrange(0, a as int) + old(v)@.subrange(b as int + 1, old(v)@.len() as int), r@ == old(v)@.subrange(a as int, b as int + 1)
{ v.drain(a..=b).collect() }

#[derive(Debug, Clone)]
enum LuaGreenElement {
    None,
    Node {
        kind: LuaSyntaxKind,
        children: Vec<usize>,
    },
    Token {
        kind: LuaTokenKind,
        range: SourceRange,
    },
}

pub struct LuaGreenNodeBuilder {
    parents: Vec<(LuaSyntaxKind, usize)>,
    children: Vec<usize>, /*index for elements*/
    elements: Vec<LuaGreenElement>,
}

impl LuaGreenNodeBuilder {
    #[inline]
    pub fn token(&mut self, kind: LuaTokenKind, range: SourceRange) {
        let len = self.elements.len();
        self.elements.push(LuaGreenElement::Token { kind, range });
        self.children.push(len);
    }

    #[inline]
    pub fn start_node(&mut self, kind: LuaSyntaxKind) {
        let len = self.children.len();
        self.parents.push((kind, len));
    }

    #[inline]
    pub fn finish_node(&mut self) {
        if self.parents.is_empty() || self.children.is_empty() {
            return;
        }

        let (parent_kind, mut first_start) = self.parents.pop().unwrap();
        let mut child_start = first_start;
        let mut child_end = self.children.len() - 1;
        let child_count = self.children.len();
        let green = match parent_kind {
            LuaSyntaxKind::Block | LuaSyntaxKind::Chunk => {
                while child_start > 0 {
                    if self.is_trivia(self.children[child_start - 1]) {
                        child_start -= 1;
                    } else {
                        break;
                    }
                }
                if child_start < first_start {
                    first_start = child_start;
                }

                let children = vx_drain_from(&mut self.children, first_start);

                LuaGreenElement::Node {
                    kind: parent_kind,
                    children,
                }
            }
            LuaSyntaxKind::Comment | LuaSyntaxKind::TypeMultiLineUnion => {
                while child_start < child_count {
                    if self.is_trivia_whitespace(self.children[child_start]) {
                        child_start += 1;
                    } else {
                        break;
                    }
                }
                while child_end > child_start {
                    if self.is_trivia_whitespace(self.children[child_end]) {
                        child_end -= 1;
                    } else {
                        break;
                    }
                }

                let children = vx_drain_incl(&mut self.children, child_start, child_end);
                LuaGreenElement::Node {
                    kind: parent_kind,
                    children,
                }
            }
            _ => {
                while child_start < child_count {
                    if self.is_trivia(self.children[child_start]) {
                        child_start += 1;
                    } else {
                        break;
                    }
                }
                while child_end > child_start {
                    if self.is_trivia(self.children[child_end]) {
                        child_end -= 1;
                    } else {
                        break;
                    }
                }

                let children = vx_drain_incl(&mut self.children, child_start, child_end);
                LuaGreenElement::Node {
                    kind: parent_kind,
                    children,
                }
            }
        };

        let pos = self.elements.len();
        self.elements.push(green);

        if child_end + 1 < child_count {
            self.children.insert(child_start, pos);
        } else {
            self.children.push(pos);
        }
    }

    fn is_trivia(&self, pos: usize) -> bool {
        match self.elements.get(pos) { Some(element) => {
            matches!(
                element,
                LuaGreenElement::Token {
                    kind: LuaTokenKind::TkWhitespace
                        | LuaTokenKind::TkEndOfLine
                        | LuaTokenKind::TkDocContinue,
                    ..
                } | LuaGreenElement::Node {
                    kind: LuaSyntaxKind::Comment | LuaSyntaxKind::DocDescription,
                    ..
                }
            )
        } None => false }
    }

    pub fn is_trivia_whitespace(&self, pos: usize) -> bool {
        if let Some(element) = self.elements.get(pos) {
            matches!(
                element,
                LuaGreenElement::Token {
                    kind: LuaTokenKind::TkWhitespace | LuaTokenKind::TkEndOfLine,
                    ..
                }
            )
        } else {
            false
        }
    }
}

} // verus!
fn main() {}
