#![feature(allocator_api)]
use vstd::prelude::*;
use std::alloc::Allocator;
verus! {
#[derive(PartialEq, Eq, Clone, Copy)]
pub struct DiagnosticSeverity(pub i32);
impl DiagnosticSeverity {
    pub const ERROR: DiagnosticSeverity = DiagnosticSeverity(1);
    pub const WARNING: DiagnosticSeverity = DiagnosticSeverity(2);
    pub const INFORMATION: DiagnosticSeverity = DiagnosticSeverity(3);
    pub const HINT: DiagnosticSeverity = DiagnosticSeverity(4);
}
pub struct Diagnostic { pub severity: Option<DiagnosticSeverity> }

pub open spec fn is_err(d: Diagnostic, wae: bool) -> bool {
    d.severity == Some(DiagnosticSeverity(1)) || (wae && d.severity == Some(DiagnosticSeverity(2)))
}

fn tally(diagnostics: &Vec<Diagnostic>, warnings_as_errors: bool, has_error0: bool) -> (has_error: bool)
    ensures has_error == (has_error0 || exists|i: int| 0 <= i < diagnostics@.len() && is_err(#[trigger] diagnostics@[i], warnings_as_errors))
{
    let mut has_error = has_error0;
    let mut error_count: usize = 0;
    let mut warning_count: usize = 0;
            for diagnostic in diagnostics {
                match diagnostic.severity {
                    Some(DiagnosticSeverity::ERROR) => {
                        has_error = true;
                        error_count += 1;
                    }
                    Some(DiagnosticSeverity::WARNING) => {
                        if warnings_as_errors {
                            has_error = true;
                        }
                        warning_count += 1;
                    }
                    _ => {}
                }
            }
    has_error
}
}
fn main() {}
