use vstd::prelude::*;
use vstd::string::*;
verus! {

// ---- shim: text-size ----
#[derive(Clone, Copy, PartialEq, Eq)]
pub struct TextSize { pub raw: u32 }
impl TextSize {
    pub fn from(raw: u32) -> (r: TextSize) ensures r.raw == raw { TextSize { raw } }
}
pub fn u32_from(t: TextSize) -> (r: u32) ensures r == t.raw { t.raw }

pub struct LineIndex {
    pub line_offsets: Vec<u32>,
    pub line_only_ascii_vec: Vec<bool>,
}

pub open spec fn starts_ok(offs: Seq<u32>, bytes: Seq<u8>, upto: int) -> bool {
    &&& offs.len() >= 1
    &&& offs[0] == 0
    &&& forall|i: int, j: int| 0 <= i < j < offs.len() ==> offs[i] < offs[j]
    &&& forall|i: int| 1 <= i < offs.len() ==> 1 <= offs[i] <= upto && bytes[offs[i] as int - 1] == 10u8
    &&& forall|p: int| 0 <= p < upto && bytes[p] == 10u8 ==> exists|i: int| 1 <= i < offs.len() && offs[i] == p + 1
}

impl LineIndex {
    pub fn parse(text: &str) -> (r: LineIndex)
        requires text.spec_bytes().len() < 0xffff_ffff,
        ensures starts_ok(r.line_offsets@, text.spec_bytes(), text.spec_bytes().len() as int),
                r.line_only_ascii_vec@.len() == r.line_offsets@.len(),
    {
        let mut line_offsets = Vec::new();
        let mut line_only_ascii_vec = Vec::new();
        line_offsets.push(0);

        let mut is_line_only_ascii = true;
        let __s = text.as_bytes();
        for index in 0..__s.len()
            invariant
                __s@ == text.spec_bytes(),
                __s@.len() < 0xffff_ffff,
                starts_ok(line_offsets@, __s@, index as int),
                line_only_ascii_vec@.len() + 1 == line_offsets@.len(),
        {
            let byte = __s[index];
            if byte == b'\n' {
                let ghost old_offs = line_offsets@;
                proof {
                    assert(forall|i: int| 0 <= i < line_offsets@.len() ==> line_offsets@[i] <= index);
                }
                line_offsets.push((index + 1) as u32);
                line_only_ascii_vec.push(is_line_only_ascii);
                is_line_only_ascii = true;
                proof {
                    let offs = line_offsets@;
                    let n = offs.len() - 1;
                    assert(offs[n] == index + 1);
                    assert(forall|i: int| 0 <= i < n ==> offs[i] <= index);
                    assert forall|p: int| 0 <= p < index + 1 && __s@[p] == 10u8 implies exists|i: int| 1 <= i < offs.len() && offs[i] == p + 1 by {
                        if p == index { assert(offs[n] == p + 1); }
                        else {
                            let i0 = choose|i: int| 1 <= i < n && old_offs[i] == p + 1;
                            assert(offs[i0] == p + 1);
                        }
                    }
                }
            } else if byte >= 0x80 {
                is_line_only_ascii = false;
            }
        }

        line_only_ascii_vec.push(is_line_only_ascii);

        assert(line_offsets.len() == line_only_ascii_vec.len());
        LineIndex {
            line_offsets,
            line_only_ascii_vec,
        }
    }
}
}
fn main() {}
