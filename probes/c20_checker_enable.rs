use vstd::prelude::*;
use std::collections::HashSet;
use std::sync::Arc;
verus! {

// ---- shims (prelude) ----
#[derive(Clone, Copy, PartialEq, Eq, Hash)]
pub enum DiagnosticCode { A, B, C }
impl DiagnosticCode { }

#[derive(Clone, Copy, PartialEq, Eq, Hash)]
pub struct FileId { pub id: u32 }

#[verifier::external_body]
pub struct DiagnosticIndex { _p: () }
#[verifier::external_body]
pub struct LuaModuleIndex { _p: () }
#[verifier::external_body]
pub struct DbIndex { _p: () }

pub uninterp spec fn sp_file_enabled(d: &DiagnosticIndex, f: FileId, c: DiagnosticCode) -> bool;
pub uninterp spec fn sp_file_disabled(d: &DiagnosticIndex, f: FileId, c: DiagnosticCode) -> bool;
pub uninterp spec fn sp_is_meta(m: &LuaModuleIndex, f: FileId) -> bool;
pub uninterp spec fn sp_default_enable(c: DiagnosticCode, level: u8) -> bool;
pub uninterp spec fn sp_diag_index(db: &DbIndex) -> &DiagnosticIndex;
pub uninterp spec fn sp_module_index(db: &DbIndex) -> &LuaModuleIndex;

impl DiagnosticIndex {
    #[verifier::external_body]
    pub fn is_file_enabled(&self, file_id: &FileId, code: &DiagnosticCode) -> (r: bool)
        ensures r == sp_file_enabled(self, *file_id, *code) { unimplemented!() }
    #[verifier::external_body]
    pub fn is_file_disabled(&self, file_id: &FileId, code: &DiagnosticCode) -> (r: bool)
        ensures r == sp_file_disabled(self, *file_id, *code) { unimplemented!() }
}
impl LuaModuleIndex {
    #[verifier::external_body]
    pub fn is_meta_file(&self, file_id: &FileId) -> (r: bool)
        ensures r == sp_is_meta(self, *file_id) { unimplemented!() }
}
impl DbIndex {
    #[verifier::external_body]
    pub fn get_diagnostic_index(&self) -> (r: &DiagnosticIndex) ensures r == sp_diag_index(self) { unimplemented!() }
    #[verifier::external_body]
    pub fn get_module_index(&self) -> (r: &LuaModuleIndex) ensures r == sp_module_index(self) { unimplemented!() }
}
#[verifier::external_body]
pub fn is_code_default_enable(code: &DiagnosticCode, level: u8) -> (r: bool) ensures r == sp_default_enable(*code, level) { unimplemented!() }

pub struct LuaDiagnosticConfig {
    pub workspace_enabled: HashSet<DiagnosticCode>,
    pub workspace_disabled: HashSet<DiagnosticCode>,
    pub level: u8,
}

pub struct DiagnosticContext<'a> {
    pub file_id: FileId,
    pub db: &'a DbIndex,
    pub config: Arc<LuaDiagnosticConfig>,
}

impl<'a> DiagnosticContext<'a> {
    pub fn get_db(&self) -> (r: &DbIndex) ensures r == self.db {
        self.db
    }

    pub fn get_file_id(&self) -> (r: FileId) ensures r == self.file_id {
        self.file_id
    }

    // ---- extracted verbatim ----
    pub fn is_checker_enable_by_code(&self, code: &DiagnosticCode) -> (r: bool)
        requires vstd::std_specs::hash::obeys_key_model::<DiagnosticCode>(),
        ensures
            ({
                let di = sp_diag_index(self.db);
                let fe = sp_file_enabled(di, self.file_id, *code);
                let fd = sp_file_disabled(di, self.file_id, *code);
                let meta = sp_is_meta(sp_module_index(self.db), self.file_id);
                let wd = self.config.workspace_disabled@.contains(*code);
                let we = self.config.workspace_enabled@.contains(*code);
                &&& (wd && !fe ==> !r)
                &&& (meta && !fe ==> !r)
                &&& (fe ==> r)
                &&& (we && !wd && !meta && !fd ==> r)
                &&& (fd && !fe ==> !r)
            })
    {
        let file_id = self.get_file_id();
        let db = self.get_db();
        let diagnostic_index = db.get_diagnostic_index();
        // force enable
        if diagnostic_index.is_file_enabled(&file_id, code) {
            return true;
        }

        // workspace force disabled
        if self.config.workspace_disabled.contains(code) {
            return false;
        }

        let module_index = db.get_module_index();
        // ignore meta file diagnostic
        if module_index.is_meta_file(&file_id) {
            return false;
        }

        // is file disabled this code
        if diagnostic_index.is_file_disabled(&file_id, code) {
            return false;
        }

        // workspace force enabled
        if self.config.workspace_enabled.contains(code) {
            return true;
        }

        // default setting
        is_code_default_enable(code, self.config.level)
    }
}

} // verus!
fn main() {}
