/// a code is among the listed codes iff some name of the list parses to it
pub proof fn lemma_listed_contains(toks: Seq<LuaNameToken>, c: DiagnosticCode)
    ensures listed_codes(toks).contains(c)
        <==> exists|k: int| 0 <= k < toks.len() && sp_parse(sp_name(&#[trigger] toks[k])) == Ok::<DiagnosticCode, ()>(c),
    decreases toks.len()
{
    if toks.len() > 0 {
        let rest = toks.drop_last();
        let t = toks.last();
        lemma_listed_contains(rest, c);
        assert forall|k: int| 0 <= k < rest.len() implies rest[k] == toks[k] by {}
        if listed_codes(toks).contains(c) {
            let i = choose|i: int| 0 <= i < listed_codes(toks).len() && listed_codes(toks)[i] == c;
            if i < listed_codes(rest).len() {
                assert(listed_codes(rest)[i] == c);
                assert(listed_codes(rest).contains(c));
                let k = choose|k: int| 0 <= k < rest.len() && sp_parse(sp_name(&#[trigger] rest[k])) == Ok::<DiagnosticCode, ()>(c);
                assert(toks[k] == rest[k]);
            } else {
                assert(sp_parse(sp_name(&toks[toks.len() - 1])) == Ok::<DiagnosticCode, ()>(c));
            }
        }
        if exists|k: int| 0 <= k < toks.len() && sp_parse(sp_name(&#[trigger] toks[k])) == Ok::<DiagnosticCode, ()>(c) {
            let k = choose|k: int| 0 <= k < toks.len() && sp_parse(sp_name(&#[trigger] toks[k])) == Ok::<DiagnosticCode, ()>(c);
            if k < rest.len() {
                assert(rest[k] == toks[k]);
                assert(listed_codes(rest).contains(c));
                let i = choose|i: int| 0 <= i < listed_codes(rest).len() && listed_codes(rest)[i] == c;
                assert(listed_codes(toks)[i] == c);
            } else {
                assert(t == toks[k]);
                assert(listed_codes(toks) == listed_codes(rest).push(c));
                assert(listed_codes(toks)[listed_codes(rest).len() as int] == c);
            }
        }
    }
}

/// one more name: the listed codes of the first k+1 names from those of the first k
pub proof fn lemma_listed_step(all: Seq<LuaNameToken>, k: int)
    requires 0 <= k < all.len(),
    ensures listed_codes(all.take(k + 1)) == (match sp_parse(sp_name(&all[k])) {
            Ok(c) => listed_codes(all.take(k)).push(c),
            Err(_) => listed_codes(all.take(k)),
        }),
{
    assert(all.take(k + 1).drop_last() =~= all.take(k));
    assert(all.take(k + 1).last() == all[k]);
}

/// the per-clause contract implies the sentence of C19 per code
pub proof fn lemma_suppresses_exactly(d: &LuaDocTagDiagnostic, a: Seq<(FileId, DiagnosticAction)>)
    requires disable_all_only_without_list(d, a), exactly_the_listed_codes(d, a),
    ensures suppresses_exactly(d, a),
{
    let lc = listed_codes(tag_tokens(d));
    assert forall|c: DiagnosticCode| (exists|i: int| 0 <= i < a.len() && kind_suppresses((#[trigger] a[i]).1.kind, c))
        <==> (sp_code_list(d) is None || names_code(d, c)) by {
        lemma_listed_contains(tag_tokens(d), c);
        if exists|i: int| 0 <= i < a.len() && kind_suppresses((#[trigger] a[i]).1.kind, c) {
            let i = choose|i: int| 0 <= i < a.len() && kind_suppresses((#[trigger] a[i]).1.kind, c);
            if sp_code_list(d) is Some {
                assert(a[i].1.kind == DiagnosticActionKind::Disable(lc[i]));
                assert(lc[i] == c);
                assert(lc.contains(c));
                assert(names_code(d, c));
            }
        }
        if sp_code_list(d) is None {
            let i = choose|i: int| 0 <= i < a.len() && (#[trigger] a[i]).1.kind is DisableAll;
            assert(kind_suppresses(a[i].1.kind, c));
        } else if names_code(d, c) {
            assert(lc.contains(c));
            let i = choose|i: int| 0 <= i < lc.len() && lc[i] == c;
            assert(a[i].1.kind == DiagnosticActionKind::Disable(lc[i]));
            assert(kind_suppresses(a[i].1.kind, c));
        }
    }
}

/// file-level entries: exactly the listed codes, per code
pub proof fn lemma_entries_name_exactly(d: &LuaDocTagDiagnostic, e: Seq<(FileId, DiagnosticCode)>, file: FileId)
    requires entries_exactly(d, e, file), sp_code_list(d) is Some,
    ensures entries_name_exactly(d, e, file),
{
    let lc = listed_codes(tag_tokens(d));
    assert forall|c: DiagnosticCode| (exists|i: int| 0 <= i < e.len() && (#[trigger] e[i]).1 == c) <==> names_code(d, c) by {
        lemma_listed_contains(tag_tokens(d), c);
        if exists|i: int| 0 <= i < e.len() && (#[trigger] e[i]).1 == c {
            let i = choose|i: int| 0 <= i < e.len() && (#[trigger] e[i]).1 == c;
            assert(lc[i] == c);
            assert(lc.contains(c));
        }
        if names_code(d, c) {
            assert(lc.contains(c));
            let i = choose|i: int| 0 <= i < lc.len() && lc[i] == c;
            assert(e[i].1 == c);
        }
    }
}

/// appending the action of one more listed code
pub proof fn lemma_disable_actions_push(o: Seq<(FileId, DiagnosticAction)>, codes: Seq<DiagnosticCode>, c: DiagnosticCode, file: FileId, range: TextRange)
    ensures (o + disable_actions(codes, file, range)).push((file, DiagnosticAction { range: range, kind: DiagnosticActionKind::Disable(c) }))
        == o + disable_actions(codes.push(c), file, range),
{
    assert((o + disable_actions(codes, file, range)).push((file, DiagnosticAction { range: range, kind: DiagnosticActionKind::Disable(c) }))
        =~= o + disable_actions(codes.push(c), file, range));
}

/// appending the file-level entry of one more listed code
pub proof fn lemma_file_entries_push(o: Seq<(FileId, DiagnosticCode)>, codes: Seq<DiagnosticCode>, c: DiagnosticCode, file: FileId)
    ensures (o + file_entries(codes, file)).push((file, c)) == o + file_entries(codes.push(c), file),
{
    assert((o + file_entries(codes, file)).push((file, c)) =~= o + file_entries(codes.push(c), file));
}
