import re

from vc import rustlex as L
from vc.extract import Undecided
from vc.rules import rule

CFG = 'crates/emmylua_code_analysis/src/diagnostic/lua_diagnostic_config.rs'
RC = 'crates/emmylua_code_analysis/src/config/configs/diagnostics.rs'
TAGS = 'crates/emmylua_code_analysis/src/compilation/analyzer/doc/diagnostic_tags.rs'
ACT = 'crates/emmylua_code_analysis/src/db_index/diagnostic/diagnostic_action.rs'


# ---------------------------------------------------------------------------------------------
# rewrite rule: `continue` in a for-loop (Verus: "for-loops do not yet support continue")
# ---------------------------------------------------------------------------------------------
@rule('let-else-continue')
def let_else_continue(text, **_):
    """`for .. { PRE; let X = if let PAT = E B1 else { continue; }; REST }`  ->
    `for .. { PRE; if let Some(X) = (if let PAT = E { Some(B1) } else { None }) { REST } }`
    where the `let` is a direct statement of the (unlabelled) for-loop body and REST is everything up to the end of that
    body. Rust reference, `continue`: "the current iteration of the innermost enclosing loop is ended and control
    returns to the loop head" — i.e. REST is skipped exactly when PAT does not match. The bindings of PAT scope over B1
    only and X over REST only, in both forms; E's temporaries die at the end of the same statement."""
    n = 0
    while True:
        toks = L.code_tokens(text)
        T = lambda i: L.tok_text(text, toks[i]) if 0 <= i < len(toks) else ''
        hit = None
        for i in range(len(toks) - 6):
            if not (T(i) == 'let' and toks[i + 1][0] == 'ident' and T(i + 2) == '=' and T(i + 3) == 'if' and T(i + 4) == 'let'):
                continue
            # PAT: up to the `=` at bracket depth 0
            j = i + 5
            while j < len(toks) and T(j) != '=':
                j = L.match_close(text, toks, j) + 1 if T(j) in ('(', '[', '{') else j + 1
            if j >= len(toks) or T(j + 1) == '=':
                continue
            # E: up to the `{` opening B1
            k = j + 1
            while k < len(toks) and T(k) != '{':
                k = L.match_close(text, toks, k) + 1 if T(k) in ('(', '[') else k + 1
            if k >= len(toks):
                continue
            b1c = L.match_close(text, toks, k)
            if [T(b1c + d) for d in range(1, 7)] != ['else', '{', 'continue', ';', '}', ';']:
                continue
            semi = b1c + 6
            # end of the enclosing block
            q = semi + 1
            while q < len(toks) and T(q) not in (')', ']', '}'):
                q = L.match_close(text, toks, q) + 1 if T(q) in ('(', '[', '{') else q + 1
            if T(q) != '}':
                raise Undecided('let-else-continue: enclosing block not found')
            # its opening brace, and the header in front of it
            depth, p = 0, q
            while p >= 0:
                if T(p) in (')', ']', '}'): depth += 1
                elif T(p) in ('(', '[', '{'):
                    depth -= 1
                    if depth == 0: break
                p -= 1
            h = p - 1
            while h >= 0 and T(h) not in (';', '{', '}'):
                if T(h) in (')', ']'):
                    d2 = 0
                    while h >= 0:
                        if T(h) in (')', ']'): d2 += 1
                        elif T(h) in ('(', '['):
                            d2 -= 1
                            if d2 == 0: break
                        h -= 1
                h -= 1
            if T(h + 1) != 'for' or (h >= 0 and T(h) == ':'):
                raise Undecided('let-else-continue: the `let .. else { continue; }` is not a direct statement of an unlabelled for-loop body')
            # `continue` must not occur elsewhere in REST at this level (it would now sit inside an `if` — still the same loop: fine)
            x = T(i + 1)
            pat = text[toks[i + 5][1]:toks[j - 1][2]]
            expr = text[toks[j + 1][1]:toks[k - 1][2]]
            b1 = text[toks[k][1]:toks[b1c][2]]
            rest = text[toks[semi][2]:toks[q][1]]
            new = 'if let Some(%s) = (if let %s = %s { Some(%s) } else { None }) {%s}\n' % (x, pat, expr, b1, rest)
            hit = (toks[i][1], toks[q][1], new)
            break
        if not hit:
            break
        text = text[:hit[0]] + hit[2] + text[hit[1]:]
        n += 1
    return text, n


# ---------------------------------------------------------------------------------------------
# contracts
# ---------------------------------------------------------------------------------------------
OA, NA = 'old(diagnostic_index).actions@', 'final(diagnostic_index).actions@'
OD, ND = 'old(diagnostic_index).file_disabled@', 'final(diagnostic_index).file_disabled@'
OE, NE = 'old(diagnostic_index).file_enabled@', 'final(diagnostic_index).file_enabled@'
A = 'added(%s, %s)' % (OA, NA)
D = 'added(%s, %s)' % (OD, ND)
E = 'added(%s, %s)' % (OE, NE)

IF_LIST = r'if let Some\(diagnostic_code_list\) = diagnostic\.get_code_list\(\) \{'
END_ALL = r'DiagnosticActionKind::DisableAll\),\s*\);\s*\}'

# ghost state at the top of every slice
BODY_FIRST = '''let ghost all = tag_tokens(&diagnostic);'''

# one more name of the list
def step(pushes):
    return '''proof {
                    lemma_listed_step(all, it.index@);
                    assert(code == all[it.index@]);
                    if let Ok(c) = sp_parse(sp_name(&all[it.index@])) {
                        %s
                    }
                }''' % pushes


AFTER_LOOP = (r'\}\s*(?=\} else \{)', 'after', '''proof { assert(all.take(all.len() as int) =~= all); }''')


def scoped_final(rng):
    """the end of a scoped slice: from the exact log to the labelled clauses"""
    return (r'\n\}$', 'before', '''
    proof {
        let o = old(diagnostic_index).actions@;
        let n = diagnostic_index.actions@;
        let a = added(o, n);
        // (guards, not asserts: what the code recorded is established by the loop invariant / the writer contracts; a
        //  deviation is reported under the labelled postcondition, not here)
        match sp_code_list(&diagnostic) {
            None => {
                let x = (file_id, DiagnosticAction { range: %(r)s, kind: DiagnosticActionKind::DisableAll });
                if n == o.push(x) {
                    assert(n.take(o.len() as int) =~= o);
                    assert(a =~= seq![x]);
                    assert(a[0].1.kind is DisableAll);
                }
            }
            Some(l) => {
                let xs = disable_actions(listed_codes(all), file_id, %(r)s);
                if n == o + xs {
                    assert(n.take(o.len() as int) =~= o);
                    assert(a =~= xs);
                }
            }
        }
        if disable_all_only_without_list(&diagnostic, a) && exactly_the_listed_codes(&diagnostic, a) {
            lemma_suppresses_exactly(&diagnostic, a);
        }
    }''' % {'r': rng})


def scoped_slice(host, name, rng):
    return {
        'src': {'kind': 'slice', 'name': name, 'in': {'file': TAGS, 'kind': 'fn', 'name': host},
                'from': IF_LIST, 'to': END_ALL,
                'head': 'pub fn %s(diagnostic_index: &mut DiagnosticIndex, diagnostic: LuaDocTagDiagnostic, file_id: FileId, '
                        'comment_range: TextRange, valid_range: TextRange)' % name,
                'tail': ''},
        'rules': ['let-else-continue'],
        'ensures': '''
            extends(%(OA)s, %(NA)s) /*@C19.tags.frame*/,
            %(ND)s == %(OD)s && %(NE)s == %(OE)s /*@C19.tags.scoped-comment-touches-no-file-level-set*/,
            disable_all_only_without_list(&diagnostic, %(A)s) /*@C19.tags.disable-all-only-without-code-list*/,
            exactly_the_listed_codes(&diagnostic, %(A)s) /*@C19.tags.exactly-the-listed-codes*/,
            carry_the_scope(%(A)s, file_id, %(r)s) /*@C19.tags.actions-carry-the-scope*/,
            suppresses_exactly(&diagnostic, %(A)s) /*@C19.tags.suppresses-exactly-the-listed-codes*/''' % dict(OA=OA, NA=NA, OD=OD, ND=ND, OE=OE, NE=NE, A=A, r=rng),
        'body_first': BODY_FIRST,
        'iter_names': {0: 'it'},
        'loops': {0: '''invariant
                    it.seq() == all,
                    diagnostic_index.file_disabled@ == %(OD)s && diagnostic_index.file_enabled@ == %(OE)s /*@C19.tags.scoped-comment-touches-no-file-level-set.inv*/,
                    forall|i: int| %(OA)s.len() <= i < diagnostic_index.actions@.len() ==> (#[trigger] diagnostic_index.actions@[i]).0 == file_id
                        && diagnostic_index.actions@[i].1.range == %(r)s /*@C19.tags.actions-carry-the-scope.inv*/,
                    diagnostic_index.actions@ == %(OA)s + disable_actions(listed_codes(all.take(it.index@)), file_id, %(r)s) /*@C19.tags.exactly-the-listed-codes-with-the-scope.inv*/,''' % dict(OA=OA, OD=OD, OE=OE, r=rng)},
        'proof': [
            (r'let name = code\.get_name_text\(\);', 'after',
             step('lemma_disable_actions_push(old(diagnostic_index).actions@, listed_codes(all.take(it.index@)), c, file_id, %s);' % rng)),
            AFTER_LOOP,
            scoped_final(rng),
        ],
    }


DISABLE = {
    'src': {'kind': 'slice', 'name': 'disable_codes', 'in': {'file': TAGS, 'kind': 'fn', 'name': 'analyze_diagnostic_disable'},
            'from': IF_LIST, 'to': END_ALL,
            'head': 'pub fn disable_codes(diagnostic_index: &mut DiagnosticIndex, diagnostic: LuaDocTagDiagnostic, file_id: FileId, '
                    'owner_block_range: TextRange, is_file_disable: bool)',
            'tail': ''},
    'rules': ['let-else-continue'],
    'ensures': '''
            extends(%(OA)s, %(NA)s) && extends(%(OD)s, %(ND)s) /*@C19.tags.frame*/,
            %(NE)s == %(OE)s /*@C19.tags.disable-never-enables*/,
            // at the top level of the file a code list goes to the file-level disabled set and records no block action ...
            is_file_disable && sp_code_list(&diagnostic) is Some ==> %(A)s.len() == 0
                && %(D)s == file_entries(listed_codes(tag_tokens(&diagnostic)), file_id) /*@C19.tags.file-level-set-iff-top-level-block*/,
            is_file_disable && sp_code_list(&diagnostic) is Some ==> entries_name_exactly(&diagnostic, %(D)s, file_id) /*@C19.tags.file-level-exactly-the-listed-codes*/,
            // ... and nowhere else (inside a block; or without a code list, where `DisableAll` covers the block = the file)
            !(is_file_disable && sp_code_list(&diagnostic) is Some) ==> %(D)s.len() == 0 /*@C19.tags.file-level-set-iff-top-level-block*/,
            disable_all_only_without_list(&diagnostic, %(A)s) /*@C19.tags.disable-all-only-without-code-list*/,
            !is_file_disable ==> exactly_the_listed_codes(&diagnostic, %(A)s) /*@C19.tags.exactly-the-listed-codes*/,
            carry_the_scope(%(A)s, file_id, owner_block_range) /*@C19.tags.actions-carry-the-scope*/,
            !is_file_disable ==> suppresses_exactly(&diagnostic, %(A)s) /*@C19.tags.suppresses-exactly-the-listed-codes*/''' % dict(
        OA=OA, NA=NA, OD=OD, ND=ND, OE=OE, NE=NE, A=A, D=D),
    'body_first': BODY_FIRST,
    'iter_names': {0: 'it'},
    'loops': {0: '''invariant
                    it.seq() == all,
                    diagnostic_index.file_enabled@ == %(OE)s,
                    forall|i: int| %(OA)s.len() <= i < diagnostic_index.actions@.len() ==> (#[trigger] diagnostic_index.actions@[i]).0 == file_id
                        && diagnostic_index.actions@[i].1.range == owner_block_range /*@C19.tags.actions-carry-the-scope.inv*/,
                    is_file_disable ==> diagnostic_index.actions@ == %(OA)s
                        && diagnostic_index.file_disabled@ == %(OD)s + file_entries(listed_codes(all.take(it.index@)), file_id) /*@C19.tags.file-level-set-iff-top-level-block.inv*/,
                    !is_file_disable ==> diagnostic_index.file_disabled@ == %(OD)s
                        && diagnostic_index.actions@ == %(OA)s + disable_actions(listed_codes(all.take(it.index@)), file_id, owner_block_range) /*@C19.tags.exactly-the-listed-codes-with-the-scope.inv*/,''' % dict(OA=OA, OD=OD, OE=OE)},
    'proof': [
        (r'let name = code\.get_name_text\(\);', 'after',
         step('lemma_disable_actions_push(old(diagnostic_index).actions@, listed_codes(all.take(it.index@)), c, file_id, owner_block_range);\n'
              '                        lemma_file_entries_push(old(diagnostic_index).file_disabled@, listed_codes(all.take(it.index@)), c, file_id);')),
        AFTER_LOOP,
        (r'\n\}$', 'before', '''
    proof {
        let o = old(diagnostic_index).actions@;
        let n = diagnostic_index.actions@;
        let a = added(o, n);
        let od = old(diagnostic_index).file_disabled@;
        let nd = diagnostic_index.file_disabled@;
        let e = added(od, nd);
        match sp_code_list(&diagnostic) {
            None => {
                let x = (file_id, DiagnosticAction { range: owner_block_range, kind: DiagnosticActionKind::DisableAll });
                if n == o.push(x) && nd == od {
                    assert(n.take(o.len() as int) =~= o);
                    assert(a =~= seq![x]);
                    assert(a[0].1.kind is DisableAll);
                    assert(nd.take(od.len() as int) =~= od);
                    assert(e =~= Seq::empty());
                }
            }
            Some(l) => {
                let es = file_entries(listed_codes(all), file_id);
                let xs = disable_actions(listed_codes(all), file_id, owner_block_range);
                if is_file_disable && nd == od + es && n == o {
                    assert(nd.take(od.len() as int) =~= od);
                    assert(e =~= es);
                    assert(n.take(o.len() as int) =~= o);
                    assert(a =~= Seq::empty());
                    lemma_entries_name_exactly(&diagnostic, e, file_id);
                }
                if !is_file_disable && n == o + xs && nd == od {
                    assert(n.take(o.len() as int) =~= o);
                    assert(a =~= xs);
                    assert(nd.take(od.len() as int) =~= od);
                    assert(e =~= Seq::empty());
                }
            }
        }
        if !is_file_disable && disable_all_only_without_list(&diagnostic, a) && exactly_the_listed_codes(&diagnostic, a) {
            lemma_suppresses_exactly(&diagnostic, a);
        }
    }'''),
    ],
}

ENABLE = {
    'src': {'kind': 'slice', 'name': 'enable_codes', 'in': {'file': TAGS, 'kind': 'fn', 'name': 'analyze_diagnostic_enable'},
            'from': r'let diagnostic_code_list = diagnostic\.get_code_list\(\)\?;', 'to': r'Some\(\(\)\)',
            'head': 'pub fn enable_codes(diagnostic_index: &mut DiagnosticIndex, diagnostic: LuaDocTagDiagnostic, file_id: FileId) -> Option<()>',
            'tail': ''},
    'rules': ['let-else-continue'],
    'ret': 'r',
    'ensures': '''
            %(NA)s == %(OA)s && %(ND)s == %(OD)s /*@C19.tags.enable-only-adds-to-the-file-enabled-set*/,
            extends(%(OE)s, %(NE)s) /*@C19.tags.frame*/,
            %(E)s == file_entries(listed_codes(tag_tokens(&diagnostic)), file_id) /*@C19.tags.enable-exactly-the-listed-codes*/,
            sp_code_list(&diagnostic) is Some ==> entries_name_exactly(&diagnostic, %(E)s, file_id) /*@C19.tags.enable-exactly-the-listed-codes*/,
            sp_code_list(&diagnostic) is None ==> %(NE)s == %(OE)s /*@C19.tags.enable-without-code-list-is-a-no-op*/,
            r is Some <==> sp_code_list(&diagnostic) is Some''' % dict(OA=OA, NA=NA, OD=OD, ND=ND, OE=OE, NE=NE, E=E),
    'body_first': BODY_FIRST + '''
    proof {
        let oe = diagnostic_index.file_enabled@;
        assert(oe.take(oe.len() as int) =~= oe);
        assert(added(oe, oe) =~= Seq::empty());
        assert(file_entries(listed_codes(Seq::<LuaNameToken>::empty()), file_id) =~= Seq::empty());
    }''',
    'iter_names': {0: 'it'},
    'loops': {0: '''invariant
                    it.seq() == all,
                    diagnostic_index.actions@ == %(OA)s && diagnostic_index.file_disabled@ == %(OD)s /*@C19.tags.enable-only-adds-to-the-file-enabled-set.inv*/,
                    diagnostic_index.file_enabled@ == %(OE)s + file_entries(listed_codes(all.take(it.index@)), file_id) /*@C19.tags.enable-exactly-the-listed-codes.inv*/,''' % dict(OA=OA, OD=OD, OE=OE)},
    'proof': [
        (r'let name = code\.get_name_text\(\);', 'after',
         step('lemma_file_entries_push(old(diagnostic_index).file_enabled@, listed_codes(all.take(it.index@)), c, file_id);')),
        (r'\}\s*(?=Some\(\(\)\))', 'after', '''
    proof {
        assert(all.take(all.len() as int) =~= all);
        let oe = old(diagnostic_index).file_enabled@;
        let ne = diagnostic_index.file_enabled@;
        let es = file_entries(listed_codes(all), file_id);
        if ne == oe + es {
            assert(ne.take(oe.len() as int) =~= oe);
            assert(added(oe, ne) =~= es);
            lemma_entries_name_exactly(&diagnostic, added(oe, ne), file_id);
        }
    }'''),
    ],
}

NEW = {
    'src': {'file': CFG, 'kind': 'fn', 'impl': 'LuaDiagnosticConfig', 'name': 'new'},
    'rules': [('vec-filter-cloned-collect-set', {'optional': True}), ('vec-cloned-collect-set', {'optional': True}),
              ('globals-map-smolstr-collect', {'count': 1}),
              ('globs-filter-map-regex', {'count': 1}), ('hashmap-ref-iter', {'count': 1})],
    'ret': 'r',
    'requires': 'key_model_ok()',
    'ensures': '''
            // the two sets are built independently of each other: a code listed in both stays in both
            r.workspace_disabled@ == emmyrc.diagnostics.disable@.to_set() /*@C20.config.disable-set-is-configured-list*/,
            r.workspace_enabled@ == emmyrc.diagnostics.enables@.to_set() /*@C20.config.enable-set-is-configured-list*/,
            severity_is_configured(r.severity@, emmyrc.diagnostics.severity@) /*@C20.config.severity-map-is-configured-map*/,
            r.global_disable_set@ == emmyrc.diagnostics.globals@.map_values(|s: String| sp_smol(s@)).to_set() /*@C20.config.globals-set-is-configured-list*/,
            r.level == sp_level(emmyrc) /*@C20.config.level-is-configured-level*/''',
    'iter_names': {0: 'it'},
    'loops': {0: '''invariant
                    key_model_ok(),
                    it.seq().len() == emmyrc.diagnostics.severity@.dom().len(),
                    forall|i: int| 0 <= i < it.seq().len() ==> emmyrc.diagnostics.severity@.contains_key(*(#[trigger] it.seq()[i]).0)
                        && emmyrc.diagnostics.severity@[*it.seq()[i].0] == *it.seq()[i].1,
                    forall|k: DiagnosticCode| emmyrc.diagnostics.severity@.contains_key(k)
                        ==> exists|i: int| 0 <= i < it.seq().len() && *(#[trigger] it.seq()[i]).0 == k,
                    forall|k: DiagnosticCode| #[trigger] severity@.contains_key(k) ==> emmyrc.diagnostics.severity@.contains_key(k)
                        && severity@[k] == sev_of(emmyrc.diagnostics.severity@[k]) /*@C20.config.severity-map-is-configured-map.inv*/,
                    forall|i: int| 0 <= i < it.index@ ==> severity@.contains_key(*(#[trigger] it.seq()[i]).0) /*@C20.config.severity-map-is-configured-map.inv*/,'''},
    'body_first': 'broadcast use vstd::std_specs::hash::group_hash_axioms;',
}

UNIT = {
    'items': {
        # (A)
        'DiagnosticSeveritySetting': {'src': {'file': RC, 'kind': 'enum', 'name': 'DiagnosticSeveritySetting'},
                                      'attrs': '#[derive(Clone, Copy)]'},
        'DiagnosticSeveritySetting::into_severity': {
            'src': {'file': RC, 'kind': 'fn', 'impl': 'From for DiagnosticSeverity', 'name': 'from'}, 'pub': False},
        'EmmyrcDiagnostic': {'src': {'file': RC, 'kind': 'struct', 'name': 'EmmyrcDiagnostic'},
                             'rules': [('struct-fields', {'keep': ['disable', 'enables', 'globals', 'globals_regex', 'severity']})]},
        'LuaDiagnosticConfig': {'src': {'file': CFG, 'kind': 'struct', 'name': 'LuaDiagnosticConfig'},
                                'rules': [('struct-fields', {})]},
        'LuaDiagnosticConfig::new': NEW,
        # (B)
        'DiagnosticActionKind': {'src': {'file': ACT, 'kind': 'enum', 'name': 'DiagnosticActionKind'}},
        'DiagnosticAction': {'src': {'file': ACT, 'kind': 'struct', 'name': 'DiagnosticAction'}, 'rules': [('struct-fields', {})]},
        'DiagnosticAction::new': {'src': {'file': ACT, 'kind': 'fn', 'impl': 'DiagnosticAction', 'name': 'new'},
                                  'ret': 'r', 'ensures': 'r == (DiagnosticAction { range: range, kind: kind }) /*@C19.tags.action-new*/'},
        'analyze_diagnostic_disable::codes': DISABLE,
        'analyze_diagnostic_disable_next_line::codes': scoped_slice('analyze_diagnostic_disable_next_line', 'disable_next_line_codes', 'valid_range'),
        'analyze_diagnostic_disable_line::codes': scoped_slice('analyze_diagnostic_disable_line', 'disable_line_codes', 'valid_range'),
        'analyze_diagnostic_enable::codes': ENABLE,
    },
    'extra_rules': [
        ('vec-filter-cloned-collect-set',
         r'(emmyrc\s*\.diagnostics\s*\.\w+)\s*\.iter\(\)\s*\.filter\((\|\w+\| [^;]*?)\)\s*\.cloned\(\)\s*\.collect\(\)',
         r'vx_filter_collect_code_set(&\1, \2)',
         'V.iter().filter(F).cloned().collect() into a HashSet<DiagnosticCode> -> vx_filter_collect_code_set(&V, F): Iterator::filter '
         'yields exactly the elements for which F returns true, in order (std); then as vec-cloned-collect-set. Optional: the '
         'construct is absent from the current tree'),
        ('vec-cloned-collect-set', r'(emmyrc\s*\.diagnostics\s*\.\w+)\s*\.iter\(\)\s*\.cloned\(\)\s*\.collect\(\)', r'vx_collect_code_set(&\1)',
         'V.iter().cloned().collect() into a HashSet<DiagnosticCode> field (V: Vec<DiagnosticCode>) -> vx_collect_code_set(&V), '
         'ensures r@ == V@.to_set(): Iterator::cloned yields a clone of every element in order (DiagnosticCode: Copy), '
         'FromIterator for HashSet builds the set of the yielded values'),
        ('globals-map-smolstr-collect',
         r'emmyrc\s*\.diagnostics\s*\.(\w+)\s*\.iter\(\)\s*\.map\(\|s\| SmolStr::new\(s\.as_str\(\)\)\)\s*\.collect\(\)',
         r'vx_collect_smol_set(&emmyrc.diagnostics.\1)',
         'V.iter().map(|s| SmolStr::new(s.as_str())).collect() into HashSet<SmolStr> -> vx_collect_smol_set(&V), ensures '
         'r@ == V@.map_values(|s| sp_smol(s@)).to_set() with sp_smol the (uninterpreted) value of SmolStr::new: Iterator::map '
         'yields f(x) for every element, collect builds the set of the yielded values. The rule matches this closure text only.'),
        ('globs-filter-map-regex',
         r'emmyrc\s*\.diagnostics\s*\.globals_regex\s*\.iter\(\)\s*\.filter_map\(\|s\| match Regex::new\(s\) \{.*?\}\)\s*\.collect\(\)',
         r'vx_compile_globs(&emmyrc.diagnostics.globals_regex)',
         'the filter_map(Regex::new) pipeline over globals_regex -> vx_compile_globs(&V) with NO postcondition: the result is '
         'unconstrained, so nothing is assumed about it (and nothing about globalsRegex is claimed)', re.S),
        ('hashmap-ref-iter', r'for \((\w+), (\w+)\) in &([\w\.]+) \{', r'for (\1, \2) in \3.iter() {',
         'for (k, v) in &M { B } (M: HashMap) -> for (k, v) in M.iter() { B }: `impl IntoIterator for &HashMap` is '
         '`fn into_iter(self) -> Iter<K, V> { self.iter() }` (std); vstd specifies HashMap::iter, not the IntoIterator impl'),
    ],
    'allow': [r'external_body', r'uninterp spec fn sp_'],
    'min_obligations': 20,
    'trusted': [
        'shims: DiagnosticCode / FileId / TextRange / LuaLanguageLevel as opaque value types; lsp_types::DiagnosticSeverity transcribed (i32 newtype, ERROR=1..HINT=4); SmolStr, Regex opaque',
        'Emmyrc projected to `diagnostics` (the real EmmyrcDiagnostic, projected to disable/enables/globals/globals_regex/severity) and an uninterpreted get_language_level()',
        'helpers with std contracts: vx_collect_code_set (r@ == v@.to_set() under the key model), vx_collect_smol_set (r@ == v@.map_values(sp_smol).to_set()), vx_compile_globs (no contract); vx_filter_collect_code_set (only used if a `.filter(F)` stage appears in a pipeline: result is a subset of the list and every dropped element has F == false)',
        'obeys_key_model::<DiagnosticCode>() (derived Hash/Eq on a field-less enum) is a precondition of LuaDiagnosticConfig::new; RandomState builds valid hashers (vstd axiom)',
        'hashbrown::{HashMap,HashSet} (fields of LuaDiagnosticConfig) -> std::collections (same API subset; order never relied on)',
        'doc-comment AST opaque: get_code_list / get_codes / get_name_text return uninterpreted values; get_codes (an iterator over the name-token children) is modelled by the Vec of the items it yields',
        'DiagnosticCode::from_str (generated by the derive macro LuaDiagnosticMacro) as an uninterpreted function of the name, result Result<DiagnosticCode, ()>; the REAL macro never returns Err: an unknown name parses to Ok(DiagnosticCode::None) (see not_covered)',
        'DiagnosticIndex::{add_diagnostic_action, add_file_diagnostic_disabled, add_file_diagnostic_enabled} as ghost logs of their calls (real bodies: map.entry(file).or_default() + push/insert); the readers are proved in c19_match',
    ],
    'not_covered': [
        'globalsRegex: which patterns compile and what they match (vx_compile_globs has no contract)',
        'the scope computation in front of each slice (owner block / line ranges): inputs of the slices here (C19 scope slices live in c19_match / c22)',
        'unknown code names: the real from_str returns Ok(DiagnosticCode::None) for them, so `Disable(None)` / a file-level `None` entry IS recorded; harmless only because no checker ever reports DiagnosticCode::None (no occurrence of `DiagnosticCode::None` in the repository; scanned, not proved)',
    ],
    'samples': [
        'LuaDiagnosticConfig::new: workspace_disabled@ == disable@.to_set(), workspace_enabled@ == enables@.to_set() (independently), severity@ has exactly the configured entries mapped by From<DiagnosticSeveritySetting>, global_disable_set@ == globals mapped by SmolStr::new',
        'disable-next-line / disable-line / disable (in a block): DisableAll iff no code list; with a list exactly Disable(parse(name)) per parsed name in order, all with the scope range',
        'disable at top level with a list: file-level disabled entries only; enable: file-level enabled entries only',
    ],
    'mutants': [
        # (A)
        {'name': 'disabled-minus-enables', 'item': 'LuaDiagnosticConfig::new',
         'pattern': r'Self \{\s*workspace_disabled,',
         'repl': 'let mut workspace_disabled: HashSet<DiagnosticCode> = workspace_disabled;\n        for c in emmyrc.diagnostics.enables.iter() { workspace_disabled.remove(c); }\n        Self {\n            workspace_disabled,',
         'expect': r'C20\.config\.disable-set-is-configured-list'},
        {'name': 'disabled-minus-first-enabled', 'item': 'LuaDiagnosticConfig::new',
         'pattern': r'Self \{\s*workspace_disabled,',
         'repl': 'let mut workspace_disabled: HashSet<DiagnosticCode> = workspace_disabled;\n        if emmyrc.diagnostics.enables.len() > 0 { workspace_disabled.remove(&emmyrc.diagnostics.enables[0]); }\n        Self {\n            workspace_disabled,',
         'expect': r'C20\.config\.disable-set-is-configured-list'},
        {'name': 'disabled-filtered-by-enables', 'item': 'LuaDiagnosticConfig::new',
         'pattern': r'let workspace_disabled = emmyrc\.diagnostics\.disable\.iter\(\)\.cloned\(\)\.collect\(\);\s*let workspace_enabled = emmyrc\.diagnostics\.enables\.iter\(\)\.cloned\(\)\.collect\(\);',
         'repl': 'let workspace_enabled: HashSet<DiagnosticCode> =\n            emmyrc.diagnostics.enables.iter().cloned().collect();\n'
                 '        let workspace_disabled = emmyrc\n            .diagnostics\n            .disable\n            .iter()\n'
                 '            .filter(|code| !workspace_enabled.contains(*code))\n            .cloned()\n            .collect();',
         'expect': r'C20\.config\.disable-set-is-configured-list'},
        {'name': 'swap-disable-and-enables', 'item': 'LuaDiagnosticConfig::new',
         'pattern': r'(let workspace_disabled = emmyrc\.diagnostics\.)disable(.*?let workspace_enabled = emmyrc\.diagnostics\.)enables',
         'repl': r'\1enables\2disable', 'expect': r'C20\.config\.(disable|enable)-set-is-configured-list'},
        {'name': 'severity-loop-inserts-nothing', 'item': 'LuaDiagnosticConfig::new',
         'pattern': r'severity\.insert\(\*code, \(\*sev\)\.into\(\)\);', 'repl': '', 'expect': r'C20\.config\.severity-map-is-configured-map'},
        {'name': 'severity-always-error', 'item': 'LuaDiagnosticConfig::new',
         'pattern': r'\(\*sev\)\.into\(\)', 'repl': 'DiagnosticSeverity::ERROR', 'expect': r'C20\.config\.severity-map-is-configured-map'},
        {'name': 'globals-from-regex-list', 'item': 'LuaDiagnosticConfig::new',
         'pattern': r'(let global_disable_set = emmyrc\s*\.diagnostics\s*\.globals)(\s*\.iter\(\)\s*\.map)', 'repl': r'\1_regex\2',
         'expect': r'C20\.config\.globals-set-is-configured-list'},
        # (B)
        {'name': 'disable-all-when-no-known-code', 'item': 'analyze_diagnostic_disable_next_line::codes',
         'pattern': r'(for code in diagnostic_code_list\.get_codes\(\) \{)(.*?DiagnosticActionKind::Disable\(diagnostic_code\)\),\s*\);)(\s*\})',
         'repl': r'let mut any = false;\n        \1\2\n            any = true;\3\n        if !any { diagnostic_index.add_diagnostic_action(file_id, DiagnosticAction::new(valid_range, DiagnosticActionKind::DisableAll)); }',
         'expect': r'C19\.tags\.disable-all-only-without-code-list'},
        {'name': 'first-code-only', 'item': 'analyze_diagnostic_disable_line::codes',
         'pattern': r'(DiagnosticActionKind::Disable\(diagnostic_code\)\),\s*\);)', 'repl': r'\1\n            break;',
         'expect': r'C19\.tags\.exactly-the-listed-codes'},
        {'name': 'comment-range-as-scope', 'item': 'analyze_diagnostic_disable_next_line::codes',
         'pattern': r'DiagnosticAction::new\(valid_range, DiagnosticActionKind::Disable\(diagnostic_code\)\)',
         'repl': 'DiagnosticAction::new(comment_range, DiagnosticActionKind::Disable(diagnostic_code))',
         'expect': r'C19\.tags\.actions-carry-the-scope'},
        {'name': 'disable-all-with-comment-range', 'item': 'analyze_diagnostic_disable_line::codes',
         'pattern': r'DiagnosticAction::new\(valid_range, DiagnosticActionKind::DisableAll\)',
         'repl': 'DiagnosticAction::new(comment_range, DiagnosticActionKind::DisableAll)',
         'expect': r'C19\.tags\.actions-carry-the-scope'},
        {'name': 'block-action-when-file-disable', 'item': 'analyze_diagnostic_disable::codes',
         'pattern': r'if is_file_disable \{', 'repl': 'if !is_file_disable {',
         'expect': r'C19\.tags\.file-level-set-iff-top-level-block'},
        {'name': 'enable-records-disable', 'item': 'analyze_diagnostic_enable::codes',
         'pattern': r'add_file_diagnostic_enabled', 'repl': 'add_file_diagnostic_disabled',
         'expect': r'C19\.tags\.enable-'},
    ],
}
