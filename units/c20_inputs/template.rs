// unit c20_inputs — the INPUTS of the two proved decision procedures of C20 / C19:
//   (A) C20: `LuaDiagnosticConfig::new(emmyrc)` builds the sets that `is_checker_enable_by_code` / `get_severity`
//       (unit c20_config) read, faithfully from the configuration.
//   (B) C19: the code-list handling of the four `---@diagnostic` suppression comments records exactly the actions that
//       `DiagnosticAction::is_match` / `is_file_disabled` / `is_file_enabled` (unit c19_match) later read.
// Hand-written part: shims of external types (weakest contracts: uninterpreted spec functions), the helper
// functions the rewrite rules introduce (std contracts), the property vocabulary and its lemmas.
// Everything marked `//@@` is extracted from /repo on every run.
use vstd::prelude::*;
use std::collections::{HashMap, HashSet};
verus! {

// ---------------------------------------------------------------------------------------------
// shims shared by (A) and (B)
// ---------------------------------------------------------------------------------------------
/// field-less enum with derived Clone/Copy/PartialEq/Eq/Hash in the repository: an opaque value type here
#[derive(Clone, Copy, PartialEq, Eq, Hash)]
pub struct DiagnosticCode { pub id: u32 }

#[derive(Clone, Copy, PartialEq, Eq, Hash)]
pub struct FileId { pub id: u32 }

#[derive(Clone, Copy, PartialEq, Eq)]
pub struct LuaLanguageLevel { pub v: u8 }

/// rowan::TextRange: a Copy value; nothing is computed on it here (the scope ranges are inputs of the slices)
#[derive(Clone, Copy, PartialEq, Eq)]
pub struct TextRange { pub start: u32, pub end: u32 }

/// lsp_types::DiagnosticSeverity: a transparent i32 newtype with associated consts ERROR=1 … HINT=4
#[derive(Clone, Copy, PartialEq, Eq)]
pub struct DiagnosticSeverity(pub i32);
impl DiagnosticSeverity {
    pub const ERROR: DiagnosticSeverity = DiagnosticSeverity(1);
    pub const WARNING: DiagnosticSeverity = DiagnosticSeverity(2);
    pub const INFORMATION: DiagnosticSeverity = DiagnosticSeverity(3);
    pub const HINT: DiagnosticSeverity = DiagnosticSeverity(4);
}

pub open spec fn key_model_ok() -> bool {
    vstd::std_specs::hash::obeys_key_model::<DiagnosticCode>()
}

// ---------------------------------------------------------------------------------------------
// (A) shims
// ---------------------------------------------------------------------------------------------
/// smol_str::SmolStr: opaque; `sp_smol(s)` is the value `SmolStr::new(s)` (a function of the content only)
#[verifier::external_body]
#[derive(PartialEq, Eq, Hash)]
pub struct SmolStr { _p: () }
pub uninterp spec fn sp_smol(s: Seq<char>) -> SmolStr;

/// regex::Regex: opaque (the compilation of `globalsRegex` is NOT under contract)
#[verifier::external_body]
pub struct Regex { _p: () }

/// `Emmyrc` projected to what `LuaDiagnosticConfig::new` reads: `diagnostics` (the REAL `EmmyrcDiagnostic`,
/// extracted below and projected to the five fields read) and `get_language_level()` (uninterpreted)
pub struct Emmyrc { pub diagnostics: EmmyrcDiagnostic }
pub uninterp spec fn sp_level(e: &Emmyrc) -> LuaLanguageLevel;
impl Emmyrc {
    #[verifier::external_body]
    pub fn get_language_level(&self) -> (r: LuaLanguageLevel) ensures r == sp_level(self) { unimplemented!() }
}

/// helper of rule `vec-cloned-collect-set`. std: `Iterator::cloned` yields a clone of every element (DiagnosticCode is
/// Copy: the clone is the value), `collect::<HashSet<_>>()` = `FromIterator for HashSet`: "creates a HashSet from an
/// iterator" — the set of the yielded values (for a key type whose Eq/Hash obey the key model).
#[verifier::external_body]
pub fn vx_collect_code_set(v: &Vec<DiagnosticCode>) -> (r: HashSet<DiagnosticCode>)
    ensures key_model_ok() ==> r@ == v@.to_set(),
{ v.iter().cloned().collect() }

/// helper of rule `vec-filter-cloned-collect-set` (the construct is NOT in the current tree; the rule is optional and
/// exists so that a filter stage inserted into one of the two pipelines is judged against the contract instead of
/// leaving the unit undecided). std: `Iterator::filter(f)` yields exactly the elements for which `f` returns true, in
/// order; then as `vx_collect_code_set`. (`f` is treated as a pure predicate: its `call_ensures` relates argument and
/// result — the same reading as the `Vec::retain` contract of unit c36_exit.)
#[verifier::external_body]
pub fn vx_filter_collect_code_set<F: FnMut(&&DiagnosticCode) -> bool>(v: &Vec<DiagnosticCode>, f: F) -> (r: HashSet<DiagnosticCode>)
    requires forall|i: int| #![trigger v@[i]] 0 <= i < v@.len() ==> call_requires(f, (&&v@[i],)),
    ensures
        key_model_ok() ==> forall|c: DiagnosticCode| #[trigger] r@.contains(c) ==> v@.contains(c),
        key_model_ok() ==> forall|i: int| 0 <= i < v@.len() && !r@.contains(#[trigger] v@[i]) ==> call_ensures(f, (&&v@[i],), false),
{ v.iter().filter(f).cloned().collect() }

/// helper of rule `globals-map-smolstr-collect`: `v.iter().map(|s| SmolStr::new(s.as_str())).collect::<HashSet<SmolStr>>()`
/// — `map` yields `f(x)` for every element, `collect` the set of the yielded values.
#[verifier::external_body]
pub fn vx_collect_smol_set(v: &Vec<String>) -> (r: HashSet<SmolStr>)
    ensures r@ == v@.map_values(|s: String| sp_smol(s@)).to_set(),
{ unimplemented!() }

/// helper of rule `globs-filter-map-regex`: the compiled `globalsRegex` patterns. NO contract: which patterns compile
/// and what they match is not claimed.
#[verifier::external_body]
pub fn vx_compile_globs(v: &Vec<String>) -> (r: Vec<Regex>)
{ unimplemented!() }

// ---------------------------------------------------------------------------------------------
// (A) property vocabulary
// ---------------------------------------------------------------------------------------------
/// "`severity` overrides the reported severity": the configured setting names an LSP severity
pub open spec fn sev_of(s: DiagnosticSeveritySetting) -> DiagnosticSeverity {
    match s {
        DiagnosticSeveritySetting::Error => DiagnosticSeverity(1),
        DiagnosticSeveritySetting::Warning => DiagnosticSeverity(2),
        DiagnosticSeveritySetting::Information => DiagnosticSeverity(3),
        DiagnosticSeveritySetting::Hint => DiagnosticSeverity(4),
    }
}

/// the severity map has exactly the configured entries
pub open spec fn severity_is_configured(out: Map<DiagnosticCode, DiagnosticSeverity>, cfg: Map<DiagnosticCode, DiagnosticSeveritySetting>) -> bool {
    &&& forall|c: DiagnosticCode| #[trigger] out.contains_key(c) <==> cfg.contains_key(c)
    &&& forall|c: DiagnosticCode| cfg.contains_key(c) ==> #[trigger] out[c] == sev_of(cfg[c])
}

// ---------------------------------------------------------------------------------------------
// (B) shims: the doc-comment AST is opaque
// ---------------------------------------------------------------------------------------------
#[verifier::external_body]
pub struct LuaDocTagDiagnostic { _p: () }
#[verifier::external_body]
pub struct LuaDocDiagnosticCodeList { _p: () }
#[verifier::external_body]
pub struct LuaNameToken { _p: () }

/// the `DiagnosticCodeList` child of the tag, if the comment has one
pub uninterp spec fn sp_code_list(d: &LuaDocTagDiagnostic) -> Option<LuaDocDiagnosticCodeList>;
/// the name tokens of the list, in source order
pub uninterp spec fn sp_codes(l: &LuaDocDiagnosticCodeList) -> Seq<LuaNameToken>;
pub uninterp spec fn sp_name(t: &LuaNameToken) -> Seq<char>;
/// `<DiagnosticCode as FromStr>::from_str` (generated by the derive macro `LuaDiagnosticMacro`): a function of the name
pub uninterp spec fn sp_parse(name: Seq<char>) -> Result<DiagnosticCode, ()>;

impl LuaDocTagDiagnostic {
    #[verifier::external_body]
    pub fn get_code_list(&self) -> (r: Option<LuaDocDiagnosticCodeList>) ensures r == sp_code_list(self) { unimplemented!() }
}
impl LuaDocDiagnosticCodeList {
    /// real signature: `-> LuaAstTokenChildren<LuaNameToken>`, an iterator over the name-token children that the
    /// `for` loop consumes once, front to back. Modelled by the Vec of the items it yields.
    #[verifier::external_body]
    pub fn get_codes(&self) -> (r: Vec<LuaNameToken>) ensures r@ == sp_codes(self) { unimplemented!() }
}
impl LuaNameToken {
    #[verifier::external_body]
    pub fn get_name_text(&self) -> (r: &str) ensures r@ == sp_name(self) { unimplemented!() }
}
impl DiagnosticCode {
    /// `FromStr::from_str` as an inherent function (same call syntax `DiagnosticCode::from_str(name)`)
    #[verifier::external_body]
    pub fn from_str(s: &str) -> (r: Result<DiagnosticCode, ()>) ensures r == sp_parse(s@) { unimplemented!() }
}

/// `DiagnosticIndex` as a ghost log of the three writers the slices call (real bodies: `map.entry(file).or_default()`
/// followed by `push` / `insert`; the readers over these maps are proved in unit c19_match)
pub struct DiagnosticIndex {
    pub actions: Ghost<Seq<(FileId, DiagnosticAction)>>,
    pub file_disabled: Ghost<Seq<(FileId, DiagnosticCode)>>,
    pub file_enabled: Ghost<Seq<(FileId, DiagnosticCode)>>,
}
impl DiagnosticIndex {
    #[verifier::external_body]
    pub fn add_diagnostic_action(&mut self, file_id: FileId, diagnostic: DiagnosticAction)
        ensures final(self).actions@ == old(self).actions@.push((file_id, diagnostic)),
            final(self).file_disabled@ == old(self).file_disabled@, final(self).file_enabled@ == old(self).file_enabled@,
    { }
    #[verifier::external_body]
    pub fn add_file_diagnostic_disabled(&mut self, file_id: FileId, code: DiagnosticCode)
        ensures final(self).file_disabled@ == old(self).file_disabled@.push((file_id, code)),
            final(self).actions@ == old(self).actions@, final(self).file_enabled@ == old(self).file_enabled@,
    { }
    #[verifier::external_body]
    pub fn add_file_diagnostic_enabled(&mut self, file_id: FileId, code: DiagnosticCode)
        ensures final(self).file_enabled@ == old(self).file_enabled@.push((file_id, code)),
            final(self).actions@ == old(self).actions@, final(self).file_disabled@ == old(self).file_disabled@,
    { }
}

// ---------------------------------------------------------------------------------------------
// (B) property vocabulary
// ---------------------------------------------------------------------------------------------
/// the codes a code list names: the successfully parsed names, in order (a name that does not parse names no code)
pub open spec fn listed_codes(toks: Seq<LuaNameToken>) -> Seq<DiagnosticCode>
    decreases toks.len()
{
    if toks.len() == 0 { Seq::empty() }
    else {
        match sp_parse(sp_name(&toks.last())) {
            Ok(c) => listed_codes(toks.drop_last()).push(c),
            Err(_) => listed_codes(toks.drop_last()),
        }
    }
}

/// the code list of the comment names `c`
pub open spec fn names_code(d: &LuaDocTagDiagnostic, c: DiagnosticCode) -> bool {
    sp_code_list(d) matches Some(l) && exists|k: int| 0 <= k < sp_codes(&l).len() && sp_parse(sp_name(&#[trigger] sp_codes(&l)[k])) == Ok::<DiagnosticCode, ()>(c)
}

/// all names of the comment's code list (empty without a list)
pub open spec fn tag_tokens(d: &LuaDocTagDiagnostic) -> Seq<LuaNameToken> {
    match sp_code_list(d) { Some(l) => sp_codes(&l), None => Seq::empty() }
}

pub open spec fn disable_actions(codes: Seq<DiagnosticCode>, file: FileId, range: TextRange) -> Seq<(FileId, DiagnosticAction)> {
    codes.map_values(|c: DiagnosticCode| (file, DiagnosticAction { range: range, kind: DiagnosticActionKind::Disable(c) }))
}
pub open spec fn file_entries(codes: Seq<DiagnosticCode>, file: FileId) -> Seq<(FileId, DiagnosticCode)> {
    codes.map_values(|c: DiagnosticCode| (file, c))
}

/// what an action suppresses (the `kind` half of `DiagnosticAction::is_match(true, ..)`, proved in c19_match)
pub open spec fn kind_suppresses(k: DiagnosticActionKind, code: DiagnosticCode) -> bool {
    match k {
        DiagnosticActionKind::Disable(c) => c == code,
        DiagnosticActionKind::Enable(_) => false,
        DiagnosticActionKind::DisableAll => true,
    }
}

/// `new` extends `old` (nothing recorded before is lost or changed)
pub open spec fn extends<T>(old_s: Seq<T>, new_s: Seq<T>) -> bool {
    old_s.len() <= new_s.len() && new_s.take(old_s.len() as int) == old_s
}
pub open spec fn added<T>(old_s: Seq<T>, new_s: Seq<T>) -> Seq<T> {
    new_s.skip(old_s.len() as int)
}

/// "without a code list every code is suppressed": a `DisableAll` action is recorded iff the comment has NO code
/// list at all (then exactly one). In particular a list whose names all fail to parse records nothing.
pub open spec fn disable_all_only_without_list(d: &LuaDocTagDiagnostic, a: Seq<(FileId, DiagnosticAction)>) -> bool {
    &&& ((exists|i: int| 0 <= i < a.len() && (#[trigger] a[i]).1.kind is DisableAll) <==> sp_code_list(d) is None)
    &&& (sp_code_list(d) is None ==> a.len() == 1)
}
/// "a code list suppresses exactly its codes": with a list, the recorded actions are `Disable(c)` for the parsed names
/// of the list, one per name, in order — nothing else
pub open spec fn exactly_the_listed_codes(d: &LuaDocTagDiagnostic, a: Seq<(FileId, DiagnosticAction)>) -> bool {
    sp_code_list(d) is Some ==> a.len() == listed_codes(tag_tokens(d)).len()
        && forall|i: int| 0 <= i < a.len() ==> (#[trigger] a[i]).1.kind == DiagnosticActionKind::Disable(listed_codes(tag_tokens(d))[i])
}
/// every recorded action is filed under the comment's file and carries the scope range computed before
pub open spec fn carry_the_scope(a: Seq<(FileId, DiagnosticAction)>, file: FileId, range: TextRange) -> bool {
    forall|i: int| 0 <= i < a.len() ==> (#[trigger] a[i]).0 == file && a[i].1.range == range
}
/// the sentence of C19 itself, per code: `c` is suppressed by what the comment recorded iff the comment has no code list
/// or its list names `c` ("other codes are unaffected")
pub open spec fn suppresses_exactly(d: &LuaDocTagDiagnostic, a: Seq<(FileId, DiagnosticAction)>) -> bool {
    forall|c: DiagnosticCode| (exists|i: int| 0 <= i < a.len() && kind_suppresses((#[trigger] a[i]).1.kind, c))
        <==> (sp_code_list(d) is None || names_code(d, c))
}
/// file-level variants (`disable` at top level, `enable`): the entries are exactly (file, c) for the listed codes
pub open spec fn entries_exactly(d: &LuaDocTagDiagnostic, e: Seq<(FileId, DiagnosticCode)>, file: FileId) -> bool {
    e == file_entries(listed_codes(tag_tokens(d)), file)
}
pub open spec fn entries_name_exactly(d: &LuaDocTagDiagnostic, e: Seq<(FileId, DiagnosticCode)>, file: FileId) -> bool {
    &&& forall|i: int| 0 <= i < e.len() ==> (#[trigger] e[i]).0 == file
    &&& forall|c: DiagnosticCode| (exists|i: int| 0 <= i < e.len() && (#[trigger] e[i]).1 == c) <==> names_code(d, c)
}

//@@include c20_inputs/lemmas.rs

// ---------------------------------------------------------------------------------------------
// extracted from /repo
// ---------------------------------------------------------------------------------------------
// (A)
//@@ DiagnosticSeveritySetting

impl vstd::std_specs::convert::FromSpecImpl<DiagnosticSeveritySetting> for DiagnosticSeverity {
    open spec fn obeys_from_spec() -> bool { true }
    open spec fn from_spec(v: DiagnosticSeveritySetting) -> DiagnosticSeverity { sev_of(v) }
}
impl From<DiagnosticSeveritySetting> for DiagnosticSeverity {
    //@@ DiagnosticSeveritySetting::into_severity
}

//@@ EmmyrcDiagnostic

//@@ LuaDiagnosticConfig

impl LuaDiagnosticConfig {
    //@@ LuaDiagnosticConfig::new
}

// (B)
//@@ DiagnosticActionKind
//@@ DiagnosticAction

impl DiagnosticAction {
    //@@ DiagnosticAction::new
}

//@@ analyze_diagnostic_disable::codes
//@@ analyze_diagnostic_disable_next_line::codes
//@@ analyze_diagnostic_disable_line::codes
//@@ analyze_diagnostic_enable::codes

} // verus!
fn main() {}
