// unit c35_export — C35: "The JSON documentation export lists every class, enum, alias, global and module declared in the
// main workspace exactly once, and nothing from libraries or the standard library. Exporting the same workspace twice
// gives byte-identical output."
//
// Hand-written part: shims of external types (weakest contracts: uninterpreted spec functions), the helpers the rewrite
// rules introduce (std contracts), the property vocabulary and its lemmas. Everything marked `//@@` is extracted from the
// repository on every run (unit.py says from where and through which rules).
use vstd::prelude::*;
use std::collections::HashMap;
use std::cmp::Ordering;
use std::sync::Arc;
use vstd::std_specs::cmp::OrdSpec;
verus! {

// =====================================================================================================================
// 1. shims of external types
// =====================================================================================================================
//@@ FileId

/// text_size::TextSize: a u32 newtype with the derived order of its field (text-size 1.1.1: `#[derive(PartialOrd, Ord)]
/// pub struct TextSize { pub(crate) raw: u32 }`)
#[derive(Clone, Copy, PartialEq, Eq, Hash)]
pub struct TextSize { pub raw: u32 }
impl vstd::std_specs::cmp::PartialOrdSpecImpl for TextSize {
    open spec fn obeys_partial_cmp_spec() -> bool { true }
    open spec fn partial_cmp_spec(&self, other: &TextSize) -> Option<Ordering> { Some(int_cmp(self.raw as int, other.raw as int)) }
}
impl PartialOrd for TextSize {
    fn partial_cmp(&self, other: &TextSize) -> Option<Ordering> { Some(self.raw.cmp(&other.raw)) }
}
impl vstd::std_specs::cmp::OrdSpecImpl for TextSize {
    open spec fn obeys_cmp_spec() -> bool { true }
    open spec fn cmp_spec(&self, other: &TextSize) -> Ordering { int_cmp(self.raw as int, other.raw as int) }
}
impl Ord for TextSize {
    fn cmp(&self, other: &TextSize) -> Ordering { self.raw.cmp(&other.raw) }
}

/// `LuaTypeDeclId { id: ArcIntern<LuaTypeIdentifier> }`, LuaTypeIdentifier = Global(name) | Internal(workspace, name) |
/// File(file, name): an opaque value with derived Eq/Hash. `Ord` exists only in the REPAIRED tree (proposed
/// `#[derive(PartialOrd, Ord)]` on both types); its result is vstd's uninterpreted `cmp_spec`, whose laws are the
/// precondition `type_id_order_laws()` (see `trusted`).
#[verifier::external_body]
#[derive(PartialEq, Eq, Hash, PartialOrd, Ord)]
pub struct LuaTypeDeclId { _p: () }
impl Clone for LuaTypeDeclId {
    #[verifier::external_body]
    fn clone(&self) -> (r: Self) ensures r == *self { unimplemented!() }
}
/// the name inside the identifier (`LuaTypeDeclId::get_name`): a function of the id
pub uninterp spec fn sp_id_name(id: LuaTypeDeclId) -> Seq<char>;
impl LuaTypeDeclId {
    #[verifier::external_body]
    pub fn get_name(&self) -> (r: &str) ensures r@ == sp_id_name(*self) { unimplemented!() }
}

/// `GlobalId(ArcIntern<SmolStr>)`: opaque key of `LuaGlobalIndex::global_decl`
#[verifier::external_body]
#[derive(PartialEq, Eq, Hash)]
pub struct GlobalId { _p: () }

macro_rules! opaque {
    ($($name:ident),*) => { verus! { $( #[verifier::external_body] pub struct $name { _p: () } )* } }
}
opaque!(LuaDeclIndex, LuaDecl, Vfs, Emmyrc, PathBuf, Property, Loc, Member, Class, Enum, Alias, TextRange,
        LuaInstanceType, LuaTypeOwner, LuaTypeCache, LuaSemanticDeclIdOther, LuaTypeOther);

/// `InFiled<T> { file_id, value }` (only cloned here)
#[verifier::external_body]
#[verifier::reject_recursive_types(T)]
pub struct InFiled<T> { _p: core::marker::PhantomData<T> }
impl<T> Clone for InFiled<T> {
    #[verifier::external_body]
    fn clone(&self) -> (r: Self) ensures r == *self { unimplemented!() }
}
impl LuaInstanceType {
    #[verifier::external_body]
    pub fn get_range(&self) -> (r: &InFiled<TextRange>) { unimplemented!() }
}

/// `LuaType`: the two variants the module / global closures name + everything else (the closures end in a catch-all arm)
pub enum LuaType {
    TableConst(InFiled<TextRange>),
    Instance(Arc<LuaInstanceType>),
    Other(LuaTypeOther),
}
pub enum LuaMemberOwner { Element(InFiled<TextRange>), Other }
pub enum RenderLevel { Documentation, Simple, Other }
pub enum LuaSemanticDeclId { TypeDecl(LuaTypeDeclId), LuaDecl(LuaDeclId), Other(LuaSemanticDeclIdOther) }

impl vstd::std_specs::convert::FromSpecImpl<LuaDeclId> for LuaTypeOwner {
    open spec fn obeys_from_spec() -> bool { true }
    open spec fn from_spec(v: LuaDeclId) -> LuaTypeOwner { sp_owner_of_decl(v) }
}
pub uninterp spec fn sp_owner_of_decl(id: LuaDeclId) -> LuaTypeOwner;
impl From<LuaDeclId> for LuaTypeOwner {
    #[verifier::external_body]
    fn from(v: LuaDeclId) -> (r: LuaTypeOwner) { unimplemented!() }
}

// ---- accessors of the opaque parts of the db (results are uninterpreted functions of the arguments) ----
pub uninterp spec fn sp_get_decl(idx: &LuaDeclIndex, id: LuaDeclId) -> Option<LuaDecl>;
pub uninterp spec fn sp_type_cache(idx: &LuaTypeIndex, owner: LuaTypeOwner) -> Option<LuaTypeCache>;
pub uninterp spec fn sp_decl_name(d: &LuaDecl) -> Seq<char>;
impl LuaDeclIndex {
    #[verifier::external_body]
    pub fn get_decl(&self, decl_id: &LuaDeclId) -> (r: Option<&LuaDecl>)
        ensures (r matches Some(d) ==> sp_get_decl(self, *decl_id) == Some(*d)), (r is None ==> sp_get_decl(self, *decl_id) is None),
    { unimplemented!() }
}
impl LuaDecl {
    #[verifier::external_body]
    pub fn get_file_id(&self) -> (r: FileId) { unimplemented!() }
    #[verifier::external_body]
    pub fn get_range(&self) -> (r: TextRange) { unimplemented!() }
    #[verifier::external_body]
    pub fn get_name(&self) -> (r: &str) ensures r@ == sp_decl_name(self) { unimplemented!() }
}
impl LuaTypeCache {
    #[verifier::external_body]
    pub fn as_type(&self) -> (r: &LuaType) { unimplemented!() }
}
impl LuaTypeIndex {
    #[verifier::external_body]
    pub fn get_type_cache(&self, owner: &LuaTypeOwner) -> (r: Option<&LuaTypeCache>)
        ensures (r matches Some(c) ==> sp_type_cache(self, *owner) == Some(*c)), (r is None ==> sp_type_cache(self, *owner) is None),
    { unimplemented!() }
    #[verifier::external_body]
    pub fn get_file_namespace(&self, file_id: &FileId) -> (r: Option<&String>) { unimplemented!() }
    #[verifier::external_body]
    pub fn get_file_using_namespace(&self, file_id: &FileId) -> (r: Option<&Vec<String>>) { unimplemented!() }
}
impl Vfs {
    #[verifier::external_body]
    pub fn get_file_path(&self, id: &FileId) -> (r: Option<&PathBuf>) { unimplemented!() }
}
impl Clone for PathBuf {
    #[verifier::external_body]
    fn clone(&self) -> (r: Self) { unimplemented!() }
}
impl Clone for Emmyrc {
    #[verifier::external_body]
    fn clone(&self) -> (r: Self) { unimplemented!() }
}
impl Default for Property {
    #[verifier::external_body]
    fn default() -> (r: Self) { unimplemented!() }
}

// ---- the per-item renderers of export.rs / common.rs: deterministic functions of their arguments BY ASSUMPTION ----
pub uninterp spec fn sp_export_class(db: &DbIndex, d: &LuaTypeDecl) -> Class;
pub uninterp spec fn sp_export_enum(db: &DbIndex, d: &LuaTypeDecl) -> Enum;
pub uninterp spec fn sp_export_alias(db: &DbIndex, d: &LuaTypeDecl) -> Alias;
#[verifier::external_body]
pub fn export_class(db: &DbIndex, type_decl: &LuaTypeDecl) -> (r: Class) ensures r == sp_export_class(db, type_decl) { unimplemented!() }
#[verifier::external_body]
pub fn export_enum(db: &DbIndex, type_decl: &LuaTypeDecl) -> (r: Enum) ensures r == sp_export_enum(db, type_decl) { unimplemented!() }
#[verifier::external_body]
pub fn export_alias(db: &DbIndex, type_decl: &LuaTypeDecl) -> (r: Alias) ensures r == sp_export_alias(db, type_decl) { unimplemented!() }
#[verifier::external_body]
pub fn export_members(db: &DbIndex, member_owner: LuaMemberOwner) -> (r: Vec<Member>) { unimplemented!() }
#[verifier::external_body]
pub fn export_property(db: &DbIndex, semantic_decl: &LuaSemanticDeclId) -> (r: Property) { unimplemented!() }
#[verifier::external_body]
pub fn export_loc(vfs: &Vfs, file_id: FileId, range: TextRange) -> (r: Option<Loc>) { unimplemented!() }
#[verifier::external_body]
pub fn render_typ(db: &DbIndex, typ: &LuaType, level: RenderLevel) -> (r: String) { unimplemented!() }
#[verifier::external_body]
pub fn render_const(typ: &LuaType) -> (r: Option<String>) { unimplemented!() }

// =====================================================================================================================
// 2. std contracts used by the rewrite rules / by the extracted text
// =====================================================================================================================
/// derived `Hash`/`Eq` of the three key types obey vstd's key model (precondition of everything that reads the maps)
pub open spec fn keys_ok() -> bool {
    &&& vstd::std_specs::hash::obeys_key_model::<FileId>()
    &&& vstd::std_specs::hash::obeys_key_model::<LuaTypeDeclId>()
    &&& vstd::std_specs::hash::obeys_key_model::<GlobalId>()
}

/// `ks` lists the keys of `m` exactly once, and `s` holds the corresponding values in the same order
pub open spec fn is_values_enum<K, V>(m: Map<K, V>, s: Seq<&V>, ks: Seq<K>) -> bool {
    &&& ks.no_duplicates()
    &&& forall|k: K| #[trigger] ks.contains(k) <==> m.contains_key(k)
    &&& s.len() == ks.len()
    &&& forall|i: int| 0 <= i < s.len() ==> *(#[trigger] s[i]) == m[ks[i]]
}

/// helper of rules `map-values-collect` / `for-map-values`. std (`HashMap::values`): "An iterator visiting all values in
/// arbitrary order": one `&V` per entry — every key's value exactly once — and NO statement about the order.
#[verifier::external_body]
pub fn vx_values_collect<'a, K, V>(m: &'a HashMap<K, V>) -> (r: Vec<&'a V>)
    ensures vstd::std_specs::hash::obeys_key_model::<K>() ==> exists|ks: Seq<K>| is_values_enum(m@, r@, ks),
{ m.values().collect() }

/// helper of rule `vec-extend-ref`. std (`impl<'a, T: Copy + 'a> Extend<&'a T> for Vec<T>`): "copies elements out of
/// references before pushing them onto the Vec"
#[verifier::external_body]
pub fn vx_extend_copied<T: Copy>(v: &mut Vec<T>, w: &Vec<T>)
    ensures final(v)@ == old(v)@ + w@,
{ v.extend(w) }

/// std (`Ordering::then`): "Chains two orderings. Returns self when it's not Equal. Otherwise returns other."
pub assume_specification [Ordering::then] (a: Ordering, b: Ordering) -> (r: Ordering)
    ensures r == ord_then(a, b);

pub open spec fn ord_then(a: Ordering, b: Ordering) -> Ordering { if a == Ordering::Equal { b } else { a } }
pub open spec fn ord_rev(o: Ordering) -> Ordering {
    match o { Ordering::Less => Ordering::Greater, Ordering::Equal => Ordering::Equal, Ordering::Greater => Ordering::Less }
}
pub open spec fn int_cmp(a: int, b: int) -> Ordering {
    if a < b { Ordering::Less } else if a > b { Ordering::Greater } else { Ordering::Equal }
}

/// std (`impl Ord for str`): "Strings are ordered lexicographically by their byte values. This orders Unicode code points
/// based on their positions in the code charts" (UTF-8 preserves code-point order): lexicographic by code point.
pub open spec fn str_cmp(a: Seq<char>, b: Seq<char>) -> Ordering
    decreases a.len(),
{
    if a.len() == 0 { if b.len() == 0 { Ordering::Equal } else { Ordering::Less } }
    else if b.len() == 0 { Ordering::Greater }
    else if (a[0] as u32) < (b[0] as u32) { Ordering::Less }
    else if (a[0] as u32) > (b[0] as u32) { Ordering::Greater }
    else { str_cmp(a.skip(1), b.skip(1)) }
}
/// helper of rule `str-cmp`: `X.cmp(Y)` on `&str` / `String` (`impl Ord for String` compares the contents as `str`)
#[verifier::external_body]
pub fn vx_str_cmp(a: &str, b: &str) -> (o: Ordering)
    ensures o == str_cmp(a@, b@),
{ a.cmp(b) }

/// "the comparator implements a total order" (std doc of slice::sort_by: "May panic if the implementation of `compare`
/// does not implement a total order"), phrased over the possible results of `f` — as in unit c26_semantic_tokens
pub open spec fn cmp_total<T, F: FnMut(&T, &T) -> Ordering>(f: F) -> bool {
    &&& forall|a: &T, b: &T| #[trigger] call_requires(f, (a, b))
    &&& forall|a: &T, b: &T, o1: Ordering, o2: Ordering|
            #[trigger] call_ensures(f, (a, b), o1) && #[trigger] call_ensures(f, (a, b), o2) ==> o1 == o2
    &&& forall|a: &T, b: &T, o1: Ordering, o2: Ordering|
            #[trigger] call_ensures(f, (a, b), o1) && #[trigger] call_ensures(f, (b, a), o2) ==> o2 == ord_rev(o1)
    &&& forall|a: &T, b: &T, c: &T, o1: Ordering, o2: Ordering, o3: Ordering|
            #[trigger] call_ensures(f, (a, b), o1) && #[trigger] call_ensures(f, (b, c), o2) && #[trigger] call_ensures(f, (a, c), o3) && o1 == o2
                ==> o3 == o1
}
pub open spec fn cmp_says_le<T, F: FnMut(&T, &T) -> Ordering>(f: F, a: T, b: T) -> bool {
    exists|o: Ordering| #[trigger] call_ensures(f, (&a, &b), o) && o != Ordering::Greater
}
/// `p` is a permutation of 0..n, `q` its inverse (a bijection and its inverse)
pub open spec fn is_perm(p: Seq<int>, q: Seq<int>, n: int) -> bool {
    &&& p.len() == n && q.len() == n
    &&& forall|i: int| 0 <= i < n ==> 0 <= #[trigger] p[i] < n && q[p[i]] == i
    &&& forall|j: int| 0 <= j < n ==> 0 <= #[trigger] q[j] < n && p[q[j]] == j
}
/// `new` is `old` rearranged by the permutation `p` (with inverse `q`)
pub open spec fn is_rearrangement<T>(old_s: Seq<T>, new_s: Seq<T>, p: Seq<int>, q: Seq<int>) -> bool {
    &&& is_perm(p, q, old_s.len() as int)
    &&& new_s.len() == old_s.len()
    &&& forall|i: int| 0 <= i < new_s.len() ==> #[trigger] new_s[i] == old_s[p[i]]
}
/// std doc of `<[T]>::sort_by`: "Sorts the slice in ascending order with a comparison function, preserving initial order
/// of equal elements": the result is a rearrangement (permutation) of the input, ascending w.r.t. the comparator.
pub assume_specification<T, F: FnMut(&T, &T) -> Ordering>[ <[T]>::sort_by ](v: &mut [T], f: F)
    requires cmp_total::<T, F>(f),
    ensures
        exists|p: Seq<int>, q: Seq<int>| is_rearrangement(old(v)@, final(v)@, p, q),
        forall|i: int, j: int| #![trigger final(v)@[i], final(v)@[j]] 0 <= i < j < final(v)@.len() ==> cmp_says_le(f, final(v)@[i], final(v)@[j]);

// =====================================================================================================================
// 3. data extracted from the repository
// =====================================================================================================================
//@@ WorkspaceId
/// `#[derive(PartialEq, Eq)]` of the one-field struct (Rust reference: the derived `eq` compares all fields)
impl vstd::std_specs::cmp::PartialEqSpecImpl for WorkspaceId {
    open spec fn obeys_eq_spec() -> bool { true }
    open spec fn eq_spec(&self, other: &WorkspaceId) -> bool { self.id == other.id }
}
impl PartialEq for WorkspaceId {
    fn eq(&self, other: &WorkspaceId) -> bool { self.id == other.id }
}
impl Eq for WorkspaceId {}
impl WorkspaceId {
    //@@ WorkspaceId::MAIN
    ; // (the extractor ends a `const X: T = T { .. };` item at the closing brace: the `;` is supplied here)
}
//@@ ModuleInfo
//@@ LuaModuleIndex
//@@ LuaTypeIndex
//@@ LuaGlobalIndex
//@@ LuaDeclId
//@@ LuaDeclLocation
//@@ LuaTypeExtra
//@@ LuaTypeDecl
//@@ DbIndex
//@@ Index
//@@ Module
//@@ Type
//@@ Global
//@@ GlobalTable
//@@ GlobalField

// =====================================================================================================================
// 4. property vocabulary (from the statement of C35, not from the code)
// =====================================================================================================================
pub open spec fn type_map(db: &DbIndex) -> Map<LuaTypeDeclId, LuaTypeDecl> { db.types_index.full_name_type_map@ }
pub open spec fn module_map(db: &DbIndex) -> Map<FileId, ModuleInfo> { db.modules_index.file_module_map@ }
pub open spec fn global_map(db: &DbIndex) -> Map<GlobalId, Vec<LuaDeclId>> { db.global_index.global_decl@ }

/// "in the main workspace" (as opposed to "libraries or the standard library"): the file is a known module file whose
/// workspace is MAIN (WorkspaceId: STD = 0, MAIN = 1, REMOTE = 2, libraries >= 3)
pub open spec fn in_main(mi: &LuaModuleIndex, f: FileId) -> bool {
    mi.file_module_map@.contains_key(f) && mi.file_module_map@[f].workspace_id == WorkspaceId::MAIN
}

/// every recorded global declaration slot: `d` is the j-th declaration recorded under some name g
pub open spec fn recorded(m: Map<GlobalId, Vec<LuaDeclId>>, d: LuaDeclId) -> bool {
    exists|g: GlobalId, j: int| m.contains_key(g) && 0 <= j < m[g]@.len() && #[trigger] m[g]@[j] == d
}
/// index invariant: a declaration id is recorded in at most one slot of the global index
pub open spec fn wf_globals(m: Map<GlobalId, Vec<LuaDeclId>>) -> bool {
    forall|g1: GlobalId, j1: int, g2: GlobalId, j2: int|
        m.contains_key(g1) && 0 <= j1 < m[g1]@.len() && m.contains_key(g2) && 0 <= j2 < m[g2]@.len()
        && #[trigger] m[g1]@[j1] == #[trigger] m[g2]@[j2] ==> g1 == g2 && j1 == j2
}
/// INDEX INVARIANTS ASSUMED (preconditions; see `trusted`): every type declaration is stored under its own id, every
/// module under its own file id, and no declaration id is recorded twice in the global index.
pub open spec fn index_wf(db: &DbIndex) -> bool {
    &&& forall|k: LuaTypeDeclId| type_map(db).contains_key(k) ==> (#[trigger] type_map(db)[k]).id == k
    &&& forall|f: FileId| module_map(db).contains_key(f) ==> (#[trigger] module_map(db)[f]).file_id == f
    &&& wf_globals(global_map(db))
}

// ---- strictly sorted duplicate-free enumerations of a selection are unique: "a function of the index contents" ----
pub open spec fn is_sorted_enum<K>(ks: Seq<K>, sel: spec_fn(K) -> bool, lt: spec_fn(K, K) -> bool) -> bool {
    &&& forall|k: K| #[trigger] ks.contains(k) <==> sel(k)
    &&& forall|i: int, j: int| 0 <= i < j < ks.len() ==> lt(#[trigger] ks[i], #[trigger] ks[j])
}
/// THE enumeration of the selected keys in ascending order: defined from the selection and the order alone, i.e. from the
/// CONTENTS of the index (views of the hash maps are mathematical maps: no iteration order in them)
pub open spec fn canonical<K>(sel: spec_fn(K) -> bool, lt: spec_fn(K, K) -> bool) -> Seq<K> {
    choose|ks: Seq<K>| is_sorted_enum(ks, sel, lt)
}
pub open spec fn asymmetric<K>(lt: spec_fn(K, K) -> bool) -> bool {
    forall|a: K, b: K| !(#[trigger] lt(a, b) && lt(b, a))
}

// ---- types ----
pub open spec fn has_main_location(db: &DbIndex, d: &LuaTypeDecl) -> bool {
    exists|i: int| 0 <= i < d.locations@.len() && in_main(&db.modules_index, (#[trigger] d.locations@[i]).file_id)
}
/// "every class, enum, alias declared in the main workspace": a declaration of the type index (each one IS a class, an enum
/// or an alias: `LuaTypeExtra` has exactly these three variants) with at least one location in a main-workspace file
pub open spec fn type_selected(db: &DbIndex, k: LuaTypeDeclId) -> bool {
    type_map(db).contains_key(k) && has_main_location(db, &type_map(db)[k])
}
/// the entry of a declaration: its class / enum / alias rendering
pub open spec fn type_entry(db: &DbIndex, d: &LuaTypeDecl) -> Type {
    match d.extra {
        LuaTypeExtra::Class => Type::Class(sp_export_class(db, d)),
        LuaTypeExtra::Enum { .. } => Type::Enum(sp_export_enum(db, d)),
        LuaTypeExtra::Alias { .. } => Type::Alias(sp_export_alias(db, d)),
    }
}
/// r[i] is the entry of the declaration stored under ks[i]
pub open spec fn types_listing(db: &DbIndex, ks: Seq<LuaTypeDeclId>, r: Seq<Type>) -> bool {
    r.len() == ks.len() && forall|i: int| 0 <= i < r.len() ==> #[trigger] r[i] == type_entry(db, &type_map(db)[ks[i]])
}
/// the order of the repaired export: full name, then the (derived) order of the id
pub open spec fn type_id_cmp(a: LuaTypeDeclId, b: LuaTypeDeclId) -> Ordering {
    ord_then(str_cmp(sp_id_name(a), sp_id_name(b)), a.cmp_spec(&b))
}
pub open spec fn type_sel(db: &DbIndex) -> spec_fn(LuaTypeDeclId) -> bool { |k: LuaTypeDeclId| type_selected(db, k) }
pub open spec fn type_lt() -> spec_fn(LuaTypeDeclId, LuaTypeDeclId) -> bool { |a: LuaTypeDeclId, b: LuaTypeDeclId| type_id_cmp(a, b) == Ordering::Less }
/// the selected declaration ids in ascending (full name, id) order: a function of the index CONTENTS
pub open spec fn canonical_type_keys(db: &DbIndex) -> Seq<LuaTypeDeclId> { canonical(type_sel(db), type_lt()) }
/// (a) every selected declaration has exactly one entry: a duplicate-free list of ids that contains every selected id
pub open spec fn types_exactly_once(db: &DbIndex, r: Seq<Type>) -> bool {
    exists|ks: Seq<LuaTypeDeclId>| types_listing(db, ks, r) && ks.no_duplicates() && forall|k: LuaTypeDeclId| type_selected(db, k) ==> #[trigger] ks.contains(k)
}
/// (a) every entry is the entry of a selected declaration (one with a location in the main workspace)
pub open spec fn types_only_main(db: &DbIndex, r: Seq<Type>) -> bool {
    exists|ks: Seq<LuaTypeDeclId>| types_listing(db, ks, r) && forall|i: int| 0 <= i < ks.len() ==> type_selected(db, #[trigger] ks[i])
}
pub open spec fn types_sorted(ts: Seq<&LuaTypeDecl>) -> bool {
    forall|i: int, j: int| 0 <= i < j < ts.len() ==> type_id_cmp((#[trigger] ts[i]).id, (#[trigger] ts[j]).id) != Ordering::Greater
}
/// ASSUMED (precondition; see `trusted`): the derived `Ord` of LuaTypeDeclId is a total order consistent with its derived `Eq`
pub open spec fn type_id_order_laws() -> bool {
    &&& LuaTypeDeclId::obeys_cmp_spec()
    &&& forall|a: LuaTypeDeclId, b: LuaTypeDeclId| (#[trigger] a.cmp_spec(&b) == Ordering::Equal) <==> a == b
    &&& forall|a: LuaTypeDeclId, b: LuaTypeDeclId| b.cmp_spec(&a) == ord_rev(#[trigger] a.cmp_spec(&b))
    &&& forall|a: LuaTypeDeclId, b: LuaTypeDeclId, c: LuaTypeDeclId|
            #[trigger] a.cmp_spec(&b) == Ordering::Less && #[trigger] b.cmp_spec(&c) == Ordering::Less ==> a.cmp_spec(&c) == Ordering::Less
}

// ---- modules ----
/// READING switch (set by unit.py, MODULE_READING): must a module file export a value to count as a "module declared in
/// the main workspace"? false = literal reading (every module file of the main workspace), true = only exporting modules.
pub open spec fn module_must_export() -> bool { /*@@MODULE_READING@@*/ }
/// "every module declared in the main workspace": a module file of the main workspace
pub open spec fn module_selected(db: &DbIndex, f: FileId) -> bool {
    in_main(&db.modules_index, f) && (module_must_export() ==> module_map(db)[f].export_type is Some)
}
/// `m` is an entry for module `info`: it carries the module's full name
pub open spec fn module_entry_for(m: Module, info: &ModuleInfo) -> bool { m.name@ == info.full_module_name@ }
pub open spec fn modules_listing(db: &DbIndex, ks: Seq<FileId>, r: Seq<Module>) -> bool {
    r.len() == ks.len() && forall|i: int| 0 <= i < r.len() ==> module_entry_for(#[trigger] r[i], &module_map(db)[ks[i]])
}
pub open spec fn module_cmp(a: &ModuleInfo, b: &ModuleInfo) -> Ordering {
    ord_then(str_cmp(a.full_module_name@, b.full_module_name@), int_cmp(a.file_id.id as int, b.file_id.id as int))
}
pub open spec fn module_sel(db: &DbIndex) -> spec_fn(FileId) -> bool { |f: FileId| module_selected(db, f) }
pub open spec fn module_lt(db: &DbIndex) -> spec_fn(FileId, FileId) -> bool {
    |a: FileId, b: FileId| module_cmp(&module_map(db)[a], &module_map(db)[b]) == Ordering::Less
}
/// the selected module files in ascending (full module name, file id) order: a function of the index CONTENTS
pub open spec fn canonical_module_keys(db: &DbIndex) -> Seq<FileId> { canonical(module_sel(db), module_lt(db)) }
pub open spec fn modules_exactly_once(db: &DbIndex, r: Seq<Module>) -> bool {
    exists|ks: Seq<FileId>| modules_listing(db, ks, r) && ks.no_duplicates() && forall|f: FileId| module_selected(db, f) ==> #[trigger] ks.contains(f)
}
pub open spec fn modules_only_main(db: &DbIndex, r: Seq<Module>) -> bool {
    exists|ks: Seq<FileId>| modules_listing(db, ks, r) && forall|i: int| 0 <= i < ks.len() ==> module_selected(db, #[trigger] ks[i])
}
pub open spec fn modules_sorted(ts: Seq<&ModuleInfo>) -> bool {
    forall|i: int, j: int| 0 <= i < j < ts.len() ==> module_cmp(#[trigger] ts[i], #[trigger] ts[j]) != Ordering::Greater
}

// ---- globals ----
pub open spec fn has_decl(db: &DbIndex, d: LuaDeclId) -> bool { sp_get_decl(&db.decl_index, d) is Some }
pub open spec fn has_type(db: &DbIndex, d: LuaDeclId) -> bool { sp_type_cache(&db.types_index, sp_owner_of_decl(d)) is Some }
/// the globals the export lists: recorded global declarations located in a main-workspace file (that have a declaration
/// record and a cached type: see `not_covered`)
pub open spec fn global_selected(db: &DbIndex, d: LuaDeclId) -> bool {
    recorded(global_map(db), d) && in_main(&db.modules_index, d.file_id) && has_decl(db, d) && has_type(db, d)
}
/// `g` is an entry for declaration `d`: it carries the declared name
pub open spec fn global_entry_for(db: &DbIndex, g: Global, d: LuaDeclId) -> bool {
    let name = sp_decl_name(&sp_get_decl(&db.decl_index, d).unwrap());
    match g { Global::Table(t) => t.name@ == name, Global::Field(f) => f.name@ == name }
}
pub open spec fn globals_listing(db: &DbIndex, ks: Seq<LuaDeclId>, r: Seq<Global>) -> bool {
    r.len() == ks.len() && forall|i: int| 0 <= i < r.len() ==> global_entry_for(db, #[trigger] r[i], ks[i])
}
pub open spec fn decl_cmp(a: LuaDeclId, b: LuaDeclId) -> Ordering {
    ord_then(int_cmp(a.file_id.id as int, b.file_id.id as int), int_cmp(a.position.raw as int, b.position.raw as int))
}
pub open spec fn global_sel(db: &DbIndex) -> spec_fn(LuaDeclId) -> bool { |d: LuaDeclId| global_selected(db, d) }
pub open spec fn global_lt() -> spec_fn(LuaDeclId, LuaDeclId) -> bool { |a: LuaDeclId, b: LuaDeclId| decl_cmp(a, b) == Ordering::Less }
/// the selected declarations in ascending (file id, position) order: a function of the index CONTENTS
pub open spec fn canonical_global_keys(db: &DbIndex) -> Seq<LuaDeclId> { canonical(global_sel(db), global_lt()) }
pub open spec fn globals_exactly_once(db: &DbIndex, r: Seq<Global>) -> bool {
    exists|ks: Seq<LuaDeclId>| globals_listing(db, ks, r) && ks.no_duplicates() && forall|d: LuaDeclId| global_selected(db, d) ==> #[trigger] ks.contains(d)
}
pub open spec fn globals_only_main(db: &DbIndex, r: Seq<Global>) -> bool {
    exists|ks: Seq<LuaDeclId>| globals_listing(db, ks, r) && forall|i: int| 0 <= i < ks.len() ==> global_selected(db, #[trigger] ks[i])
}
pub open spec fn globals_sorted(ts: Seq<LuaDeclId>) -> bool {
    forall|i: int, j: int| 0 <= i < j < ts.len() ==> decl_cmp(#[trigger] ts[i], #[trigger] ts[j]) != Ordering::Greater
}
/// the flattened value vectors of the global index in the order `gs` of the names
pub open spec fn flat_ids(m: Map<GlobalId, Vec<LuaDeclId>>, gs: Seq<GlobalId>) -> Seq<LuaDeclId>
    decreases gs.len(),
{
    if gs.len() == 0 { Seq::empty() } else { flat_ids(m, gs.drop_last()) + m[gs.last()]@ }
}
/// `r` lists every recorded declaration slot exactly once: the slots of each name in order, the names in SOME order
pub open spec fn is_slot_enum(m: Map<GlobalId, Vec<LuaDeclId>>, gs: Seq<GlobalId>, r: Seq<LuaDeclId>) -> bool {
    &&& gs.no_duplicates()
    &&& forall|g: GlobalId| #[trigger] gs.contains(g) <==> m.contains_key(g)
    &&& r == flat_ids(m, gs)
}

//@@include c35_export/lemmas.rs

// =====================================================================================================================
// 5. code under proof (extracted)
// =====================================================================================================================
impl LuaTypeDecl {
    //@@ LuaTypeDecl::get_locations
    //@@ LuaTypeDecl::is_class
    //@@ LuaTypeDecl::is_enum
    //@@ LuaTypeDecl::is_alias
    //@@ LuaTypeDecl::get_id
    //@@ LuaTypeDecl::get_full_name
}
impl DbIndex {
    //@@ DbIndex::get_decl_index
    //@@ DbIndex::get_type_index
    //@@ DbIndex::get_module_index
    //@@ DbIndex::get_vfs
    //@@ DbIndex::get_global_index
    //@@ DbIndex::get_emmyrc
}
impl LuaTypeIndex {
    //@@ LuaTypeIndex::get_all_types
}
impl LuaModuleIndex {
    //@@ LuaModuleIndex::get_module_infos
    //@@ LuaModuleIndex::is_main
}
impl LuaGlobalIndex {
    //@@ LuaGlobalIndex::get_all_global_decl_ids
}

//@@ export_types

//@@ export_modules__item

//@@ export_modules

//@@ export_globals__item

//@@ export_globals

//@@ export

} // verus!
fn main() {}
