"""unit c35_export — C35: "The JSON documentation export lists every class, enum, alias, global and module declared in the
main workspace exactly once, and nothing from libraries or the standard library. Exporting the same workspace twice gives
byte-identical output."

Code under proof (extracted on every run, never typed):
  crates/emmylua_doc_cli/src/json_generator/export.rs   export, export_types, export_modules (+ the body of its filter_map
                                                        closure as the statement slice export_modules__item), export_globals
                                                        (+ closure body slice export_globals__item)
  crates/emmylua_code_analysis/src/db_index/type/mod.rs       LuaTypeIndex::get_all_types
  crates/emmylua_code_analysis/src/db_index/module/mod.rs     LuaModuleIndex::{get_module_infos, is_main}
  crates/emmylua_code_analysis/src/db_index/global/mod.rs     LuaGlobalIndex::get_all_global_decl_ids
  + LuaTypeDecl::{get_locations, is_class, is_enum, is_alias, get_id, get_full_name}, six DbIndex getters, and the data they
    read: FileId, WorkspaceId (+ MAIN), ModuleInfo, LuaModuleIndex, LuaTypeIndex, LuaGlobalIndex, LuaDeclId, LuaDeclLocation,
    LuaTypeExtra, LuaTypeDecl, DbIndex (projected), Index / Module / Type / Global / GlobalTable / GlobalField of json_types.rs.

The iterator pipelines are desugared to explicit loops by the unit-local rules below (each one is the std definition of the
adapter, mechanical, and refuses — Undecided — when the text is not in the expected shape). The per-item renderers
(export_class / export_enum / export_alias / export_members / export_property / export_loc / render_typ / render_const)
are external_body shims with uninterpreted results.

CLAUSES
  (a) C35.<kind>.exactly-once / .nothing-from-libraries   kind in types, modules, globals (+ C35.export.*): there is a
      duplicate-free list of keys containing every selected item whose i-th element the i-th entry belongs to; and every
      listed key is a selected one. Selected = stored in the index AND in the MAIN workspace (types: some location).
      C35.<kind>.accessor-yields-every-*-once: the hash-map accessors return every value exactly once, in NO specified order
      (existential enumeration). C35.is-main-means-main-workspace. C35.modules.every-main-module-listed (or, under the
      by-design reading, .listed-iff-exports-a-value), C35.globals.listed-iff-declared-and-typed, C35.*.entry-names-its-*.
  (b) C35.output-independent-of-hash-order: the i-th entry belongs to the i-th element of canonical_<kind>_keys(db), the
      selected keys in ascending key order — defined from the maps' VIEWS (mathematical maps), hence a function of the index
      contents. Holds only if the function sorts by a total order whose ties are identical items (C35.sort-key = contract
      of the comparator closure, proved; comparator totality = precondition of sort_by, proved).
ON THE UNCHANGED TREE (b) FAILS for export_types / export_modules / export_globals (nothing sorts: FINDING, replay/c35),
and C35.modules.every-main-module-listed fails (reading-dependent finding). With the proposed repair the unit exits 0.
"""
import os
import re

from vc import rules as R
from vc import rustlex as L
from vc import extract as X
from vc.extract import Undecided

REPO = os.environ.get('VERIF_REPO', '/repo')
EXPORT = 'crates/emmylua_doc_cli/src/json_generator/export.rs'
JSON = 'crates/emmylua_doc_cli/src/json_generator/json_types.rs'
DB = 'crates/emmylua_code_analysis/src/db_index/'

_CTRL = re.compile(r'\b(return|break|continue)\b|\?')


# ---------------------------------------------------------------------------------------------------------------------
# rules
# ---------------------------------------------------------------------------------------------------------------------
@R.rule('map-values-collect')
def map_values_collect(text, **_):
    """`M.values().collect()`  ->  `vx_values_collect(&M)`        (M a field path `a.b.c`, the value a Vec<&V>)
    std (`HashMap::values`): "An iterator visiting all values in arbitrary order. The iterator element type is &'a V";
    `collect::<Vec<_>>()` stores the items in iteration order. Helper contract: the vector holds the value of every key exactly
    once (there is a duplicate-free enumeration `ks` of the key set with r[i] == M[ks[i]]) — and NOTHING about the order."""
    return re.subn(r'((?:\w+\s*\.\s*)*\w+)\s*\.\s*values\(\)\s*\.\s*collect\(\)',
                   lambda m: 'vx_values_collect(&%s)' % re.sub(r'\s+', '', m.group(1)), text)


@R.rule('for-map-values')
def for_map_values(text, **_):
    """`for X in M.values() {`  ->  `let __vals = vx_values_collect(&M); for X in __vals {`
    Same items in the same (arbitrary) order: the loop visits what `M.values()` yields, one `&V` per entry. Collecting first is
    unobservable because the body cannot touch M (it is borrowed by the iterator for the whole loop); the vector of references
    is named so that the contract overlay can speak about it (it lives to the end of the enclosing block instead of the end of
    the `for`: a Vec<&V> has no observable drop). Helper: see `map-values-collect`. At most one such loop per function."""
    new, n = re.subn(r'for\s+(\w+)\s+in\s+((?:\w+\s*\.\s*)*\w+)\s*\.\s*values\(\)\s*\{',
                     lambda m: 'let __vals = vx_values_collect(&%s);\n        for %s in __vals {' % (re.sub(r'\s+', '', m.group(2)), m.group(1)), text)
    if n > 1:
        raise Undecided('for-map-values: several loops over map values in one function')
    return new, n


@R.rule('vec-extend-ref')
def vec_extend_ref(text, **_):
    """`V.extend(W);` (W: &Vec<T>, T: Copy)  ->  `vx_extend_copied(&mut V, W);`
    std (`impl<'a, T: Copy + 'a> Extend<&'a T> for Vec<T>`): "Extend implementation that copies elements out of references
    before pushing them onto the Vec": V' == V + W. rustc checks `W: &Vec<T>` through the helper's parameter type."""
    return re.subn(r'\b(\w+)\.extend\((\w+)\);', r'vx_extend_copied(&mut \1, \2);', text)


def _closure(text, toks, i):
    """toks[i] is the `(` of `.adapter(`; the argument must be one closure `|x| BODY`. returns (param, body_text, close_idx)"""
    close = L.match_close(text, toks, i)
    if L.tok_text(text, toks[i + 1]) != '|' or toks[i + 2][0] != 'ident' or L.tok_text(text, toks[i + 3]) != '|':
        raise Undecided('closure with a pattern / several parameters / type annotation')
    param = L.tok_text(text, toks[i + 2])
    body = text[toks[i + 3][2]:toks[close][1]].strip()
    return param, body, close


@R.rule('iter-any-block')
def iter_any_block(text, **_):
    """`E.iter().any(|X| P)`  ->  `{ let mut __anyN = false; for X in E.iter() { if !__anyN { if P { __anyN = true; } } } __anyN }`
    std (`Iterator::any`): "Tests if any element of the iterator matches a predicate ... any() is short-circuiting; in other
    words, it will stop processing as soon as it finds a true". The loop evaluates P on the items in order until the first
    `true` and never again afterwards (`if !__anyN`), so P is evaluated on exactly the same items; stepping a slice iterator to
    its end has no effect. The value is `true` iff some evaluated P was true. X binds the same `&T` item in both forms.
    E is the whole postfix chain in front of `.iter()`. Side condition (checked): P has no `return` / `?` / `break` / `continue`."""
    n = 0
    while True:
        toks = L.code_tokens(text)
        hit = None
        for i, t in enumerate(toks):
            if L.tok_text(text, t) != 'any' or i < 4 or L.tok_text(text, toks[i - 1]) != '.' or L.tok_text(text, toks[i + 1]) != '(':
                continue
            if [L.tok_text(text, x) for x in toks[i - 5:i - 1]] != ['.', 'iter', '(', ')']:
                raise Undecided('iter-any-block: `.any(` not directly after `.iter()`')
            var, body, close = _closure(text, toks, i + 1)
            if _CTRL.search(body):
                raise Undecided('iter-any-block: control flow inside the predicate')
            j = i - 6            # last token of the receiver chain
            while j >= 0:
                tt = L.tok_text(text, toks[j])
                if tt == ')':
                    depth = 0
                    while j >= 0:
                        c = L.tok_text(text, toks[j])
                        if c == ')': depth += 1
                        elif c == '(':
                            depth -= 1
                            if depth == 0: break
                        j -= 1
                    j -= 1; continue
                if toks[j][0] == 'ident' and tt not in ('let', 'return', 'if', 'while', 'match', 'in', 'else') or tt == '.':
                    j -= 1; continue
                break
            start = toks[j + 1][1]
            recv = re.sub(r'\s+', '', text[start:toks[i - 5][1]])
            v = '__any%d' % n
            new = '{ let mut %s = false; for %s in %s.iter() { if !%s { if %s { %s = true; } } } %s }' % (v, var, recv, v, body, v, v)
            hit = (start, toks[close][2], new)
            break
        if not hit: break
        text = text[:hit[0]] + hit[2] + text[hit[1]:]
        n += 1
    return text, n


@R.rule('pipeline-collect-loop')
def pipeline_collect_loop(text, lift=None, **_):
    """The function's tail expression
            V.into_iter().S1(|x1| B1). ... .Sn(|xn| Bn).collect()          (V a local Vec, Si in filter / filter_map / flat_map / map)
    becomes
            let mut __out = Vec::new();
            for __item in V { <stages, nested> __out.push(<last value>); }
            __out
    by the std definitions of the adapters (all lazy, evaluated item by item in order, which is what the loop does):
      into_iter + for   `for x in V` IS `IntoIterator::into_iter(V)` followed by `next()` until None (Rust reference).
      filter(|x| P)     "creates an iterator which uses a closure to determine if an element should be yielded ... the closure
                        takes a reference": `let __keepK = { let x = &cur; P }; if __keepK { .. }`.
      filter_map(|x| B) "yields only the values for which the supplied closure returns Some(value)":
                        `match { let x = cur; B } { Some(__vK) => { .. } None => {} }`.
      flat_map(|x| B)   "maps each element to an iterator and yields the elements of the produced iterators"; the rule only
                        handles B : Option<U>, whose IntoIterator "yields the value if the option is Some, otherwise none" —
                        the same `match .. { Some(__vK) => .., None => {} }`; that B is an Option is checked by rustc (the match
                        patterns type-check only on Option).
      map(|x| B)        `let __vK = { let x = cur; B };`
      collect()         into a Vec (the function's return type): items are pushed in the order they are yielded.
    A closure body containing `?` / `return` cannot be inlined (they would leave the enclosing function instead of the
    closure). Such a closure must be named in `lift`: {stage ordinal: {'call': '<fn>(<args>)', 'from': re, 'to': re}}; the
    rule checks that the closure body is EXACTLY the text between the two anchors (the same anchors with which the unit
    extracts that text from the repository as a statement slice wrapped in fn <fn>, so `?`/`return` leave <fn> as they left the
    closure) and emits the call. Everything else (pattern parameters, other adapters, a receiver that is not a plain local,
    the expression not being the tail of the function, control flow in an inlined closure) is refused."""
    lift = lift or {}
    toks = L.code_tokens(text)
    hits = [i for i, t in enumerate(toks) if L.tok_text(text, t) == 'into_iter' and L.tok_text(text, toks[i - 1]) == '.']
    if not hits:
        return text, 0
    if len(hits) != 1:
        raise Undecided('pipeline-collect-loop: %d `.into_iter()` in the function' % len(hits))
    i = hits[0]
    if toks[i - 2][0] != 'ident' or L.tok_text(text, toks[i - 3]) not in (';', '{', '}'):
        raise Undecided('pipeline-collect-loop: receiver is not a plain local at statement start')
    recv = L.tok_text(text, toks[i - 2])
    start = toks[i - 2][1]
    if [L.tok_text(text, x) for x in toks[i + 1:i + 3]] != ['(', ')']:
        raise Undecided('pipeline-collect-loop: into_iter with arguments')
    k = i + 3
    stages = []
    while True:
        if L.tok_text(text, toks[k]) != '.' or toks[k + 1][0] != 'ident' or L.tok_text(text, toks[k + 2]) != '(':
            raise Undecided('pipeline-collect-loop: not a method chain')
        name = L.tok_text(text, toks[k + 1])
        if name == 'collect':
            close = L.match_close(text, toks, k + 2)
            if close != k + 3:
                raise Undecided('pipeline-collect-loop: collect with arguments')
            k = close + 1
            break
        if name not in ('filter', 'filter_map', 'flat_map', 'map'):
            raise Undecided('pipeline-collect-loop: adapter `%s` is not in the rule' % name)
        param, body, close = _closure(text, toks, k + 2)
        stages.append((name, param, body))
        k = close + 1
    # tail expression of the fn: next token closes the fn body and is the last token
    if L.tok_text(text, toks[k]) != '}' or k != len(toks) - 1:
        raise Undecided('pipeline-collect-loop: the pipeline is not the tail expression of the function')
    end = toks[k - 1][2]

    def value_of(ordinal, param, body, cur, by_ref):
        bind = 'let %s = %s%s;' % (param, '&' if by_ref else '', cur)
        if ordinal in lift:
            lf = lift[ordinal]
            inner = body.strip()
            if inner.startswith('{') and inner.endswith('}'):
                inner = inner[1:-1].strip()
            mf = re.match(lf['from'], inner, flags=re.S)
            mt = list(re.finditer(lf['to'], inner, flags=re.S))
            if not mf or not mt or mt[0].end() != len(inner) or len(mt) != 1:
                raise Undecided('pipeline-collect-loop: closure #%d is not exactly the slice /%s/../%s/' % (ordinal, lf['from'], lf['to']))
            return '{ %s %s }' % (bind, lf['call'])
        if _CTRL.search(body):
            raise Undecided('pipeline-collect-loop: closure #%d has `?`/return/break/continue and is not lifted' % ordinal)
        return '{ %s %s }' % (bind, body)

    def gen(idx, cur, ind):
        pad = '    ' * ind
        if idx == len(stages):
            return '%s__out.push(%s);\n' % (pad, cur)
        name, param, body = stages[idx]
        if name == 'filter':
            return ('%slet __keep%d = %s;\n%sif __keep%d {\n' % (pad, idx, value_of(idx, param, body, cur, True), pad, idx)
                    + gen(idx + 1, cur, ind + 1) + '%s}\n' % pad)
        if name in ('filter_map', 'flat_map'):
            return ('%smatch %s {\n%s    Some(__v%d) => {\n' % (pad, value_of(idx, param, body, cur, False), pad, idx)
                    + gen(idx + 1, '__v%d' % idx, ind + 2) + '%s    }\n%s    None => {}\n%s}\n' % (pad, pad, pad))
        return ('%slet __v%d = %s;\n' % (pad, idx, value_of(idx, param, body, cur, False)) + gen(idx + 1, '__v%d' % idx, ind))

    new = 'let mut __out = Vec::new();\n    for __item in %s {\n%s    }\n    __out' % (recv, gen(0, '__item', 2))
    return text[:start] + new + text[end:], 1


@R.rule('sort-closure-contract')
def sort_closure_contract(text, ty=None, spec=None, **_):
    """contract overlay on the comparator closure of `V.sort_by(|a, b| { BODY })`: parameter types (those `sort_by` demands:
    `&T` for a `Vec<T>`), a named result and `ensures o == <spec>(a, b)` are added; BODY is kept verbatim and Verus checks the
    ensures against it (same overlay as unit c26_semantic_tokens)."""
    return re.subn(r'\.sort_by\(\|a, b\| \{',
                   '.sort_by(|a: &%s, b: &%s| -> (o: Ordering)\n        ensures o == %s /*@C35.sort-key*/\n    {' % (ty, ty, spec), text)


# ---------------------------------------------------------------------------------------------------------------------
# contracts
# ---------------------------------------------------------------------------------------------------------------------
KEYS = 'keys_ok()'

MOD_FROM, MOD_TO = r'let \(members, typ\) = match module\s*\.export_type', r'using,\s*\}\)'
GLB_FROM, GLB_TO = r'let decl = db\.get_decl_index\(\)\.get_decl\(&global\)\?;', r'literal: render_const\(typ\),\s*\}\)\),\s*\}'


def st(file, name, keep=None, **kw):
    args = {'keep': keep} if keep is not None else {}
    d = {'src': {'file': file, 'kind': 'struct', 'name': name}, 'rules': [('struct-fields', args)]}
    d.update(kw)
    return d


def getter(name, field):
    return {'src': {'file': DB + 'mod.rs', 'kind': 'fn', 'impl': 'DbIndex', 'name': name}, 'ret': 'r',
            'ensures': 'r == &self.%s' % field}


ITEMS = {
    # ---- data ----
    'FileId': st('crates/emmylua_code_analysis/src/vfs/file_id.rs', 'FileId', attrs='#[derive(Clone, Copy, PartialEq, Eq, Hash)]'),
    'WorkspaceId': st(DB + 'module/workspace.rs', 'WorkspaceId', attrs='#[derive(Clone, Copy)]'),
    'WorkspaceId::MAIN': {'src': {'file': DB + 'module/workspace.rs', 'kind': 'const', 'impl': 'WorkspaceId', 'name': 'MAIN'}},
    'ModuleInfo': st(DB + 'module/module_info.rs', 'ModuleInfo',
                     keep=['file_id', 'full_module_name', 'export_type', 'workspace_id', 'semantic_id']),
    'LuaModuleIndex': st(DB + 'module/mod.rs', 'LuaModuleIndex', keep=['file_module_map']),
    'LuaTypeIndex': st(DB + 'type/mod.rs', 'LuaTypeIndex', keep=['full_name_type_map']),
    'LuaGlobalIndex': st(DB + 'global/mod.rs', 'LuaGlobalIndex', keep=['global_decl']),
    'LuaDeclId': st(DB + 'declaration/decl_id.rs', 'LuaDeclId', attrs='#[derive(Clone, Copy, PartialEq, Eq, Hash)]'),
    'LuaDeclLocation': st(DB + 'type/type_decl.rs', 'LuaDeclLocation', keep=['file_id']),
    'LuaTypeExtra': {'src': {'file': DB + 'type/type_decl.rs', 'kind': 'enum', 'name': 'LuaTypeExtra'}},
    'LuaTypeDecl': st(DB + 'type/type_decl.rs', 'LuaTypeDecl', keep=['locations', 'id', 'extra']),
    'DbIndex': st(DB + 'mod.rs', 'DbIndex', keep=['decl_index', 'types_index', 'modules_index', 'vfs', 'global_index', 'emmyrc']),
    'Index': st(JSON, 'Index'),
    'Module': st(JSON, 'Module'),
    'Type': {'src': {'file': JSON, 'kind': 'enum', 'name': 'Type'}},
    'Global': {'src': {'file': JSON, 'kind': 'enum', 'name': 'Global'}},
    'GlobalTable': st(JSON, 'GlobalTable'),
    'GlobalField': st(JSON, 'GlobalField'),
}

def tfn(name, **kw):
    d = {'src': {'file': DB + 'type/type_decl.rs', 'kind': 'fn', 'impl': 'LuaTypeDecl', 'name': name}, 'ret': 'r'}
    d.update(kw)
    return d


ITEMS.update({
    # ---- LuaTypeDecl accessors (real) ----
    'LuaTypeDecl::get_locations': tfn('get_locations', ensures='r@ == self.locations@'),
    'LuaTypeDecl::is_class': tfn('is_class', ensures='r == (self.extra is Class)'),
    'LuaTypeDecl::is_enum': tfn('is_enum', ensures='r == (self.extra is Enum)'),
    'LuaTypeDecl::is_alias': tfn('is_alias', ensures='r == (self.extra is Alias)'),
    'LuaTypeDecl::get_id': tfn('get_id', ensures='r == self.id'),
    'LuaTypeDecl::get_full_name': tfn('get_full_name', ensures='r@ == sp_id_name(self.id)'),
    # ---- DbIndex getters (real) ----
    'DbIndex::get_decl_index': getter('get_decl_index', 'decl_index'),
    'DbIndex::get_type_index': getter('get_type_index', 'types_index'),
    'DbIndex::get_module_index': getter('get_module_index', 'modules_index'),
    'DbIndex::get_vfs': getter('get_vfs', 'vfs'),
    'DbIndex::get_global_index': getter('get_global_index', 'global_index'),
    'DbIndex::get_emmyrc': {'src': {'file': DB + 'mod.rs', 'kind': 'fn', 'impl': 'DbIndex', 'name': 'get_emmyrc'}},
    # ---- the three index accessors + is_main (real) ----
    'LuaTypeIndex::get_all_types': {
        'src': {'file': DB + 'type/mod.rs', 'kind': 'fn', 'impl': 'LuaTypeIndex', 'name': 'get_all_types'},
        'rules': [('map-values-collect', {'count': 1})], 'ret': 'r', 'requires': KEYS,
        'ensures': 'exists|ks: Seq<LuaTypeDeclId>| is_values_enum(self.full_name_type_map@, r@, ks) /*@C35.types.accessor-yields-every-declaration-once*/'},
    'LuaModuleIndex::get_module_infos': {
        'src': {'file': DB + 'module/mod.rs', 'kind': 'fn', 'impl': 'LuaModuleIndex', 'name': 'get_module_infos'},
        'rules': [('map-values-collect', {'count': 1})], 'ret': 'r', 'requires': KEYS,
        'ensures': 'exists|ks: Seq<FileId>| is_values_enum(self.file_module_map@, r@, ks) /*@C35.modules.accessor-yields-every-module-once*/'},
    'LuaModuleIndex::is_main': {
        'src': {'file': DB + 'module/mod.rs', 'kind': 'fn', 'impl': 'LuaModuleIndex', 'name': 'is_main'},
        'ret': 'r', 'requires': KEYS,
        'ensures': 'r == in_main(self, *file_id) /*@C35.is-main-means-main-workspace*/'},
    'LuaGlobalIndex::get_all_global_decl_ids': {
        'src': {'file': DB + 'global/mod.rs', 'kind': 'fn', 'impl': 'LuaGlobalIndex', 'name': 'get_all_global_decl_ids'},
        'rules': [('for-map-values', {'count': 1}), ('vec-extend-ref', {'count': 1})], 'ret': 'r', 'requires': KEYS,
        'ensures': 'exists|gs: Seq<GlobalId>| is_slot_enum(self.global_decl@, gs, r@) /*@C35.globals.accessor-yields-every-recorded-declaration-once*/',
        'iter_names': {0: 'it'},
        'proof': [
            (r'let __vals = vx_values_collect\(&self\.global_decl\);', 'after',
             'let ghost gs: Seq<GlobalId> = choose|gs: Seq<GlobalId>| is_values_enum(self.global_decl@, __vals@, gs);'),
            (r'vx_extend_copied\(&mut decls, v\);', 'after',
             'proof { assert(gs.take(it.index@ + 1).drop_last() =~= gs.take(it.index@)); }'),
            (r'\n\s*decls\s*\}$', 'before',
             'proof { assert(gs.take(gs.len() as int) =~= gs); assert(is_slot_enum(self.global_decl@, gs, decls@)); }'),
        ],
        'loops': {0: '''invariant
                it.seq() == __vals@,
                is_values_enum(self.global_decl@, __vals@, gs),
                decls@ == flat_ids(self.global_decl@, gs.take(it.index@)) /*@C35.globals.accessor-yields-every-recorded-declaration-once.inv*/,'''},
    },
})

# ---------------------------------------------------------------------------------------------------------------------
# the three export functions. The contract overlay follows the SHAPE of the text: when the function sorts its input
# (`X.sort_by(..)`, the proposed repair) the overlay proves the comparator total (obligation of sort_by) and that the sorted
# vector is still an enumeration of the map's values; when it does not, those anchors do not exist and nothing establishes
# `*_sorted(..)`, so the clause C35.output-independent-of-hash-order fails — as it must.
# ---------------------------------------------------------------------------------------------------------------------
def _raw(name):
    return X.find_item(REPO, {'file': EXPORT, 'kind': 'fn', 'name': name}).raw


# READING of "every ... module declared in the main workspace" (see not_covered / findings):
#   'every-module'       every module FILE of the main workspace must be listed (literal reading; the real closure drops a
#                        module whose file returns nothing through `module.export_type.as_ref()?` -> finding)
#   'exporting-modules'  only the modules whose file exports a value must be listed (what both generators of emmylua_doc_cli do)
MODULE_READING = os.environ.get('C35_MODULE_READING', 'every-module')   # env override for a quick comparison of the two readings

COMMON_INV = 'keys_ok(), index_wf(db), module_index == &db.modules_index,'


def export_fn(name, kind, var, elem_ty, requires, cmp_spec, laws, str_cmp_rule, pre, carry_sorted, carried, sel, finish, ensures, all_ks='all_ks',
              lift=None, inner_any=False):
    """item config of one export function. `pre`: ghost text after the accessor call; `carry_sorted`: proof text (sorting
    shape only) that carries the accessor's postcondition across the sort; `carried`: the fact about the (possibly sorted)
    vector `ts` the loop starts from."""
    raw = _raw(name)
    has_sort = ('%s.sort_by(' % var) in raw
    rules = [('iter-any-block', {'optional': True}), ('pipeline-collect-loop', {'lift': lift or {}, 'count': 1})]
    proof = []
    if has_sort:
        rules.append(('sort-closure-contract', {'ty': elem_ty, 'spec': cmp_spec, 'count': 1}))
        if str_cmp_rule:
            rules.append((str_cmp_rule, {'count': 1}))
        proof.append((r'%s\.sort_by\(' % var, 'before', 'proof { %s }' % laws))
    setup = 'let ghost ts = %s@;\nproof {\n%s\n    assert(%s);\n}\n' % (var, carry_sorted if has_sort else '', carried)
    proof += [
        (r'let (mut )?%s = \w+\.get_\w+\(\);' % var, 'after', pre),
        (r'let mut __out = Vec::new\(\);', 'before', setup),
        # an entry is pushed only for a selected key (nothing from libraries) ...
        (r'__out\.push\(__v1\);', 'before',
         'proof { assert((%s)(%s[it.index@ as int])) /*@C35.%s.nothing-from-libraries*/; lemma_picks_push(%s, ix, it.index@, %s); ix = ix.push(it.index@); }'
         % (sel, all_ks, kind, all_ks, sel)),
        (r'\n\s*__out\s*\}$', 'before', 'proof { %s }' % finish),
    ]
    return {
        'src': {'file': EXPORT, 'kind': 'fn', 'name': name}, 'rules': rules, 'ret': 'r', 'requires': requires, 'ensures': ensures,
        'iter_names': {0: 'it', 1: 'it2'} if inner_any else {0: 'it'},
        'proof': proof,
        'attrs': '#[verifier::spinoff_prover]',
    }


def values_pre(var, key_ty, map_expr):
    return ('let ghost s0 = %(v)s@;\nlet ghost ks0: Seq<%(k)s> = choose|ks: Seq<%(k)s>| is_values_enum(%(m)s, s0, ks);'
            % dict(v=var, k=key_ty, m=map_expr))


def values_carry(key_ty, map_expr, sorted_pred):
    return ("""    let (p, q) = choose|p: Seq<int>, q: Seq<int>| is_rearrangement(s0, ts, p, q);
    let ks1 = lemma_perm_values_enum(%(m)s, s0, ks0, ts, p, q);
    assert(%(sp)s(ts));""" % dict(m=map_expr, sp=sorted_pred))


def values_setup_tail(key_ty, map_expr):
    return ('let ghost all_ks: Seq<%(k)s> = choose|ks: Seq<%(k)s>| is_values_enum(%(m)s, ts, ks);\n'
            'let ghost mut ix: Seq<int> = Seq::empty();' % dict(k=key_ty, m=map_expr))


def add_setup_tail(cfg, tail):
    cfg['proof'] = [(a, w, t + tail if a.startswith('let mut __out') else t) for (a, w, t) in cfg['proof']]


# ---- types ----
TYPES = export_fn(
    'export_types', 'types', 'types', '&LuaTypeDecl', 'keys_ok(), index_wf(db), type_id_order_laws()',
    cmp_spec='type_id_cmp(a.id, b.id)', laws='lemma_type_id_cmp_laws();', str_cmp_rule='str-cmp-full-name',
    pre=values_pre('types', 'LuaTypeDeclId', 'type_map(db)'),
    carry_sorted=values_carry('LuaTypeDeclId', 'type_map(db)', 'types_sorted'),
    carried='exists|ks: Seq<LuaTypeDeclId>| is_values_enum(type_map(db), ts, ks)',
    sel='type_sel(db)', inner_any=True,
    finish='lemma_types_finish(db, ts, all_ks, ix, __out@);',
    ensures="""
        // (a) every class / enum / alias with a location in the main workspace has exactly one entry
        types_exactly_once(db, r@) /*@C35.types.exactly-once*/,
        // (a) and every entry belongs to such a declaration: nothing whose locations are all in libraries / std
        types_only_main(db, r@) /*@C35.types.nothing-from-libraries*/,
        // (b) the i-th entry is the entry of the i-th selected declaration in (full name, id) order: a function of the index
        // contents, whatever order the hash map was iterated in
        types_listing(db, canonical_type_keys(db), r@) /*@C35.output-independent-of-hash-order*/""")
add_setup_tail(TYPES, values_setup_tail('LuaTypeDeclId', 'type_map(db)'))
TYPES['loops'] = {
    0: """invariant
            %s type_id_order_laws(),
            it.seq() == ts,
            is_values_enum(type_map(db), ts, all_ks),
            picks(all_ks, ix, it.index@, type_sel(db)) /*@C35.types.exactly-once.inv*/,
            __out@.len() == ix.len(),
            forall|n: int| 0 <= n < __out@.len() ==> #[trigger] __out@[n] == type_entry(db, &type_map(db)[all_ks[ix[n]]]) /*@C35.types.exactly-once.inv*/,""" % COMMON_INV,
    1: """invariant
            %s
            it2.seq().len() == type_decl.locations@.len(),
            forall|i: int| 0 <= i < it2.seq().len() ==> *(#[trigger] it2.seq()[i]) == type_decl.locations@[i],
            __any0 == exists|i: int| 0 <= i < it2.index@ && in_main(&db.modules_index, (#[trigger] type_decl.locations@[i]).file_id) /*@C35.types.nothing-from-libraries.inv*/,""" % COMMON_INV,
}
TYPES['proof'] += [
    (r'if __keep0 \{', 'before',
     """proof {
            assert(__keep0 == has_main_location(db, __item));
            assert(all_ks.contains(all_ks[it.index@ as int]));
            assert(*__item == type_map(db)[all_ks[it.index@ as int]]);
            if !__keep0 { assert(!(type_sel(db))(all_ks[it.index@ as int])) /*@C35.types.exactly-once*/; lemma_picks_skip(all_ks, ix, it.index@, type_sel(db)); }
        }"""),
    # the flat_map never drops a selected declaration: every declaration is a class, an enum or an alias
    (r'None => \{', 'after', 'proof { assert(!(type_sel(db))(all_ks[it.index@ as int])) /*@C35.types.exactly-once*/; lemma_picks_skip(all_ks, ix, it.index@, type_sel(db)); }'),
]
ITEMS['export_types'] = TYPES

# ---- modules: the filter_map closure body as a statement slice, then the pipeline ----
ITEMS['export_modules__item'] = {
    'src': {'kind': 'slice', 'in': {'file': EXPORT, 'kind': 'fn', 'name': 'export_modules'}, 'from': MOD_FROM, 'to': MOD_TO,
            'name': 'export_modules__item',
            'head': 'pub fn export_modules__item(db: &DbIndex, type_index: &LuaTypeIndex, vfs: &Vfs, module: &ModuleInfo) -> Option<Module>'},
    'ret': 'r',
    'ensures': ("""
        // literal reading of the property: the closure never drops a main-workspace module
        r is Some /*@C35.modules.every-main-module-listed*/,""" if MODULE_READING == 'every-module' else """
        // which main-workspace modules get an entry: exactly those whose file exports a value
        (r is Some) == (module.export_type is Some) /*@C35.modules.listed-iff-exports-a-value*/,""") + """
        r matches Some(m) ==> module_entry_for(m, module) /*@C35.modules.entry-names-its-module*/""",
}
MODULES = export_fn(
    'export_modules', 'modules', 'modules', '&ModuleInfo', 'keys_ok(), index_wf(db)',
    cmp_spec='module_cmp(*a, *b)', laws='lemma_module_cmp_laws();', str_cmp_rule='str-cmp-module-name',
    pre=values_pre('modules', 'FileId', 'module_map(db)'),
    carry_sorted=values_carry('FileId', 'module_map(db)', 'modules_sorted'),
    carried='exists|ks: Seq<FileId>| is_values_enum(module_map(db), ts, ks)',
    sel='module_sel(db)',
    lift={1: {'call': 'export_modules__item(db, type_index, vfs, module)', 'from': MOD_FROM, 'to': MOD_TO}},
    finish='lemma_modules_finish(db, ts, all_ks, ix, __out@);',
    ensures="""
        // (a) every main-workspace module that exports a value has exactly one entry
        modules_exactly_once(db, r@) /*@C35.modules.exactly-once*/,
        // (a) and every entry belongs to such a module: nothing from libraries / std
        modules_only_main(db, r@) /*@C35.modules.nothing-from-libraries*/,
        // (b) the i-th entry belongs to the i-th selected module in (full module name, file id) order
        modules_listing(db, canonical_module_keys(db), r@) /*@C35.output-independent-of-hash-order*/""")
add_setup_tail(MODULES, values_setup_tail('FileId', 'module_map(db)'))
MODULES['loops'] = {
    0: """invariant
            %s
            it.seq() == ts,
            is_values_enum(module_map(db), ts, all_ks),
            picks(all_ks, ix, it.index@, module_sel(db)) /*@C35.modules.exactly-once.inv*/,
            __out@.len() == ix.len(),
            forall|n: int| 0 <= n < __out@.len() ==> module_entry_for(#[trigger] __out@[n], &module_map(db)[all_ks[ix[n]]]) /*@C35.modules.exactly-once.inv*/,""" % COMMON_INV,
}
MODULES['proof'] += [
    (r'if __keep0 \{', 'before',
     """proof {
            assert(all_ks.contains(all_ks[it.index@ as int]));
            assert(*__item == module_map(db)[all_ks[it.index@ as int]]);
            assert(__item.file_id == all_ks[it.index@ as int]);
            if !__keep0 { assert(!(module_sel(db))(all_ks[it.index@ as int])) /*@C35.modules.exactly-once*/; lemma_picks_skip(all_ks, ix, it.index@, module_sel(db)); }
        }"""),
    (r'None => \{', 'after', 'proof { assert(!(module_sel(db))(all_ks[it.index@ as int])) /*@C35.modules.exactly-once*/; lemma_picks_skip(all_ks, ix, it.index@, module_sel(db)); }'),
]
ITEMS['export_modules'] = MODULES

# ---- globals ----
ITEMS['export_globals__item'] = {
    'src': {'kind': 'slice', 'in': {'file': EXPORT, 'kind': 'fn', 'name': 'export_globals'}, 'from': GLB_FROM, 'to': GLB_TO,
            'name': 'export_globals__item',
            'head': 'pub fn export_globals__item(db: &DbIndex, type_index: &LuaTypeIndex, vfs: &Vfs, global: LuaDeclId) -> Option<Global>'},
    'ret': 'r',
    'requires': 'type_index == &db.types_index',
    'ensures': """
        // which main-workspace global declarations get an entry: those with a declaration record and a cached type
        (r is Some) == (has_decl(db, global) && has_type(db, global)) /*@C35.globals.listed-iff-declared-and-typed*/,
        r matches Some(g) ==> global_entry_for(db, g, global) /*@C35.globals.entry-names-its-declaration*/""",
}
GLOBALS = export_fn(
    'export_globals', 'globals', 'globals', 'LuaDeclId', 'keys_ok(), index_wf(db)',
    cmp_spec='decl_cmp(*a, *b)', laws='lemma_decl_cmp_laws();', str_cmp_rule=None,
    pre="""let ghost s0 = globals@;
proof {
    let gs = choose|gs: Seq<GlobalId>| is_slot_enum(global_map(db), gs, s0);
    lemma_slot_enum_values(global_map(db), gs, s0);
}""",
    carry_sorted="""    let (p, q) = choose|p: Seq<int>, q: Seq<int>| is_rearrangement(s0, ts, p, q);
    lemma_perm_recorded_enum(global_map(db), s0, ts, p, q);
    assert(globals_sorted(ts));""",
    carried='is_recorded_enum(global_map(db), ts)',
    sel='global_sel(db)', all_ks='ts',
    lift={1: {'call': 'export_globals__item(db, type_index, vfs, global)', 'from': GLB_FROM, 'to': GLB_TO}},
    finish='lemma_globals_finish(db, ts, ix, __out@);',
    ensures="""
        // (a) every recorded global declaration of a main-workspace file (with a declaration record and a type) has exactly one entry
        globals_exactly_once(db, r@) /*@C35.globals.exactly-once*/,
        // (a) and every entry belongs to such a declaration: nothing from libraries / std
        globals_only_main(db, r@) /*@C35.globals.nothing-from-libraries*/,
        // (b) the i-th entry belongs to the i-th selected declaration in (file id, position) order
        globals_listing(db, canonical_global_keys(db), r@) /*@C35.output-independent-of-hash-order*/""")
add_setup_tail(GLOBALS, 'let ghost mut ix: Seq<int> = Seq::empty();')
GLOBALS['loops'] = {
    0: """invariant
            %s type_index == &db.types_index,
            it.seq() == ts,
            is_recorded_enum(global_map(db), ts),
            picks(ts, ix, it.index@, global_sel(db)) /*@C35.globals.exactly-once.inv*/,
            __out@.len() == ix.len(),
            forall|n: int| 0 <= n < __out@.len() ==> global_entry_for(db, #[trigger] __out@[n], ts[ix[n]]) /*@C35.globals.exactly-once.inv*/,""" % COMMON_INV,
}
GLOBALS['proof'] += [
    (r'if __keep0 \{', 'before',
     """proof {
            assert(ts.contains(ts[it.index@ as int]));
            if !__keep0 { assert(!(global_sel(db))(ts[it.index@ as int])) /*@C35.globals.exactly-once*/; lemma_picks_skip(ts, ix, it.index@, global_sel(db)); }
        }"""),
    (r'None => \{', 'after', 'proof { assert(!(global_sel(db))(ts[it.index@ as int])) /*@C35.globals.exactly-once*/; lemma_picks_skip(ts, ix, it.index@, global_sel(db)); }'),
]
ITEMS['export_globals'] = GLOBALS

# ---- export ----
ITEMS['export'] = {
    'src': {'file': EXPORT, 'kind': 'fn', 'name': 'export'}, 'ret': 'r',
    'requires': 'keys_ok(), index_wf(db), type_id_order_laws()',
    'ensures': """
        types_exactly_once(db, r.types@) && modules_exactly_once(db, r.modules@) && globals_exactly_once(db, r.globals@) /*@C35.export.exactly-once*/,
        types_only_main(db, r.types@) && modules_only_main(db, r.modules@) && globals_only_main(db, r.globals@) /*@C35.export.nothing-from-libraries*/,
        types_listing(db, canonical_type_keys(db), r.types@) && modules_listing(db, canonical_module_keys(db), r.modules@)
            && globals_listing(db, canonical_global_keys(db), r.globals@) /*@C35.output-independent-of-hash-order*/""",
}

with open(os.path.join(os.path.dirname(os.path.abspath(__file__)), 'template.rs'), encoding='utf-8') as _f:
    _TEMPLATE = _f.read()
if _TEMPLATE.count('/*@@MODULE_READING@@*/') != 1:
    raise Undecided('template.rs: the MODULE_READING marker is missing')
_TEMPLATE = _TEMPLATE.replace('/*@@MODULE_READING@@*/', 'false' if MODULE_READING == 'every-module' else 'true')

UNIT = {
    'items': ITEMS,
    'template_text': _TEMPLATE,
    'extra_rules': [
        ('str-cmp-full-name', r'\ba\s*\.\s*get_full_name\(\)\s*\.\s*cmp\(\s*b\s*\.\s*get_full_name\(\)\s*\)',
         'vx_str_cmp(a.get_full_name(), b.get_full_name())',
         '`X.cmp(Y)` on two `&str` (Ord for str) -> vx_str_cmp(X, Y), ensures o == str_cmp(X@, Y@): std "Strings are ordered '
         'lexicographically by their byte values" (= by code point, UTF-8 preserves the order); rustc checks X, Y: &str through '
         'the helper\'s parameter types'),
        ('str-cmp-module-name', r'\ba\s*\.\s*full_module_name\s*\.\s*cmp\(\s*&\s*b\s*\.\s*full_module_name\s*\)',
         'vx_str_cmp(a.full_module_name.as_str(), b.full_module_name.as_str())',
         '`X.cmp(&Y)` on two `String`s (`impl Ord for String` compares the contents as `str`) -> vx_str_cmp(X.as_str(), Y.as_str())'),
    ],
    'allow': [r'external_body', r'\buninterp\b', r'assume_specification \[Ordering::then\]',
              r'assume_specification<T, F: FnMut\(&T, &T\) -> Ordering>\[ <\[T\]>::sort_by \]'],
    'min_obligations': 50,
    'trusted': [
        'renderers: export_class / export_enum / export_alias (results = uninterpreted functions sp_export_*(db, decl) of their arguments), '
        'export_members / export_property / export_loc / render_typ / render_const (no contract). ASSUMED deterministic functions of '
        '(db, item). NOTE: the replay driver REFUTES this for export_enum on the unchanged tree: Enum.typ is rendered from '
        'LuaTypeDecl::get_enum_field_type, which walks LuaMemberIndex::get_members (hash order) — see findings',
        'index invariants, preconditions of export / export_types / export_modules / export_globals (index_wf): every LuaTypeDecl is stored in '
        'full_name_type_map under its own id (the only insert is add_type_decl: `insert(type_decl.get_id(), type_decl)`); every ModuleInfo is '
        'stored in file_module_map under its own file_id (the only insert is add_module_by_module_path); no LuaDeclId is recorded in two slots '
        'of LuaGlobalIndex::global_decl (add_global_decl is called once per declaration; remove(file) drops the file\'s ids). Read, not proved.',
        'type_id_order_laws (precondition of export_types / export): the `Ord` of LuaTypeDeclId that the REPAIR derives '
        '(#[derive(PartialOrd, Ord)] on LuaTypeDeclId and LuaTypeIdentifier; ArcIntern<T: Ord> compares by value) is a total order consistent '
        'with the derived Eq (Rust reference on derive(Ord); std Ord contract). Shim: LuaTypeDeclId opaque with derived Ord, vstd\'s uninterpreted cmp_spec',
        'keys_ok: derived Hash/Eq of FileId, LuaTypeDeclId, GlobalId obey vstd\'s key model; hashbrown::HashMap -> std::collections::HashMap '
        '(same API subset: values / get)',
        'vx_values_collect (rules map-values-collect, for-map-values): std HashMap::values "An iterator visiting all values in arbitrary '
        'order": the value of every key exactly once, NO statement about the order (existential enumeration of the key set)',
        'vx_extend_copied (rule vec-extend-ref): std `impl Extend<&T> for Vec<T: Copy>` appends copies in order',
        'vx_str_cmp (rules str-cmp-*): std `impl Ord for str`/`String`: lexicographic by byte values = by code point (str_cmp is DEFINED and '
        'its order laws are PROVED: lemma_str_cmp_eq / _rev / _trans)',
        'assume_specification <[T]>::sort_by: std "sorts the slice ... with a comparator function": result is a rearrangement (index '
        'permutation with inverse) of the input and ascending w.r.t. the comparator; requires the comparator to be a total order '
        '(cmp_total, PROVED for the three closures from their contracts C35.sort-key)',
        'assume_specification Ordering::then: std "Returns self when it\'s not Equal. Otherwise returns other"',
        'shims: LuaType projected to the two variants the closures name (TableConst, Instance) + Other; LuaMemberOwner / RenderLevel / '
        'LuaSemanticDeclId projected likewise; InFiled, LuaInstanceType, LuaDeclIndex::get_decl, LuaDecl::{get_name, get_file_id, get_range}, '
        'LuaTypeIndex::{get_type_cache, get_file_namespace, get_file_using_namespace}, LuaTypeCache::as_type, Vfs::get_file_path, '
        'LuaTypeDeclId::get_name, From<LuaDeclId> for LuaTypeOwner, DbIndex::get_emmyrc: opaque, results uninterpreted or unconstrained; '
        'WorkspaceId\'s derived PartialEq and TextSize\'s derived Ord transcribed (one u32 field each)',
        'pipeline rules (unit-local, documented in unit.py): iter-any-block, pipeline-collect-loop (filter / filter_map / flat_map-on-Option / '
        'map / collect), sort-closure-contract; the two filter_map closure bodies are extracted as statement slices '
        '(export_modules__item, export_globals__item) and the rule checks that the closure body IS the slice',
    ],
    'not_covered': [
        'byte identity of the ENTRIES: clause (b) fixes WHICH item the i-th entry of types / modules / globals belongs to as a function of the '
        'index contents; the bytes of an entry are produced by the trusted renderers (types: entry == sp_export_*(db, decl); modules / '
        'globals: the entry carries the item\'s name, the other fields are renderer output). One renderer is NOT deterministic (Enum.typ, see findings)',
        'reading of "module declared in the main workspace": MODULE_READING (unit.py) = every-module (literal, default: the real closure drops '
        'module files that return nothing -> finding C35.modules.every-main-module-listed) | exporting-modules (by-design reading: both '
        'generators of emmylua_doc_cli skip modules without export value; then the clause is C35.modules.listed-iff-exports-a-value)',
        'globals: the export lists one entry per recorded DECLARATION id (LuaGlobalIndex slot) of a main-workspace file that has a declaration '
        'record and a cached type (the two `?` of the closure: C35.globals.listed-iff-declared-and-typed); whether every recorded global id '
        'always has both after analysis is an index invariant outside the unit; several declarations of one name give several entries with that name',
        'types: a declaration is selected when SOME location is in a main-workspace file (a class declared partly in a library is listed); '
        'its `loc` list may then name library files (export_loc_for_type, renderer)',
        'that the index CONTENTS are themselves reproducible between two runs (file-id assignment = load order, order of the per-name '
        'vectors in the global index, member order): the contract is relative to the DbIndex value',
        'generate_json (directory creation, serde_json::to_string_pretty, writing the file), Index.config (Emmyrc clone), the markdown generator',
        'LuaTypeIndex / LuaModuleIndex / LuaGlobalIndex writers (that index_wf is an invariant)',
    ],
    'samples': [
        'export_types(db): exists duplicate-free ks containing every selected id with r[i] == type_entry(db, type_map[ks[i]]); every listed id '
        'is selected (some location in a MAIN-workspace file); and r lists canonical_type_keys(db) = the selected ids in (full name, id) order',
        'LuaTypeIndex::get_all_types: exists ks: Seq<LuaTypeDeclId>, duplicate-free, = key set, r[i] == full_name_type_map[ks[i]] — no order',
        'LuaModuleIndex::is_main(f) == (file_module_map has f && its workspace_id == WorkspaceId::MAIN)',
        'export_modules__item (the filter_map closure body): r is Some [literal reading]; r = Some(m) ==> m.name@ == module.full_module_name@',
    ],
    'mutants': [
        {'name': 'types-filter-lets-libraries-through', 'item': 'export_types',
         'pattern': r'\.any\(\|loc\| module_index\.is_main\(&loc\.file_id\)\)', 'repl': '.any(|loc| true || module_index.is_main(&loc.file_id))',
         'expect': r'C35\.types\.nothing-from-libraries'},
        {'name': 'types-filter-negated', 'item': 'export_types',
         'pattern': r'\.any\(\|loc\| module_index\.is_main\(&loc\.file_id\)\)', 'repl': '.any(|loc| !module_index.is_main(&loc.file_id))',
         'expect': r'C35\.types\.(nothing-from-libraries|exactly-once)'},
        {'name': 'types-aliases-dropped', 'item': 'export_types',
         'pattern': r'Some\(Type::Alias\(export_alias\(db, type_decl\)\)\)', 'repl': 'None',
         'expect': r'C35\.types\.exactly-once'},
        {'name': 'types-enum-rendered-as-class', 'item': 'export_types',
         'pattern': r'Some\(Type::Enum\(export_enum\(db, type_decl\)\)\)', 'repl': 'Some(Type::Class(export_class(db, type_decl)))',
         'expect': r'C35\.types\.exactly-once'},
        {'name': 'globals-filter-negated', 'item': 'export_globals',
         'pattern': r'\.filter\(\|global\| module_index\.is_main\(&global\.file_id\)\)', 'repl': '.filter(|global| !module_index.is_main(&global.file_id))',
         'expect': r'C35\.globals\.(nothing-from-libraries|exactly-once)'},
        {'name': 'modules-filter-negated', 'item': 'export_modules',
         'pattern': r'\.filter\(\|module\| module_index\.is_main\(&module\.file_id\)\)', 'repl': '.filter(|module| !module_index.is_main(&module.file_id))',
         'expect': r'C35\.modules\.(nothing-from-libraries|exactly-once)'},
        {'name': 'get-all-types-truncated', 'item': 'LuaTypeIndex::get_all_types',
         'pattern': r'self\.full_name_type_map\.values\(\)\.collect\(\)',
         'repl': '{ let mut v: Vec<&LuaTypeDecl> = self.full_name_type_map.values().collect(); v.truncate(1); v }',
         'expect': r'C35\.types\.accessor-yields-every-declaration-once'},
        {'name': 'get-module-infos-truncated', 'item': 'LuaModuleIndex::get_module_infos',
         'pattern': r'self\.file_module_map\.values\(\)\.collect\(\)',
         'repl': '{ let mut v: Vec<&ModuleInfo> = self.file_module_map.values().collect(); v.truncate(1); v }',
         'expect': r'C35\.modules\.accessor-yields-every-module-once'},
        {'name': 'global-ids-only-first-name', 'item': 'LuaGlobalIndex::get_all_global_decl_ids',
         'pattern': r'decls\.extend\(v\);', 'repl': 'if decls.len() == 0 { decls.extend(v); }',
         'expect': r'C35\.globals\.accessor-yields-every-recorded-declaration-once'},
        {'name': 'is-main-accepts-every-known-file', 'item': 'LuaModuleIndex::is_main',
         'pattern': r'return module_info\.workspace_id == WorkspaceId::MAIN;', 'repl': 'return true;',
         'expect': r'C35\.is-main-means-main-workspace'},
        {'name': 'is-main-unknown-file-is-main', 'item': 'LuaModuleIndex::is_main',
         'pattern': r'\n(\s*)false(\s*\})$', 'repl': r'\n\1true\2',
         'expect': r'C35\.is-main-means-main-workspace'},
        {'name': 'module-entry-without-name', 'item': 'export_modules__item',
         'pattern': r'name: module\.full_module_name\.clone\(\),', 'repl': 'name: String::new(),',
         'expect': r'C35\.modules\.entry-names-its-module'},
        {'name': 'global-without-type-still-listed', 'item': 'export_globals__item',
         'pattern': r'let decl = db\.get_decl_index\(\)\.get_decl\(&global\)\?;',
         'repl': 'let decl = db.get_decl_index().get_decl(&global)?; if global.file_id.id == 7 { return None; }',
         'expect': r'C35\.globals\.listed-iff-declared-and-typed'},
        # the following three edit the comparator of the REPAIRED tree (pattern absent on the unchanged tree -> undecided there)
        {'name': 'repaired-types-sorted-by-name-only', 'item': 'export_types',
         'pattern': r'\s*\.then\(a\.get_id\(\)\.cmp\(&b\.get_id\(\)\)\)', 'repl': '',
         'expect': r'C35\.sort-key'},
        {'name': 'repaired-modules-sorted-by-name-only', 'item': 'export_modules',
         'pattern': r'\s*\.then\(a\.file_id\.id\.cmp\(&b\.file_id\.id\)\)', 'repl': '',
         'expect': r'C35\.sort-key'},
        {'name': 'repaired-globals-sorted-by-file-only', 'item': 'export_globals',
         'pattern': r'\s*\.then\(a\.position\.cmp\(&b\.position\)\)', 'repl': '',
         'expect': r'C35\.sort-key'},
    ],
}
